"""C01: routes are contiguous origin-to-destination walks without a repeated edge; trees are rooted trees."""
import glob
import json
import os
from lib import vf

RULE = ("graph searches on the real core code (Dijkstra, A* with weight factors {default,0,1/2,1,3,10,20}, heuristic tables "
        "zero/exact/half/admissible/inadmissible, vertex- and edge-oriented, forward and reverse, frontier tables, "
        "termination limits) on boundary families (dead ends, isolated/neighbour destination, self loops, parallel "
        "edges, one-way ring, the edge-oriented u-turn/self-loop/adjacent shapes, absorption 2^60, long haul 2^21..2^40 "
        "followed by zero-length / 1e-12 mutual edges and 3-cycles in both edge-id orders, re-open gadgets where a vertex "
        "with a child is back on the queue when the destination pops) and random digraphs "
        "(n 3..40, out-degree 0..8 with one vertex above 5, forced parallel edge / self loop / isolated vertex / "
        "unreachable part; costs k/64, integers 1..3, or long-haul mixtures of 2^k, 0, 1e-12, 1; one query in seven gets "
        "the re-open gadget grafted; histogram key reopened_and_target_popped_first counts the cases that reach it). I vs M: status, iterations, every tree entry (vertex, parent, "
        "edge, access cost, traversal cost, state: floats bit-exact) and every route hop, skipped when the model "
        "popped among equal priorities (TIE). I vs S: verified check_route / check_tree evaluated in Coq on the "
        "implementation's output, all cases. Non-trivial = route of >= 2 edges, tree of >= 3 entries, or an error outcome; "
        "distinct by (world, query)")


RULE_APP = ("end to end through the application: a REAL CompassApp built offline from a generated TOML configuration + network "
            "files (3-40 vertices on a 1/8-degree grid, parallel edges, self loops, dead ends, disconnected parts, speed table, "
            "optional [state] section, turn-delay / heading tables, road-class frontier), CompassApp::run on one JSON query "
            "(origin_vertex/destination_vertex, origin_edge/destination_edge or coordinates matched by the vertex / edge "
            "map-matching input plugin; a* / dijkstra and weight factor from the configuration, weight_factor / weights / "
            "state_features / road_classes from the query; vertex- and edge-oriented). Families first: searchkit's boundary "
            "worlds that a configuration can express (forward, Dijkstra / default A*) with rotating route format (edge_id, json), "
            "tree format (json, edge_id, none), summary plugin and map matching; then random networks. I = status (no-path "
            "errors with the two ids the message names), route.path edge ids, tree entries (terminal_vertex when shown, edge "
            "id), route_edges / tree_size_count of the summary plugin, agreement with the same query run directly on the core "
            "API (SearchApp::build_search_instance + SearchAlgorithm::run_*; a different path of equal cost counts as agreement), "
            "map-matched ids nearest. S = verified SearchSpec.check_route / check_eroute / check_tree / check_etree "
            "(SR.check_outcome) evaluated in Coq against the network the files describe (coq/Model/E2ERun.v). No model line. "
            "Non-trivial = route of >= 2 edges, tree of >= 3 entries or an error response; distinct by (configuration, query)")


def classify(case, i, m, s):
    return None


def replay_stream(chk):
    """name of the stream a replay file belongs to (None: no replay / not recorded)"""
    if not chk.replay:
        return None
    try:
        return json.load(open(chk.replay)).get("stream")
    except Exception:  # noqa
        return None


def run_app_stream(chk, stream, rule, n_quick, n_thorough):
    """one end-to-end stream of harness/src/bin/e2e.rs: I vs S only (S = the verified checkers on the application's
    JSON output); cases outside the property's hypotheses print `unspecified` and are not compared"""
    binp = vf.build_harness("e2e")
    n = n_quick if chk.tier == "quick" else n_thorough
    r = vf.run_stream(binp, stream, n, chk.seed, os.path.join(chk.outdir, stream), replay=chk.replay)
    I, S = r.impl.get("I", {}), r.model.get("S", {})
    if "M" not in r.model:
        # no model line in this stream: the comparison below is I vs S (a missing S line is still reported)
        r.model["M"] = {cid: (I.get(cid) if s == "unspecified" else s) for cid, s in S.items()}
    r.stats.setdefault("hist", {})["spec_unspecified"] = sum(1 for v in S.values() if v == "unspecified")
    chk.add_stream(r, rule)
    vf.compare(chk, r, classify=classify, binpath=binp)


def run(chk):
    chk.coverage["trusted_base"] = [
        "Coq 8.16.1 kernel + vm_compute",
        "hand-written model coq/Model/Search.v (run_a_star loop, backtrack, run_vertex_oriented, run_edge_oriented) and "
        "its table-driven instantiation coq/Model/SearchRun.v, tied by this correspondence run",
        "priority_queue crate specified as 'pop returns an entry of minimal priority; push_increase keeps the smaller "
        "cost' (tie-breaking unspecified); std HashMap as a finite map",
        "Rust harness harness/src/searchkit.rs, harness/src/bin/c01.rs and this driver",
        "stream app_walk: harness/src/bin/e2e.rs (configuration / network writers, extraction of path and tree from the JSON "
        "response: the key vertex of a tree entry is taken as the far end of its edge, no output format shows it), "
        "coq/Model/E2ERun.v (calls the verified checkers, nothing else)"]
    chk.assumptions = [
        "costs are NaN-free: the cost order is a strict order compatible with a preorder and label + edge cost >= label "
        "(holds for Q with non-negative costs and for NaN-free binary64 with non-negative costs)",
        "origin and destination are distinct (as in the property); TerminationModel without the wall-clock variant in the model"]
    # coq/Model/E2ERun.v (stream app_walk) also imports the traversal runner of C03, which reads the generated unit / cost /
    # turn tables: regenerate them here too (a scratch checkout in VERIF_REPO mode starts without coq/Gen/*.v)
    for name, res in vf.run_translators(which=["turn", "units", "cost"]).items():
        if not res.get("ok", False):
            vf.log("translator %s: %s (owned by another check; its previous output is used)" % (name, res.get("msg")))
    chk.proofs(extra_targets=["Model/SearchRun.vo", "Model/E2ERun.vo"])
    only = replay_stream(chk)
    if only == "app_walk":
        run_app_stream(chk, "app_walk", RULE_APP, 140, 1500)
        return finish(chk)
    binp = vf.build_harness("c01")
    n = 1000 if chk.tier == "quick" else 12000
    # corpus cases (witnesses of earlier findings / of the mutations) are replayed first, in one batch
    if not chk.replay:
        cases = []
        for f in sorted(glob.glob(os.path.join(vf.ROOT, "corpus", "C01", "*.json"))):
            c = json.load(open(f))["case"]
            c["corpus"] = os.path.basename(f)[:-5]
            cases.append(c)
        if cases:
            cdir = os.path.join(chk.outdir, "corpus")
            os.makedirs(cdir, exist_ok=True)
            cf_ = os.path.join(cdir, "corpus_cases.json")
            json.dump({"cases": cases}, open(cf_, "w"))
            rc = vf.run_stream(binp, "walk", len(cases), chk.seed, os.path.join(cdir, "run"), shards=2, replay=cf_)
            skip_ties(rc)
            chk.coverage["streams"]["corpus"] = {"cases": len(cases), "rule": "corpus/C01/*.json replayed (full payloads)",
                                                 "hist": rc.stats.get("hist", {}), "distinct_nontrivial": 0}
            vf.compare(chk, rc, classify=classify, binpath=binp, stream_label="corpus")
    extra = ["long=all"] if chk.tier == "thorough" else []
    r = vf.run_stream(binp, "walk", n, chk.seed, os.path.join(chk.outdir, "walk"), extra=extra, replay=chk.replay)
    nt = skip_ties(r)
    r.stats.setdefault("hist", {})["model_TIE_skipped"] = nt
    chk.add_stream(r, RULE)
    vf.compare(chk, r, classify=classify, binpath=binp, extra=extra)
    if not chk.replay:
        run_app_stream(chk, "app_walk", RULE_APP, 140, 1500)
    finish(chk)


def finish(chk):
    if chk.broken_obligation:
        chk.violation("broken-obligation", "proofs", {"obligations": chk.broken_obligation}, "does not check", "Qed",
                      found=False, key="obligation")


def skip_ties(r):
    """the model reports TIE when its run popped among equal priorities (the crate's choice is unspecified):
    the model line is not compared for such a case, the checker line (S) still is"""
    M, I = r.model.get("M", {}), r.impl.get("I", {})
    k = 0
    nomodel = 0
    for cid, m in list(M.items()):
        if m == "TIE" and cid in I:
            M[cid] = I[cid]
            k += 1
        elif m == "NOMODEL" and cid in I:
            # Yen's k-shortest paths: Model/Search.v has no Yen driver, these cases are judged by the S line only
            M[cid] = I[cid]
            nomodel += 1
    r.stats.setdefault("hist", {})["no_model_line(S_only)"] = nomodel
    return k
