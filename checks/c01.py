"""C01: routes are contiguous origin-to-destination walks without a repeated edge; trees are rooted trees."""
import glob
import json
import os
from lib import vf

RULE = ("graph searches on the real core code (Dijkstra, A* with weight factors {default,0,1/2,1,3}, heuristic tables "
        "zero/exact/half/admissible/inadmissible, vertex- and edge-oriented, forward and reverse, frontier tables, "
        "termination limits) on boundary families (dead ends, isolated/neighbour destination, self loops, parallel "
        "edges, one-way ring, the edge-oriented u-turn/self-loop/adjacent shapes, absorption 2^60) and random digraphs "
        "(n 3..40, out-degree 0..8 with one vertex above 5, forced parallel edge / self loop / isolated vertex / "
        "unreachable part; costs k/64 or integers 1..3). I vs M: status, iterations, every tree entry (vertex, parent, "
        "edge, access cost, traversal cost, state: floats bit-exact) and every route hop, skipped when the model "
        "popped among equal priorities (TIE). I vs S: verified check_route / check_tree evaluated in Coq on the "
        "implementation's output, all cases. Non-trivial = route of >= 2 edges, tree of >= 3 entries, or an error outcome; "
        "distinct by (world, query)")


def classify(case, i, m, s):
    return None


def run(chk):
    chk.coverage["trusted_base"] = [
        "Coq 8.16.1 kernel + vm_compute",
        "hand-written model coq/Model/Search.v (run_a_star loop, backtrack, run_vertex_oriented, run_edge_oriented) and "
        "its table-driven instantiation coq/Model/SearchRun.v, tied by this correspondence run",
        "priority_queue crate specified as 'pop returns an entry of minimal priority; push_increase keeps the smaller "
        "cost' (tie-breaking unspecified); std HashMap as a finite map",
        "Rust harness harness/src/searchkit.rs, harness/src/bin/c01.rs and this driver"]
    chk.assumptions = [
        "costs are NaN-free: the cost order is a strict order compatible with a preorder and label + edge cost >= label "
        "(holds for Q with non-negative costs and for NaN-free binary64 with non-negative costs)",
        "origin and destination are distinct (as in the property); TerminationModel without the wall-clock variant in the model"]
    chk.proofs(extra_targets=["Model/SearchRun.vo"])
    binp = vf.build_harness("c01")
    n = 1000 if chk.tier == "quick" else 12000
    # corpus cases (witnesses of earlier findings / of the mutations) are replayed first, in one batch
    if not chk.replay:
        cases = []
        for f in sorted(glob.glob(os.path.join(vf.ROOT, "corpus", "C01", "*.json"))):
            c = json.load(open(f))["case"]
            c["corpus"] = os.path.basename(f)[:-5]
            cases.append(c)
        if cases:
            cdir = os.path.join(chk.outdir, "corpus")
            os.makedirs(cdir, exist_ok=True)
            cf_ = os.path.join(cdir, "corpus_cases.json")
            json.dump({"cases": cases}, open(cf_, "w"))
            rc = vf.run_stream(binp, "walk", len(cases), chk.seed, os.path.join(cdir, "run"), shards=2, replay=cf_)
            skip_ties(rc)
            chk.coverage["streams"]["corpus"] = {"cases": len(cases), "rule": "corpus/C01/*.json replayed (full payloads)",
                                                 "hist": rc.stats.get("hist", {}), "distinct_nontrivial": 0}
            vf.compare(chk, rc, classify=classify, binpath=binp, stream_label="corpus")
    r = vf.run_stream(binp, "walk", n, chk.seed, os.path.join(chk.outdir, "walk"), replay=chk.replay)
    nt = skip_ties(r)
    r.stats.setdefault("hist", {})["model_TIE_skipped"] = nt
    chk.add_stream(r, RULE)
    vf.compare(chk, r, classify=classify, binpath=binp)
    if chk.broken_obligation:
        chk.violation("broken-obligation", "proofs", {"obligations": chk.broken_obligation}, "does not check", "Qed",
                      found=False, key="obligation")


def skip_ties(r):
    """the model reports TIE when its run popped among equal priorities (the crate's choice is unspecified):
    the model line is not compared for such a case, the checker line (S) still is"""
    M, I = r.model.get("M", {}), r.impl.get("I", {})
    k = 0
    for cid, m in list(M.items()):
        if m == "TIE" and cid in I:
            M[cid] = I[cid]
            k += 1
    return k
