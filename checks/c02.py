"""C02: the returned route has least total cost under the query's own objective."""
import copy
import glob
import json
import os
from lib import vf

RULE_OPT = (
    "searches on the real core code over table-driven worlds (searchkit): boundary families (dead ends, parallel edges, "
    "self loops, one-way ring, decrease-key, the edge-oriented shapes, the D-REOPEN network without its turn "
    "restriction, an inconsistent and a factor-3 heuristic) and random digraphs (n 3..40, out-degree 0..8, forced "
    "parallel edge / self loop / isolated vertex / unreachable part, forbidden-edge tables; costs k/64 tie-free or "
    "integers 1..3 tie-rich); Dijkstra, A* with weight factors {0, 1/2, 1} from the algorithm or from the query and "
    "consistent heuristic tables (zero / exact / half of the true remaining distance, 2^30 for vertices that cannot "
    "reach the target), forward and reverse, vertex and edge orientation, destination-less Dijkstra trees. "
    "I vs M: route edge list + its cost re-computed from the raw table in Q (tree: per-vertex labels), skipped when "
    "the model popped among equal priorities (TIE). I vs S: verified certificate check in Coq on the implementation's "
    "route (permitted origin-destination walk whose table cost equals the Bellman-Ford potential of the destination, "
    "potentials checked feasible; consistency of factor x table re-checked per case); a fourth of the random cases "
    "(inconsistent / inadmissible tables, factor 3) makes no claim (S = unspecified) and only records whether A* and "
    "Dijkstra differ. Non-trivial = a claim is made and the route has >= 2 edges (tree >= 3 labels, or 'no path'); "
    "distinct by (world, query)")
RULE_REAL = (
    "the REAL DistanceTraversalModel / SpeedTraversalModel + CostModel assembled by the REAL CompassApp from a TOML "
    "configuration and by SearchApp::build_search_instance (CostModelService::build) from the query: vertices on a "
    "1/8-degree grid, edge lengths >= ceil(max(implementation haversine, independent f64 great-circle) x stretch) + 1 m "
    "(1/8 of the random networks deliberately shorter: A* makes no claim there), all distance / time / speed units for "
    "model and state features, speed tables with rows up to 200 kph / 125 mph / 56 m/s (far above the 75 mph 'soft "
    "maximum' of SpeedUnit) in every speed unit, weights {0,1/4,1/2,1,2} with positive sum, rates raw / factor / "
    "Combined chains of 2-3 factors (a quarter of the chains with an offset: no claim for A*), per-edge surcharge "
    "tables, weights / rates / aggregation overridden from the query in a third / fourth / sixth of the cases, weight "
    "factors {default, 0, 1/2, 1} from configuration or query (3 and product aggregation: no claim for A*), forward "
    "and reverse; an eighth of the random cases and a boundary family are the LAST query of a sequence of 2-4 queries "
    "run one at a time through CompassApp::run on ONE application instance, one (often the first) of them with its own "
    "weights / vehicle_rates / cost_aggregation. Boundary families: two-route network whose distance- and time-optimal "
    "routes differ with every override direction, per-edge surcharges on the first / last edge of the shorter route "
    "(forward and reverse) incl. surcharge tables on a weighted feature that has no vehicle rate (absent, Zero, or left out "
    "by the query's own vehicle_rates) and on a zero-length / 1 mm connector edge, objectives so small that every edge costs "
    "between 0 and Cost::MIN_COST (weights 1e-12..1e-14 on metre-scale edges, hours x 1e-6: three 1.2 m hops against one "
    "longer edge), a network that straddles the 180th meridian (best route through a vertex on the "
    "other side; a tenth of the random networks straddle it too), a 'highway' network on which an estimate at the mean table speed is inadmissible, the same "
    "with table rows above the soft maximum in each speed unit (the estimate must use the table's own maximum), Combined "
    "chains whose last (or first) mapping alone would flip the route, Dijkstra on a non-metric network, and a chain of "
    "20-60 short edges against one direct edge 0.05-0.5 % longer for EVERY (model distance unit, state feature unit) "
    "pair and speed-model unit mixes with miles on either side (a fifth of the random cases too). "
    "I vs M (bit-exact floats): cost of every edge traversed alone, weighted estimate of every vertex, the cost of the "
    "route's last edge traversed from the states after 0, 10 and all hops of Dijkstra's route, and max_speed of the REAL "
    "SpeedTraversalEngine built from the same table (ties the objective model incl. get_max_speed, unit conversions, "
    "Combined rates, service override logic, accumulation). J vs S, all judged in Coq over the per-edge costs of the "
    "OBJECTIVE MODEL (the objective in force by the specification: query's weights/rates/aggregation when present, else "
    "the configured ones), tolerance 1e-9 relative: the routes of Dijkstra and of the configured A* pass the verified "
    "certificate check; the three position-dependent costs of one edge agree (edge-locality measured); the "
    "implementation's weighted estimate of every vertex is at most the remaining cost to the target (admissibility "
    "measured, when A* is inside the hypothesis); the engine's max_speed equals the maximum of its table; every response "
    "of a sequence (path, cost, cost-model echo) equals the response of the same query run alone on a fresh application "
    "instance; implementation haversine within 0.5 % of the independent value on every edge and every (vertex, target) "
    "pair; whether A* is inside the hypothesis is decided from the INDEPENDENT great-circle distance alone. "
    "Non-trivial = A* inside the hypothesis and a route of >= 2 edges; distinct by case")


def classify(case, i, m, s):
    return None


def skip_ties(r):
    M, I = r.model.get("M", {}), r.impl.get("I", {})
    k = 0
    for cid, m in list(M.items()):
        if m == "TIE" and cid in I:
            M[cid] = I[cid]
            k += 1
    return k


def views(r):
    """the `real` stream carries two pairs of lines: (I, M) = correspondence of the objective model,
    (J, S) = the property; vf.compare looks at one impl tag, so it is given one view per pair"""
    a = copy.copy(r)
    a.model = {"M": r.model.get("M", {})}
    b = copy.copy(r)
    b.impl = {"I": r.impl.get("J", {})}
    # the model line of the second view is the claim itself (nothing to correspond to)
    b.model = {"M": dict(r.impl.get("J", {})), "S": r.model.get("S", {})}
    return a, b


def expand_view(chk, binp, b, limit=4):
    """(J, S) payloads of failing cases that were hashed (> 160 bytes) are re-run in full, so that the replay file
    shows the verdict text (vf.compare's own re-expansion would fetch the I line of the case)"""
    I, S = b.impl.get("I", {}), b.model.get("S", {})
    k = 0
    for cid, case in b.cases.items():
        i, sp = I.get(cid), S.get(cid)
        if i is None or sp is None or i == sp or not (i.startswith("#") or sp.startswith("#")):
            continue
        if k >= limit:
            break
        k += 1
        try:
            fi, fm = vf.expand_case(binp, "real", case, os.path.join(chk.outdir, "expand_real"))
            if fi.get("J") is not None and fm.get("S") is not None:
                I[cid], S[cid] = fi["J"], fm["S"]
                b.model["M"][cid] = fi["J"]
        except Exception as e:  # noqa
            vf.log("expand failed", e)


def corpus(chk, binp, stream):
    cases = []
    for f in sorted(glob.glob(os.path.join(vf.ROOT, "corpus", "C02", stream + "_*.json"))):
        c = json.load(open(f))["case"]
        c["corpus"] = os.path.basename(f)[:-5]
        cases.append(c)
    if not cases:
        return None
    cdir = os.path.join(chk.outdir, "corpus_" + stream)
    os.makedirs(cdir, exist_ok=True)
    cf_ = os.path.join(cdir, "corpus_cases.json")
    json.dump({"cases": cases}, open(cf_, "w"))
    rc = vf.run_stream(binp, stream, len(cases), chk.seed, os.path.join(cdir, "run"), shards=2, replay=cf_)
    chk.coverage["streams"]["corpus_" + stream] = {"cases": len(cases), "rule": "corpus/C02/%s_*.json replayed" % stream,
                                                  "hist": rc.stats.get("hist", {}), "distinct_nontrivial": 0}
    return rc


def run(chk):
    chk.coverage["trusted_base"] = [
        "Coq 8.16.1 kernel + vm_compute",
        "hand-written models coq/Model/Search.v (search loop, C01), coq/Model/Objective.v (distance / speed-table "
        "traversal and estimate, get_max_speed, estimate_traversal_cost x weight factor), coq/Model/Cost.v (C07), "
        "coq/Model/Units.v + generated tables (C09), tied by the correspondence streams of this run",
        "priority_queue crate specified as 'pop returns some entry of minimal priority; push_increase keeps the smaller "
        "cost' (the theorems hold for every tie-breaking); std HashMap as a finite map",
        "great-circle distance (f32 haversine) is an oracle: its values come from the implementation, bounded per case "
        "by an independent double-precision computation; pseudo-metric properties are hypotheses of estimate_consistent",
        "Rust harness harness/src/bin/c02.rs, harness/src/searchkit.rs and this driver"]
    chk.assumptions = [
        "exact arithmetic (Q) for the A* half and for the concrete objective; the Dijkstra half needs only a NaN-free "
        "ordered cost type with monotone addition (floats in which the per-edge cost is the same on every path)",
        "the objective is edge-local: no access model, no per-turn surcharge, no turn-restricting frontier; "
        "vehicle rates raw / factor >= 0 / combined thereof (no offset); per-edge surcharges >= 0; sum aggregation",
        "A*: weight factor in [0,1]; the great-circle oracle is a pseudo-metric, edge lengths >= oracle distance of "
        "their end points, table speeds in (0, max_speed]",
        "origin and destination distinct; termination limits not reached (a terminated search returns an error)"]
    # the generated tables the objective model reads (units: C09, cost constants: C07) are regenerated from the
    # source on every run; needed in VERIF_REPO mode as well.  They are owned by those checks: a translator that no
    # longer parses is only logged here (its previous output is used).
    tres = vf.run_translators(which=["units", "cost"])
    chk.coverage["translator"] = {k: {x: r.get(x) for x in ("ok", "msg", "digest")} for k, r in tres.items()}
    for name, r in tres.items():
        if not r.get("ok", False):
            vf.log("translator %s: %s (owned by another check; its previous output is used)" % (name, r.get("msg")))
    if any(not r.get("ok", False) for r in tres.values()):
        # "previous output": in VERIF_REPO mode the generated tables are not mirrored, so a table whose translator no longer
        # parses the changed source is taken from the baseline tree - the objective model then still stands for the
        # UNCHANGED semantics and the streams below can turn the change into a concrete failing input
        import shutil
        base = os.path.join(vf.ROOT, "coq", "Gen")
        dst = os.path.join(vf.COQ, "Gen")
        os.makedirs(dst, exist_ok=True)
        for f in sorted(os.listdir(base)):
            if f.endswith(".v") and not os.path.exists(os.path.join(dst, f)):
                shutil.copy(os.path.join(base, f), os.path.join(dst, f))
                vf.log("generated table %s taken from the baseline tree" % f)
    chk.proofs(extra_targets=["Model/ObjectiveRun.vo", "Proofs/OptimalCheck.vo"])
    binp = vf.build_harness("c02")
    quick = chk.tier == "quick"
    streams = [("opt", 420 if quick else 15000), ("real", 310 if quick else 6000)]
    if chk.replay:
        # a replay file names its stream in the case description
        try:
            fam = json.load(open(chk.replay)).get("stream") or json.load(open(chk.replay)).get("case", {}).get("stream")
        except Exception:  # noqa
            fam = None
        if fam and fam.startswith("corpus_"):
            fam = fam[len("corpus_"):]
        if fam in ("opt", "real"):
            streams = [(s, n) for (s, n) in streams if s == fam]
        else:
            case = json.load(open(chk.replay)).get("case", {})
            streams = [("real", 1)] if "coords" in case else [("opt", 1)]
    for stream, n in streams:
        if not chk.replay:
            rc = corpus(chk, binp, stream)
            if rc is not None:
                if stream == "opt":
                    skip_ties(rc)
                    vf.compare(chk, rc, classify=classify, binpath=binp, stream_label="corpus_opt")
                else:
                    a, b = views(rc)
                    vf.compare(chk, a, classify=classify, binpath=binp, stream_label="corpus_real")
                    expand_view(chk, binp, b)
                    vf.compare(chk, b, classify=classify, stream_label="corpus_real")
        r = vf.run_stream(binp, stream, n, chk.seed, os.path.join(chk.outdir, stream), replay=chk.replay)
        if stream == "opt":
            nt = skip_ties(r)
            r.stats.setdefault("hist", {})["model_TIE_skipped"] = nt
            chk.add_stream(r, RULE_OPT)
            vf.compare(chk, r, classify=classify, binpath=binp)
        else:
            chk.add_stream(r, RULE_REAL)
            a, b = views(r)
            vf.compare(chk, a, classify=classify, binpath=binp)
            # (J, S) payloads are short; no re-expansion (it would fetch the I line of the case)
            expand_view(chk, binp, b)
            vf.compare(chk, b, classify=classify)
    if chk.broken_obligation:
        chk.violation("broken-obligation", "proofs", {"obligations": chk.broken_obligation}, "does not check", "Qed",
                      found=False, key="obligation")
