"""C03: along every returned route the reported state and costs are the true sums over its edges.

What a run does:
  1. regenerate coq/Gen/TurnTable.v (Turn::from_angle arms, wrap of bearing_to_destination) from the Rust sources
     (translator/tr_turn.py, fails closed), and the unit / cost tables the model imports;
  2. build Props/C03.vo (the theorems are re-checked against the regenerated tables) and the runner;
  3. stream `walk`: real StateModel / traversal / access / cost models built through the real builders and
     SearchApp::build_search_instance; arbitrary edge sequences walked with EdgeTraversal::forward_traversal /
     reverse_traversal / reorient_reverse_route; route summary through the real TraversalPlugin;
       I vs M: bit for bit against the model in binary64 (correspondence),
       I vs S: the property judged in exact rationals on the implementation's floats (the failing case is the input);
  4. stream `search`: routes returned by real Dijkstra / A* / single-via KSP searches on the same kind of instance, judged
     by the same M and S."""
import json
import os

from lib import vf

RULE_WALK = (
    "real SearchInstance (StateModel from JSON, DistanceTraversalBuilder / SpeedLookupBuilder with a speed-table file, "
    "TurnDelayAccessModelBuilder with a heading CSV + turn-delay table, CostModelService, SearchApp::build_search_instance with the "
    "query's state_features); boundary families first: speed model x every model unit combination (5x4x3) with rotating "
    "(thorough: every) feature unit combination, distance model 5x5 units, the unit-drift witness, every turn-class boundary x 7 "
    "base headings incl. wrap-arounds in every delay unit, 25 failure modes (missing table rows/headings/features, zero length or "
    "speed, i16 overflow, unbuildable configurations), declared initial states (configured / reset by the speed model / from the "
    "query), small via routes; then random graphs (2-12 vertices, 1-40 edges) with connected edge walks of 1-30 edges: forward "
    "(60%), reverse (20%), forward+reverse+reorient_reverse_route (20%); random units, headings, delay tables and units, feature "
    "order and extra features, weights / vehicle rates (raw, factor, offset, zero) / network rates (edge, edge-pair) / sum|mul; "
    "turn-delay tables give every class (no_turn too) its own non-zero delay, half of the heading tables are drawn from a pool "
    "around one direction (consecutive edges exactly collinear, +-1 degree, or on a class boundary); vehicle rates include Combined "
    "chains (offset before factor, factor before offset, nested, empty); "
    "every EdgeTraversal{access_cost, traversal_cost, total_cost(), result_state} and route.traversal_summary compared as exact "
    "float bits. non-trivial = every route of the case exists, some route has >= 2 edges, and a model unit differs from the "
    "feature unit (distance, time or delay) or a non-zero turn delay is charged; distinct by case")
RULE_SEARCH = (
    "the same random configurations plus a deterministic two-alternative diamond; the route(s) come from a real SearchAlgorithm "
    "(Dijkstra, A*, KspSingleVia k=2/4 over Dijkstra, k=3 over A*): run_vertex_oriented between the end vertices of a random walk "
    "(60%) or run_edge_oriented between its first and last edge (40%, neither equal nor adjacent: every route is framed by the "
    "zero-cost origin and destination edges); ALL routes of the result are rendered by ONE call of the real TraversalPlugin; "
    "EVERY returned route is re-traversed by the model on its own edges (M, incl. the zero-cost end edges and its own "
    "traversal_summary) and judged by the property (S) from the declared initial state: end edges zero cost / unchanged state "
    "of THIS route, summary = last state of THIS route. non-trivial as above")


RULE_APP = (
    "end to end through the application: a REAL CompassApp built offline from a generated TOML configuration + network files "
    "([traversal] distance model or speed table with its speed / distance / time units, [state] section, [access] turn delays "
    "with a heading CSV and a delay table in any time unit, [cost] weights and raw / factor vehicle rates, a* (weight factor "
    "<= 1) or dijkstra), CompassApp::run on one vertex-oriented JSON query (ids or coordinates through the vertex map-matching "
    "plugin; optional state_features / weights / weight_factor of the query) with the traversal output plugin in `json` "
    "route format. Families first: a zig-zag network under every distance unit, feature unit != model unit with a non-zero "
    "initial value, 18 speed/distance/time unit combinations, every delay unit, query overrides, factor rates, an extra "
    "configured feature, single edge, parallel edges, map-matched, unreachable; then random networks (3-40 vertices on a "
    "1/8-degree grid, edge length >= 1.02 x great-circle distance so that the A* estimate is consistent: no re-opening). "
    "I = every record of route.path (edge_id, access_cost, traversal_cost, result_state), EdgeTraversal::total_cost of each, "
    "route.traversal_summary and route.cost as exact float bits. M = Model/Traversal.v in binary64 re-walks the returned path "
    "from the declared initial state (bit for bit, summary and cost from ITS last state). S = the exact-rational judge "
    "TR.judge on the application's numbers (state = closed-form sums, costs = rated weighted increments, summary = state "
    "after the last edge) + route.cost = vehicle rate of the summary values and their sum in feature order. A query without "
    "a route: an error is expected exactly when a plain search cannot reach the destination. One case in three uses "
    "[algorithm] ksp_single_via with k in 2..4 (responses whose `route` is an ARRAY), one in four an edge-oriented query "
    "(origin_edge / destination_edge, ids or through the edge map-matching plugin): there EVERY route of the response is re-walked "
    "(M) and judged (S) on ITS OWN path -- records, total_cost, the zero-cost origin / destination edges with the unchanged state "
    "of that route, traversal_summary = that route's last state, cost = its rated summary. Turn-delay tables give every class "
    "(no_turn too, 4 times in 5) its own non-zero delay; headings come from the geometry (collinear edges share a heading) or from a "
    "pool around one direction (differences of exactly 0, +-1, 19/20, 44/45, 134/135, 159/160, 179/180). Vehicle rates include "
    "Combined chains written as [\"combined\", rate, ..] in the configuration or the query (offset before factor, factor before "
    "offset, nested). One random case in four is a SEQUENCE of 2-4 queries answered one after another by ONE application "
    "instance, the first overriding weights / vehicle_rates / cost_aggregation: every answer (records, totals, summary, cost and "
    "the route.cost_model echo) is judged under the rates in force for ITS OWN query, computed from the configuration and that "
    "query. Non-trivial = judged route of "
    ">= 2 edges with a unit conversion or a charged turn delay, or a response with >= 2 routes, or an edge-oriented query")


def classify(case, i, m, s):
    return None


def load_translator_module():
    import sys
    sys.path.insert(0, os.path.join(vf.ROOT, "translator"))
    import tr_turn  # noqa
    return tr_turn


def run_table(chk, binp):
    """`c03 table`: Turn::from_angle and bearing_to_destination of the compiled code over the whole i16 range"""
    out = os.path.join(chk.outdir, "table")
    os.makedirs(out, exist_ok=True)
    rc, log = vf.sh([binp, "table", "--out", out], timeout=300)
    if rc != 0:
        return None, log[-800:]
    try:
        return json.load(open(os.path.join(out, "table.json"))), None
    except Exception as e:  # noqa
        return None, repr(e)


def coq_turn_failures(chk):
    """`TR.line_turn_failures` over the regenerated table -> (count, [(h1, h2)...] one pair per heading difference)"""
    d = os.path.join(chk.outdir, "turnfail")
    os.makedirs(d, exist_ok=True)
    p = os.path.join(d, "turnfail.v")
    open(p, "w").write("From Coq Require Import ZArith List String Floats.\n"
                       "From RC Require Import Base.Show Model.TraversalRun.\nImport ListNotations.\nOpen Scope Z_scope.\n"
                       "Set Printing Width 1000000.\nSet Printing Depth 1000000.\n"
                       "Eval vm_compute in (TR.line_turn_failures 0).\n")
    lines, err = vf.coq_eval_file(p)
    for ln in lines:
        if ln.startswith("T 0 "):
            n, body = ln[4:].split(" ", 1)
            pairs = [tuple(int(x) for x in e.split(">")) for e in body.strip("[]").split(",") if e]
            return int(n), pairs, None
    return 0, [], (err or "no T line")[-600:]


def fbits(x):
    import struct
    return "0x%016x" % struct.unpack("<Q", struct.pack("<d", x))[0]


TURNS = ["NoTurn", "SlightRight", "SlightLeft", "Right", "Left", "SharpRight", "SharpLeft", "UTurn"]


def turn_case(h1, h2):
    """a two-edge route whose only turn goes from heading h1 into heading h2; every turn class has its own delay"""
    feat = lambda kind, unit: [kind, unit, fbits(0.0)]  # noqa
    return {"nv": 3, "edges": [[0, 1, fbits(300.0), 300.0], [1, 2, fbits(301.0), 301.0]],
            "features": [["distance", feat("distance", "Meters")], ["time", feat("time", "Seconds")]], "user": [],
            "tm": {"kind": "distance", "du": "Meters"},
            "am": {"kind": "turn", "headings": [[h1, None], [h2, None]],
                   "table": [[t, fbits(2.0 * (i + 0.5)), 2.0 * (i + 0.5)] for i, t in enumerate(TURNS)],
                   "unit": "Seconds", "fname": "time"},
            "cost": {"weights": [["distance", fbits(1.0), 1.0], ["time", fbits(1.0), 1.0]],
                     "vrates": [["distance", "raw"], ["time", "raw"]], "nrates": [], "mul": False},
            "op": {"kind": "forward", "es": [0, 1]}, "summary": True}


def replay_turn_failures(chk, binp, pairs):
    done = []
    for n, (h1, h2) in enumerate(pairs[:8]):
        d = os.path.join(chk.outdir, "turnwitness%d" % n)
        os.makedirs(d, exist_ok=True)
        rp = os.path.join(d, "case.json")
        case = {"id": 0, "family": "turn_table_failure", "headings": [h1, h2], "case": turn_case(h1, h2)}
        json.dump({"case": case, "stream": "walk"}, open(rp, "w"))
        r = vf.run_stream(binp, "walk", 1, chk.seed, os.path.join(d, "run"), shards=1, replay=rp)
        i = next(iter(r.impl.get("I", {}).values()), None)
        s = next(iter(r.model.get("S", {}).values()), None)
        done.append({"headings": [h1, h2], "impl": (i or "")[:200], "spec": (s or "")[:200]})
        if s is not None and i != s:
            chk.violation("impl-counterexample", "walk", case, i, s,
                          detail="heading pair %d -> %d (difference %d): the regenerated turn table disagrees with the specification "
                                 "(computed in Coq); replayed on the implementation as a two-edge route taking exactly that turn"
                                 % (h1, h2, ((h2 - h1 + 180) % 360) - 180), key="turn-%d" % (((h2 - h1 + 180) % 360) - 180))
    return done


def run(chk):
    chk.coverage["trusted_base"] = [
        "Coq 8.16.1 kernel + vm_compute",
        "SPECIFICATION coq/Model/TraversalSpec.v (sums of len, len/speed, turn delay; spec_turn: heading difference in [-180,180) "
        "classified by magnitude 20/45/135/160, positive = right) and the exact SI tables of coq/Model/UnitsRun.v (C09)",
        "hand-written models coq/Model/{StateOps,Traversal}.v (tied bit for bit by the streams), coq/Model/Cost.v and coq/Model/Units.v "
        "(properties C07, C09)",
        "translator/tr_turn.py (output executed against the real code on every run through the M lines)",
        "translator/tr_travmodels.py + translator/rsparse.py + translator/rsmonad.py (feature names, get_speed, traverse_edge and "
        "state_features of DistanceTraversalModel / SpeedTraversalModel compiled to coq/Gen/TraversalModels.v on every run; fails closed; "
        "coq/Props/GenTravModels.v proves Model/Traversal.v equal to them for all inputs, so a misreading shows up in the walk stream)",
        "judge coq/Model/TraversalRun.v: per-term rounding to a 2^-128 grid, bands 1e-9 (state), 1e-8 + 1e-13*sensitivity*|state| "
        "(costs), 0.5 % (exact SI factors)",
        "reading of the model in exact rationals: rounding, overflow, NaN are outside the theorems (exercised bit-exactly by the stream)",
        "Rust harness harness/src/bin/c03.rs and this driver",
        "stream app_sums: harness/src/bin/e2e.rs (configuration / network writers, extraction of the records from the JSON "
        "response; a speed_table section without distance_unit inherits `kilometers` from config.default.toml), "
        "coq/Model/E2ERun.v (calls TR.judge / TR.run, adds the route.cost comparison)"]
    chk.assumptions = [
        "a route is an edge sequence traversed edge after edge from the declared initial state (the search-tree branch invariant "
        "`chain`; property C02 proves it for Dijkstra and consistent A*, K_reopen is the known exception)",
        "the state model has a distance feature `distance` and a time feature `time`; the turn-delay model writes to `time`",
        "never-decreasing: edge lengths and table delays are >= 0 (speeds > 0 and lengths > 0 are enforced by Time::create)",
        "edge-oriented queries' zero-cost origin/destination edges and the A* re-open case are outside this check"]

    binp = vf.build_harness("c03")
    gen_dir = os.path.join(vf.COQ, "Gen")
    tr = load_translator_module()

    # ---- tie 1: regenerate coq/Gen/TurnTable.v.  Route 1: the source text (translator/tr_turn.py).  Route 2: the
    #      behaviour of the compiled code, tabulated exhaustively over i16 by `c03 table`.  Route 2 replaces route 1
    #      when the text is not of a shape the translator reads (a re-formatting is then no alarm); when both exist they
    #      must describe the same functions.  Only when neither works the run fails closed.
    tres = vf.run_translators(which=["turn", "units", "cost"])
    t = tres.get("turn", {"ok": False, "msg": "translator tr_turn.py missing"})
    parsed = t.pop("parsed", None)
    chk.coverage["translator"] = {k: t.get(k) for k in ("ok", "msg", "digest", "changed")}
    beh, beh_err = run_table(chk, binp)
    chk.coverage["table_source"] = "source-text"
    if not t.get("ok"):
        bres, why = None, beh_err
        if beh is not None:
            try:
                bres = tr.generate_from_behaviour(beh, gen_dir)
            except Exception as e:  # noqa  TranslateError or malformed table.json
                why = "%s: %s" % (type(e).__name__, e)
        if bres is not None:
            chk.coverage["table_source"] = "behaviour"
            chk.coverage["translator"]["fallback"] = {"reason": t.get("msg"), "msg": bres["msg"]}
            vf.log("translator: %s -> table rebuilt from behaviour (%s)" % (t.get("msg"), bres["msg"]))
        else:
            chk.violation("broken-correspondence", "translator",
                          {"translator": "tr_turn", "error": t.get("msg"), "behavioural_extraction": why},
                          "%s; behavioural extraction: %s" % (t.get("msg"), why),
                          "turn.rs / edge_heading.rs have the shape the translator knows, or the compiled functions are a range "
                          "table and a single wrap of the heading difference",
                          detail="coq/Gen/TurnTable.v could not be regenerated by either route; the previous table (if any) is used below",
                          found=False, key="translator")
    elif not chk.replay:
        if beh is None:
            bad = [{"error": beh_err}]
        else:
            bad = tr.compare_with_behaviour(parsed, beh)
        chk.coverage["behavioural_extraction"] = {"agrees_with_source_text": not bad, "disagree": bad[:4]}
        if bad:
            chk.violation("broken-correspondence", "table", {"disagree": bad[:4]},
                          "the compiled Turn::from_angle / bearing_to_destination differ from the table read from the source text",
                          "both routes give the same table", detail="translator bug or a source construct it mis-reads",
                          found=False, key="behaviour-table")
    for name in ("units", "cost"):
        r = tres.get(name, {})
        if not r.get("ok", False):
            vf.log("translator %s: %s (owned by another check; its previous output is used)" % (name, r.get("msg")))

    # Gen/TraversalModels.v: traverse_edge / state_features of the distance and the speed traversal model and get_speed are regenerated
    # from the Rust source (state features with the constructors of Gen/StateFeature.v, property C11's translator);
    # Props/GenTravModels.v proves Model/Traversal.v equal to them for all inputs
    mres = vf.run_translators(which=["travmodels", "statefeature"])
    tm = mres.get("travmodels", {"ok": False, "msg": "translator module tr_travmodels.py missing"})
    chk.coverage["translator"]["travmodels"] = {k: tm.get(k) for k in ("ok", "msg", "digest", "files", "changed")}
    if not tm.get("ok"):
        chk.violation("broken-correspondence", "translator", {"translator": "tr_travmodels", "error": tm.get("msg")}, tm.get("msg"),
                      "model/traversal/default/{distance_traversal_model,speed_traversal_model,speed_traversal_engine}.rs and "
                      "model/unit/{time,distance,internal_float}.rs have the shape the translator knows (fail closed)",
                      detail="coq/Gen/TraversalModels.v could not be regenerated; the previous definitions (if any) are used below",
                      found=False, key="translator-travmodels")
    if not mres.get("statefeature", {}).get("ok", False):
        vf.log("translator statefeature: %s (owned by C11; its previous output is used)" % mres.get("statefeature", {}).get("msg"))

    # Props/Links.v: the composition theorems (C01/C02/C05/C10/C13 -> C03) are re-checked with this property
    chk.proofs(extra_targets=["Model/TraversalRun.vo", "Model/E2ERun.vo"], extra_props=["Props/Links.v", "Props/GenTravModels.v"])
    quick = chk.tier == "quick"

    # ---- heading pairs on which the regenerated table disagrees with the specification, computed inside Coq
    nfail, pairs, ferr = coq_turn_failures(chk)
    chk.coverage["turn_table_failures"] = {"count": nfail, "first_pair_per_heading_difference": pairs} if ferr is None else {"error": ferr}

    only = None
    if chk.replay:
        try:
            only = json.load(open(chk.replay)).get("stream")
        except Exception:  # noqa
            only = None
        if only not in ("walk", "search", "app_sums"):
            only = "walk"

    if only in (None, "walk"):
        r = vf.run_stream(binp, "walk", 560 if quick else 6000, chk.seed, os.path.join(chk.outdir, "walk"), replay=chk.replay)
        chk.add_stream(r, RULE_WALK)
        vf.compare(chk, r, classify=classify, binpath=binp)
    if only in (None, "search"):
        r = vf.run_stream(binp, "search", 120 if quick else 1500, chk.seed, os.path.join(chk.outdir, "search"), replay=chk.replay)
        chk.add_stream(r, RULE_SEARCH)
        vf.compare(chk, r, classify=classify, binpath=binp)
    if only in (None, "app_sums"):
        # end to end: the same judge and model on what CompassApp::run returns (harness/src/bin/e2e.rs)
        binp_app = vf.build_harness("e2e")
        r = vf.run_stream(binp_app, "app_sums", 220 if quick else 1500, chk.seed, os.path.join(chk.outdir, "app_sums"), replay=chk.replay)
        chk.add_stream(r, RULE_APP)
        vf.compare(chk, r, classify=classify, binpath=binp_app)

    # ---- every failing table entry is replayed on the implementation (a two-edge route taking exactly that turn)
    if pairs and not chk.replay:
        chk.coverage["turn_table_failures_replayed"] = replay_turn_failures(chk, binp, pairs)

    if chk.broken_obligation:
        # Gen/TurnTable.v is regenerated from the code, so a changed arm lands here.  The search for the failing input was:
        # the streams + the replay of every failing table entry.
        found = [v for v in chk.violations if v["found_failing_input"]]
        if found and pairs:
            for v in found:
                v["detail"] += " | proof obligations that no longer check: " + "; ".join(str(x) for x in chk.broken_obligation)[:1500]
        else:
            chk.violation("broken-obligation", "proofs", {"obligations": chk.broken_obligation,
                                                          "turn_table_failures": chk.coverage.get("turn_table_failures")},
                          "does not check", "Qed", found=False, key="obligation")
