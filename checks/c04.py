"""C04: no returned route or search-tree entry uses an edge or turn the query is forbidden to use."""
import glob
import json
import os
from lib import vf

RULE_FRONTIER = (
    "REAL frontier models built through CompassAppBuilder's frontier builders (road_class, vehicle_restriction, "
    "turn_restriction, combined, no_restriction; tables written to files: class file, restriction CSV in mixed units, "
    "turn CSV) and the services' build(query), optionally under EdgeCutFrontierModel; valid_frontier on every "
    "(previous edge, edge). Deterministic families first: every unit pair x every restriction kind with limits at the "
    "vehicle's converted value and at value*(1+-2^-20), same-unit limits exactly at / one float below / one float above the vehicle's "
    "value (S decides exactly there: at the limit is admitted), the two tables read by header name (restricted-turn CSV, vehicle "
    "restriction CSV) written with permuted column order and unrelated columns before / between / after (layout = function of "
    "the table content), road-class ids over the full u8 range with ids that differ by multiples of 64, ill-typed/missing vehicle parameters and axle counts, restriction "
    "rows the builder must refuse, road-class queries (numeric, names, mixed, empty, out of range, ill-typed; with and "
    "without mapping), short class table, turn pairs, combined models of 0-4 inner models (early false, error order, "
    "nesting), edge cuts, SEQUENCES of 2-6 queries on ONE service instance (same numbers in other units, van/truck in both orders, changing class "
    "sets; each query's verdict table judged for that query alone; also one random case in five); then random configurations. I vs M bit-exact; S = admissibility from the raw tables over exact "
    "rationals (undecided within 1e-9 of a limit). non-trivial = the model admits some and refuses some probed edge, or "
    "the build is refused; distinct by (configuration, query, cut)")
RULE_SEARCH = (
    "searches of the real core code (Dijkstra, A* with weight factors {default,0,1/2,1,3} and zero/exact/half/admissible/"
    "inadmissible heuristic tables, vertex- and edge-oriented, forward and reverse, one case in twelve under KspSingleVia; "
    "Yens k=2..3 over Dijkstra / A* on the seeded/C04-6 network (an edge first validated after an allowed turn and reached "
    "later after the restricted one; turn model alone and inside combined) and on random ladder networks with a turn "
    "model, checker only, runs that panic or never return are counted and skipped) "
    "on searchkit worlds (boundary shapes, random digraphs n 3..40) whose FrontierModel is the REAL one (road class / "
    "vehicle restriction / turn restriction / combined, built from files and query JSON, sometimes under "
    "EdgeCutFrontierModel; about a quarter of the edges refused, restricted turns among adjacent pairs). I vs M: status, "
    "iterations, trees, routes of Model/Search.v run with the Model/Frontier.v frontier (skipped on TIE and for KSP); "
    "I vs S: raw-table checker in Coq on the implementation's trees and routes - no inadmissible edge, no restricted "
    "pair in travel order. The four known-finding witnesses of corpus/C04 run first. non-trivial = the frontier refuses "
    "some edge or has turn pairs and the search returns >= 3 tree entries, a route of >= 2 edges, or no path; "
    "distinct by (world, query, configuration)")

RULE_APP = (
    "end to end through the application: a REAL CompassApp built offline from a generated TOML configuration whose [frontier] "
    "section is road_class (class file; road_class_parser mapping), vehicle_restriction (restriction CSV in mixed units), "
    "turn_restriction (CSV) or `combined` of them, every table written to a file by the harness; CompassApp::run on one JSON "
    "query (origin_vertex/destination_vertex, `road_classes` as numbers or as mapped names, `vehicle_parameters`), dijkstra "
    "or a* with the default weight factor over a consistent great-circle estimate (such a search never re-opens a vertex), "
    "vertex-oriented plus a small edge-oriented family, route.path as edge ids / json, tree output. Families first on a "
    "4-vertex network whose short way is forbidden by class (numbers / names / mixed / empty / absent / unknown name / out "
    "of range / no mapping), by vehicle restriction (too high, too heavy per axle; a small vehicle passes; parameters or a "
    "field missing), by a restricted turn, by combinations; every unit pair of vehicle quantity x restriction row with the "
    "limit 1 % above / below; edge-oriented queries whose own edges are forbidden; then random networks (3-40 vertices) with "
    "about a quarter of the edges refused and restricted turns among adjacent pairs. I = status, route.path, tree entries, "
    "agreement with the same query on the core API. S = FrontierRun.check_outcome in Coq: the raw-table judge "
    "(Model/FrontierSpec.v, exact rationals) on the response - no route or tree edge inadmissible by the FILES, no restricted "
    "consecutive pair in a route. M = the class of the response by the builder/service model Frontier.build (a query the "
    "services accept is answered, one they refuse gets an error). Non-trivial = the frontier refuses some edge or has turn "
    "pairs and the response has a tree of >= 3 entries, a route of >= 2 edges or no path, or the query is refused")

# REJECT reason of the S line -> known-finding class
CLASSES = [
    ("REJECT(reverse-turn", "K_reverse_turn"),
    ("REJECT(ksp-turn", "K_ksp_turn"),
    ("REJECT(yens-junction-turn", "K_ksp_turn"),
    ("REJECT(query-edge", "K_query_edges"),
    ("REJECT(query-turn", "K_query_edges"),
]


def classify(case, i, m, s):
    """class predicates: the checker (Coq, raw tables) names the clause that fails and whether only the query's own
    edges are involved; K_reopen additionally needs the MODEL's run of the case to re-open a vertex"""
    if not s or not s.startswith("REJECT("):
        return None
    if not case.get("ksp") and m is not None and m != i and m != "TIE":
        return None      # the model disagrees with the implementation: not a known class, report it
    if s.startswith("REJECT(turn;reopen=T"):
        q = case.get("query", {})
        if q.get("dir") == "forward" and not case.get("ksp"):
            return "K_reopen"
        return None
    for prefix, fid in CLASSES:
        if s.startswith(prefix):
            if fid == "K_reverse_turn" and case.get("query", {}).get("dir") != "reverse":
                return None
            if fid == "K_ksp_turn" and not case.get("ksp"):
                return None
            if prefix.startswith("REJECT(yens") != bool(case.get("yens")):
                return None
            if fid == "K_query_edges" and case.get("query", {}).get("orient") != "edge":
                return None
            return fid
    return None


def skip_ties(r):
    """the model prints TIE when its run popped among equal priorities (the priority_queue crate's choice is
    unspecified): the model line of such a case is not compared, the checker line (S) still is"""
    M, I = r.model.setdefault("M", {}), r.impl.get("I", {})
    k = 0
    for cid, m in list(M.items()):
        if m == "TIE" and cid in I:
            M[cid] = I[cid]
            k += 1
    # KSP cases have no model line
    for cid, c in r.cases.items():
        if c.get("ksp") and cid not in M and cid in I:
            M[cid] = I[cid]
    return k


def run(chk):
    chk.coverage["trusted_base"] = [
        "Coq 8.16.1 kernel + vm_compute",
        "hand-written models coq/Model/Frontier.v and coq/Model/Search.v (+ the table-driven instantiation "
        "coq/Model/SearchRun.v of the C01 work item), tied by this correspondence run",
        "unit conversion tables coq/Gen/UnitTables.v regenerated from the Rust sources (property C09)",
        "translator/tr_frontier.py + translator/rsparse.py + translator/rsmonad.py (VehicleRestriction, VehicleParameters, "
        "VehicleRestriction::valid and valid_frontier of the default / road class / turn restriction / vehicle restriction / combined / "
        "edge cut models compiled to coq/Gen/FrontierModels.v on every run; fails closed; coq/Props/GenFrontier.v proves "
        "Model/Frontier.v equal to them for all inputs, so a misreading shows up in the frontier stream)",
        "serde_json / csv decoding of well-formed files is as the model's decoders say (exercised, not proved)",
        "priority_queue crate: pop returns an entry of minimal priority (ties unspecified, such cases are compared by "
        "the checker only)",
        "Rust harness harness/src/bin/c04.rs, harness/src/searchkit.rs and this driver",
        "stream app_frontier: harness/src/bin/e2e.rs (configuration / network / frontier table writers, extraction of path and "
        "tree from the JSON response: the key vertex of a tree entry is taken as the far end of its edge), coq/Model/E2ERun.v "
        "(calls FrontierRun.check_outcome and Frontier.build, nothing else); the application's a* is assumed not to re-open a "
        "vertex (consistent estimate, factor <= 1: C02), so a restricted pair in a route is reported, never classified K_reopen"]
    chk.assumptions = [
        "restriction limits and vehicle quantities are finite numbers (JSON and the CSV round trip cannot carry NaN or infinities)",
        "a restricted turn (a, b) is a pair driven a then b (travel order); routes of a reverse search are read backwards",
        "the restricted-turn clause is proved for runs that never re-open a vertex (no_reopen), forward direction, "
        "vertex-oriented queries; outside: known findings K_reopen, K_reverse_turn, K_query_edges, K_ksp_turn",
        "KspSingleVia and Yens are exercised on the implementation only (no model of the KSP drivers here: property C13); a "
        "Yens run that panics or does not return within 1.2 s is that algorithm's own known defect (C13/C12): counted, skipped; "
        "in a Yens route a restricted pair is exempt (K_ksp_turn) only where a root path (prefix of an earlier returned route) "
        "meets its spur path - the spur search starts with no previous edge"]
    # the unit conversion table the frontier model reads is regenerated from the Rust sources on every run (C09 checks it)
    tres = vf.run_translators(which=["units"]).get("units", {"ok": False, "msg": "translator module tr_units.py missing"})
    chk.coverage["translator"] = {k: tres.get(k) for k in ("ok", "msg", "digest")}
    if not tres.get("ok"):
        chk.violation("broken-correspondence", "translator", {"translator": "tr_units", "error": tres.get("msg")}, tres.get("msg"),
                      "model/unit/*_unit.rs have the shape the translator knows (fail closed)", found=False, key="translator")
    # coq/Model/E2ERun.v (stream app_frontier) also imports the traversal runner of C03, which reads the generated cost /
    # turn tables: regenerate them too (a scratch checkout in VERIF_REPO mode starts without coq/Gen/*.v)
    for name, res in vf.run_translators(which=["turn", "cost"]).items():
        if not res.get("ok", False):
            vf.log("translator %s: %s (owned by another check; its previous output is used)" % (name, res.get("msg")))
    # Gen/FrontierModels.v: VehicleRestriction / VehicleParameters, VehicleRestriction::valid and valid_frontier of every concrete
    # model are regenerated from the Rust source; Props/GenFrontier.v proves Model/Frontier.v equal to them for all inputs
    fres = vf.run_translators(which=["frontier"]).get("frontier", {"ok": False, "msg": "translator module tr_frontier.py missing"})
    chk.coverage["translator"]["frontier"] = {k: fres.get(k) for k in ("ok", "msg", "digest", "files", "changed")}
    if not fres.get("ok"):
        chk.violation("broken-correspondence", "translator", {"translator": "tr_frontier", "error": fres.get("msg")}, fres.get("msg"),
                      "app/compass/config/frontier_model/* and the core frontier / unit files have the shape the translator knows "
                      "(fail closed)", detail="coq/Gen/FrontierModels.v could not be regenerated; the previous definitions (if any) are "
                      "used below", found=False, key="translator-frontier")
    chk.proofs(extra_targets=["Model/FrontierRun.vo", "Model/E2ERun.vo"], extra_props=["Props/GenFrontier.v"])
    binp = vf.build_harness("c04")
    thorough = chk.tier != "quick"
    replay_stream = None
    if chk.replay:
        try:
            rj = json.load(open(chk.replay))
            replay_stream = "search" if "world" in rj.get("case", {}) else "frontier"
            if rj.get("stream") == "app_frontier" or rj.get("case", {}).get("stream") == "app_frontier":
                replay_stream = "app_frontier"
        except Exception:  # noqa
            replay_stream = "frontier"

    if replay_stream in (None, "frontier"):
        n = 8000 if thorough else 900
        r = vf.run_stream(binp, "frontier", n, chk.seed, os.path.join(chk.outdir, "frontier"), replay=chk.replay)
        chk.add_stream(r, RULE_FRONTIER)
        vf.compare(chk, r, classify=classify, binpath=binp)

    if replay_stream in (None, "search"):
        # the witnesses of the known findings run first, so that each KNOWN-FINDING line prints on every run
        if not chk.replay:
            for f in sorted(glob.glob(os.path.join(vf.ROOT, "corpus", "C04", "*.json"))):
                name = os.path.basename(f)[:-5]
                cstream = "frontier" if json.load(open(f)).get("stream") == "frontier" else "search"
                rc = vf.run_stream(binp, cstream, 1, chk.seed, os.path.join(chk.outdir, "corpus_" + name), shards=1, replay=f)
                rc.name = cstream
                if cstream == "search":
                    skip_ties(rc)
                chk.coverage["streams"].setdefault("corpus", {"cases": 0, "rule": "corpus/C04/*.json replayed"})["cases"] += 1
                vf.compare(chk, rc, classify=classify, binpath=binp, stream_label="corpus:" + name)
        n = 6000 if thorough else 450
        r = vf.run_stream(binp, "search", n, chk.seed, os.path.join(chk.outdir, "search"), replay=chk.replay)
        nt = skip_ties(r)
        r.stats.setdefault("hist", {})["model_TIE_skipped"] = nt
        chk.add_stream(r, RULE_SEARCH)
        vf.compare(chk, r, classify=classify, binpath=binp)

    if replay_stream in (None, "app_frontier"):
        # end to end: the same raw-table judge on what CompassApp::run returns (harness/src/bin/e2e.rs)
        binp_app = vf.build_harness("e2e")
        r = vf.run_stream(binp_app, "app_frontier", 1300 if thorough else 260, chk.seed, os.path.join(chk.outdir, "app_frontier"),
                          replay=chk.replay)
        chk.add_stream(r, RULE_APP)
        vf.compare(chk, r, classify=classify, binpath=binp_app)

    # one KNOWN-FINDING line per class: the first case met (the corpus witness) and the number of further cases
    per, order = {}, []
    for line in chk.known:
        fid = line.split(" ")[2].rstrip(":")
        if fid not in per:
            per[fid] = [line, 0]
            order.append(fid)
        else:
            per[fid][1] += 1
    chk.known = [per[f][0] + (" (+%d more cases of this class in this run)" % per[f][1] if per[f][1] else "") for f in order]
    chk.coverage["known_finding_cases"] = {f: per[f][1] + 1 for f in order}

    if chk.broken_obligation:
        chk.violation("broken-obligation", "proofs", {"obligations": chk.broken_obligation}, "does not check", "Qed",
                      found=False, key="obligation")
