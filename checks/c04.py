"""C04: no returned route or search-tree entry uses an edge or turn the query is forbidden to use."""
import os
from lib import vf

RULE_FRONTIER = (
    "REAL frontier models built through CompassAppBuilder's frontier builders (road_class, vehicle_restriction, "
    "turn_restriction, combined, no_restriction; tables written to files: class file, restriction CSV in mixed units, "
    "turn CSV) and the services' build(query), optionally under EdgeCutFrontierModel; valid_frontier on every "
    "(previous edge, edge). Deterministic families first: every unit pair x every restriction kind with limits at the "
    "vehicle's converted value and at value*(1+-2^-20), ill-typed/missing vehicle parameters and axle counts, restriction "
    "rows the builder must refuse, road-class queries (numeric, names, mixed, empty, out of range, ill-typed; with and "
    "without mapping), short class table, turn pairs, combined models of 0-4 inner models (early false, error order, "
    "nesting), edge cuts; then random configurations. I vs M bit-exact; S = admissibility from the raw tables over exact "
    "rationals (undecided within 1e-9 of a limit). non-trivial = the model admits some and refuses some probed edge, or "
    "the build is refused; distinct by (configuration, query, cut)")


def classify(case, i, m, s):
    return None


def run(chk):
    chk.coverage["trusted_base"] = [
        "Coq 8.16.1 kernel + vm_compute",
        "hand-written models coq/Model/Frontier.v and coq/Model/Search.v (tied by this correspondence run)",
        "unit conversion tables coq/Gen/UnitTables.v regenerated from the Rust sources (property C09)",
        "serde_json / csv decoding of well-formed files is as the model's decoders say (exercised, not proved)",
        "Rust harness harness/src/bin/c04.rs and this driver"]
    chk.assumptions = [
        "restriction limits and vehicle quantities are finite numbers (JSON and the CSV round trip cannot carry NaN or infinities)",
        "turn restrictions are read in search order: the pair tested is (edge through which the expanded vertex was reached, candidate edge)"]
    chk.proofs(extra_targets=["Model/FrontierRun.vo"])
    binp = vf.build_harness("c04")
    thorough = chk.tier != "quick"
    n = 8000 if thorough else 700
    r = vf.run_stream(binp, "frontier", n, chk.seed, os.path.join(chk.outdir, "frontier"), replay=chk.replay)
    chk.add_stream(r, RULE_FRONTIER)
    vf.compare(chk, r, classify=classify, binpath=binp)
    if chk.broken_obligation:
        chk.violation("broken-obligation", "proofs", {"obligations": chk.broken_obligation}, "does not check", "Qed",
                      found=False, key="obligation")
