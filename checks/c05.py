"""C05: 'no path' is reported exactly when the destination is unreachable; a destination-less search returns
exactly the reachable set, each vertex labelled with its least cost."""
import glob
import json
import os
from lib import vf

RULE = ("graph searches on the real core code (Dijkstra, A* with weight factors {default,0,1/2,1,3} and heuristic "
        "tables zero/exact/half/admissible/random-inadmissible; vertex- and edge-oriented; forward and reverse) on "
        "worlds inside the property's hypotheses (edge-local frontier = forbid sets, edge-local positive costs, no "
        "failing model, no limit): deterministic families first (forbidden bridge / parallel twin / first hop / last "
        "hop, everything forbidden, two components, one-way streets, chains, relabelling, long hauls (edges summing to 2^20..1e9 cost units, then a zero-cost / sub-MIN_COST connector as the only way onward, then more vertices and a zero-cost 2-cycle: the clamped 1e-10 is absorbed by the f64 addition), edge-oriented with a "
        "forbidden edge between or on the query edges; extreme weight factors {0, 5e-324, 1e-300, 1e300, 1e308, f64::MAX} from the algorithm config and from the query's weight_factor field with non-zero heuristic tables, so that f-scores underflow or are all +infinity, on reachable and unreachable destinations; family real_world: the network is written to CSV files and LOADED by Graph::from_files (connector edges of length 0, 1e-9, 1e-3 as the only link between two parts) and the frontier model is a REAL one built by CompassAppBuilder::build_frontier_model_service from generated files and instantiated with the query (vehicle restrictions for every pair of vehicle unit x limit unit - meters/kilometers/miles/inches/feet, pounds/tons/kg - with the limit 20 % below and 25 % above the vehicle's quantity on the only connecting edge; road-class tables with ids >= 64 whose connector class is congruent modulo 64 to a permitted class; combined), vertex-oriented forward Dijkstra/A*, where S takes as permitted edges those that C04's specification Model/FrontierSpec.v admits (exact unit factors, class membership); SEQUENCES: 2-4 searches in a row on ONE thread and one SearchInstance (the first ending in no path / unknown vertex / terminated; then destination and tree queries over the same vertices; deterministic shapes, both directions and orientations, and random three-search sequences) and 2-4 queries with DIFFERENT vehicles on ONE vehicle-restriction service (van/truck orders under a 4 m, 10 ton or combined connector): every element is its own case and is judged by S for its own query alone (sequences on one thread / one service); family cost_model: the REAL CostModel with CostAggregation::Mul (Sum as control) and a vehicle cost rate offset / factor / weight that makes the feature cost of the only connector (or of every edge) NEGATIVE before the strictly-positive floor - reachability does not depend on costs (no M line for this family: the Coq search model has no such cost model; S = reachb / reach_set / pwalkb); family hub_star: a hub with 70000 / 65537 / 65536 spokes in the search direction, tree and a sample of spoke destinations (no M line; S is a summary-fact expectation stated by the harness from the property, not Coq-evaluated: too large for the Coq runner); plus searchkit's boundary families: dead-end origin, isolated "
        "or neighbouring destination, self loops, parallel edges, one-way ring, destination edge adjacent to / "
        "reverse of / ending at the start of the origin edge), then EVERY digraph on <= 2 vertices (thorough: <= 3) "
        "with self loops, plus one with a parallel twin, x every ordered pair and every destination-less origin x both "
        "directions x both orientations (quick: algorithm rotating over the four, thorough: all four for vertex "
        "queries), then random sparse/disconnected digraphs (n 3..40, forced isolated vertex / unreachable part / "
        "parallel edge / self loop) with random forbid sets (none, 1/8, 1/3, 1/2 of the edges), one world in five with searchkit's LongHaul cost family (2^21..2^40, 0, 1e-12, 1). "
        "I vs M: status, route edge ids (destination; skipped when the model popped among equal priorities: TIE) or "
        "sorted tree vertex set and per-vertex state labels bit-exact (no destination). "
        "I vs S: the property evaluated in Coq from the exact-rational world independently of the search model: "
        "verified reachb decides Ok vs nopath, verified pwalkb judges the route (non-empty permitted walk origin -> "
        "destination; edge-oriented: origin edge :: permitted walk ++ [destination edge]), tree vertex set = reachable "
        "set, labels = Bellman-Ford least costs accepted by the verified stability check (labels only when binary64 sums of the cost table are exact: positive multiples of 1/64 up to 2^21). "
        "Non-trivial = nopath outcome, destination-less tree of >= 2 vertices, or route of >= 2 edges; distinct by "
        "(world, query)")


RULE_APP = ("end to end through the application: a REAL CompassApp built offline from a generated TOML configuration + network "
            "files, CompassApp::run on one JSON query, or (sequence_* shapes and one random case in four) on ONE application instance "
            "first the earlier queries of a sequence by separate run calls and then earlier queries + the judged one in one batch with "
            "parallelism 1 (an earlier 'no path' must not change a later answer); frontier = no_restriction or the road_class frontier with the query's "
            "road_classes list (permitted edges = edges whose class is listed; no list = everything permitted; empty list = "
            "nothing); vertex- and edge-oriented, ids or map-matched coordinates, a* / dijkstra, any traversal configuration "
            "for destination queries, the distance model in meters with whole-meter lengths for destination-less queries (so "
            "that tree labels are exact least distances). Families first: forbidden bridge / parallel twin / first hop / last "
            "hop, everything forbidden, other classes, no class list, two components, one-way street, edge-oriented with a "
            "forbidden edge between / on the query edges, then searchkit's boundary worlds a configuration can express, then "
            "random networks (3-40 vertices, forced isolated vertex / unreachable part / parallel edge / self loop). I = "
            "`error` class (nopath / other) or route.path edge ids, or the tree's vertex set and distance labels. S = RR.judge "
            "in Coq: verified reachb decides route vs no-path error (never a success without a route), verified pwalkb judges "
            "the route (permitted walk origin -> destination; between the two query edges when edge-oriented), tree vertex set "
            "= verified reachable set minus origin, labels = Bellman-Ford least distances; `unspecified` outside the property's "
            "hypotheses (unknown ids, origin = destination, input error). No model line. Non-trivial = no-path error, tree of "
            ">= 2 vertices, route of >= 2 edges")


def classify(case, i, m, s):
    return None


def replay_stream(chk):
    if not chk.replay:
        return None
    try:
        return json.load(open(chk.replay)).get("stream")
    except Exception:  # noqa
        return None


def run_app_stream(chk):
    """stream app_reach of harness/src/bin/e2e.rs: I vs S only (S = the verified reachability specification evaluated on
    the application's JSON output); `unspecified` cases are not compared"""
    binp = vf.build_harness("e2e")
    n = 150 if chk.tier == "quick" else 1500
    r = vf.run_stream(binp, "app_reach", n, chk.seed, os.path.join(chk.outdir, "app_reach"), replay=chk.replay)
    I, S = r.impl.get("I", {}), r.model.get("S", {})
    r.model["M"] = {cid: (I.get(cid) if s == "unspecified" else s) for cid, s in S.items()}
    r.stats.setdefault("hist", {})["spec_unspecified"] = sum(1 for v in S.values() if v == "unspecified")
    chk.add_stream(r, RULE_APP)
    vf.compare(chk, r, classify=classify, binpath=binp)


def fix_ties(r):
    """the model prints TIE:<status> when its run popped among equal priorities and the answer may depend on the
    crate's unspecified choice (the route of a destination query; the parents/state labels of a tree query whose cost
    table has zero or clamped costs): only the status is compared for such a case; S still judges I"""
    M, I = r.model.setdefault("M", {}), r.impl.get("I", {})
    k = 0
    # families without a model line by design (the Coq search model has no Mul aggregation / cost-rate cost model; star
    # networks of 70000 spokes are not evaluated in Coq): only I vs S is compared
    for cid, case in r.cases.items():
        if case.get("no_model_line") and cid in I and cid not in M:
            M[cid] = I[cid]
    for cid, m in list(M.items()):
        if m == "unspecified" and cid in I:
            # real_world family: the specification leaves some edge undecided (both lines say so): nothing to compare
            M[cid] = I[cid]
        if m.startswith("TIE:") and cid in I:
            k += 1
            # the I payload may be hashed (long label lists): the status is the first word of the case's impl_short
            status = (r.cases.get(cid, {}).get("impl_short") or I[cid]).split(" ")[0]
            if status == m[4:]:
                M[cid] = I[cid]
    return k


def run(chk):
    chk.coverage["trusted_base"] = [
        "Coq 8.16.1 kernel + vm_compute",
        "hand-written model coq/Model/Search.v (run_a_star loop with its three exits, backtrack, run_vertex_oriented, "
        "run_edge_oriented) and its table-driven instantiation coq/Model/SearchRun.v, tied by this correspondence run",
        "specification coq/Model/Reach.v (reachable = inductive closure over permitted edges; pwalk; wcost) and the "
        "runner coq/Model/ReachRun.v (what is compared; the class predicate `specified`)",
        "priority_queue crate specified as 'pop returns an entry of minimal priority; push_increase keeps the smaller "
        "cost'; std HashMap as a finite map",
        "real_world family: coq/Model/ReachReal.v and C04's specification coq/Model/FrontierSpec.v (which edges the "
        "restriction rows / class table / query admit)",
        "Rust harness harness/src/searchkit.rs, harness/src/bin/c05.rs and this driver",
        "stream app_reach: harness/src/bin/e2e.rs (configuration / network writers, classification of the `error` text: "
        "`no path exists between` = nopath; permitted edges computed from the road-class file and the query's list), "
        "coq/Model/E2ERun.v (calls RR.line_S, nothing else)"]
    chk.assumptions = [
        "restrictions depend only on the edge: frontier(e, state, previous edge) = Ok(ok e); traversal and estimate "
        "never fail; the origin is a vertex of the network; origin and destination distinct",
        "no assumption on costs, heuristic or weight factor for: labelled => reachable, exhaustion => every reachable "
        "vertex labelled, nopath => unreachable, Ok => non-empty permitted walk to the destination, unreachable => never Ok",
        "cost order is a total preorder and label + edge cost >= label (Q with non-negative costs; NaN-free binary64) for: "
        "tree = reachable set minus origin, backtracking succeeds, least labels (plus edge-local costs and monotone +)",
        "termination: proved for a zero estimate (Dijkstra / weight factor 0 / no destination) with fuel |vertices|+1; for "
        "A* with a non-zero estimate 'the run did not exhaust its fuel' is a premise (answer_iff_partial)",
        "edge-oriented searches: the two query edges are not submitted to the frontier model by the code; reachability is "
        "about the edges between them"]
    # coq/Model/E2ERun.v (stream app_reach) also imports the traversal runner of C03, which reads the generated unit / cost /
    # turn tables: regenerate them here too (a scratch checkout in VERIF_REPO mode starts without coq/Gen/*.v)
    for name, res in vf.run_translators(which=["turn", "units", "cost"]).items():
        if not res.get("ok", False):
            vf.log("translator %s: %s (owned by another check; its previous output is used)" % (name, res.get("msg")))
    # Props/Termination.v: termination of the re-opening loop with an explicit fuel bound (makes c05_answer_iff total)
    chk.proofs(extra_targets=["Model/ReachRun.vo", "Model/ReachReal.vo", "Model/E2ERun.vo"], extra_props=["Props/Termination.v"])
    if replay_stream(chk) == "app_reach":
        run_app_stream(chk)
        return finish(chk)
    binp = vf.build_harness("c05")
    thorough = chk.tier != "quick"
    n = 330 if not thorough else 8000
    extra = ["--thorough"] if thorough else []
    if not chk.replay:
        for f in sorted(glob.glob(os.path.join(vf.ROOT, "corpus", "C05", "*.json"))):
            name = os.path.basename(f)[:-5]
            rc = vf.run_stream(binp, "reach", 1, chk.seed, os.path.join(chk.outdir, "corpus_" + name), shards=1, replay=f)
            rc.name = "reach"
            fix_ties(rc)
            chk.coverage["streams"].setdefault("corpus", {"cases": 0, "rule": "corpus/C05/*.json replayed"})["cases"] += 1
            vf.compare(chk, rc, classify=classify, binpath=binp, stream_label="corpus:" + name)
    r = vf.run_stream(binp, "reach", n, chk.seed, os.path.join(chk.outdir, "reach"), extra=extra, replay=chk.replay)
    nt = fix_ties(r)
    r.stats.setdefault("hist", {})["model_TIE_status_only"] = nt
    S = r.model.get("S", {})
    r.stats["hist"]["spec_unspecified"] = sum(1 for v in S.values() if v == "unspecified")
    chk.add_stream(r, RULE)
    vf.compare(chk, r, classify=classify, binpath=binp, extra=extra)
    if not chk.replay:
        run_app_stream(chk)
    finish(chk)


def finish(chk):
    if chk.broken_obligation:
        chk.violation("broken-obligation", "proofs", {"obligations": chk.broken_obligation}, "does not check", "Qed",
                      found=False, key="obligation")
