"""C06: one response per query, independent of parallelism, order and schedule."""
import json
import os
from lib import vf

RULE_LB = ("the real compass_app_ops::apply_load_balancing_policy on weight vectors of 0..70 queries (absent / numeric / "
           "unreadable estimates; the four unit-test inputs, all-default and all-zero around the parallelism, signed zeros, "
           "ties, negatives, overflow to inf, random), parallelism 0..20, random default; bins compared exactly with the FN "
           "model; S = Coq checker on the implementation's bins: Err exactly when the code must fail, else p bins, every index "
           "in exactly one bin, every bin in increasing index order; non-trivial = at least two used bins of different sizes")
RULE_B = ("a real CompassApp built from TOML on a generated 5x5 grid network (+ a vertex unreachable as destination and an "
          "isolated one), input plugins grid_search [+ load_balancer custom numeric], output plugins summary + traversal, "
          "termination default or iterations<=9; batches of 0..200 queries mixing valid / tree-only / unreachable / unknown "
          "vertex / missing or ill-typed fields / non-object / grid-search (1-2 dimensions, object-valued entries, over the "
          "weight estimate, degenerate sections) / duplicates, weight estimates absent / numeric (0, negative, 1e308) / "
          "ill-typed; each case = one batch order x one configuration (configured parallelism 0,1,2,3,8,16, per-run override "
          "1..16 and > n, load balancer plugin on/off, both persistence policies, file sink (newline-delimited JSON, JSON array "
          "or CSV - optional mappings, or plain route.* columns only - with records and in-place rewriting through the real format_response; several runs on one application instance with changing per-run output policies (a missing output file is the outcome wr=<absent>); file_flush_rate unset,1,2,3,4,7,100,> batch: every record must be in the file "
          "when run returns) or none, traversal route format edge_id/wkt/json/geo_json/wkb by variant, origin == destination "
          "queries (empty route) in the mix, CompassApp::run under catch_unwind (a panic is the outcome `Panic`), rayon pool of "
          "1,2,4,16 threads), run 2-3 times (must agree); canonical response = (request, error text | route cost, "
          "traversal_summary, path) with clock/memory fields dropped; I = returned vector in order + sink content as a "
          "multiset; M = Batch.run composed from what the real apply_input_plugins / get_query_weight_estimate / "
          "run_single_query / package_error answer for each query; S = multiset of CompassApp::run on each query alone at "
          "parallelism 1, plus a request-echo oracle computed from the query text and exactly one response for a query "
          "without grid section; M composes the outcome of the REAL InputPlugin::process on every element of every stage; "
          "expansion cases (corpus witness first, then every distinct grid query alone): I = multiset of the query's "
          "responses, M = faithful model, S = every expanded query answered on its own (Batch.answer_ideal): they differ "
          "exactly in the class K_child_error_drops_siblings; non-trivial = >= 2 queries, >= 2 bins, both successful and "
          "error responses (batch cases) or >= 2 expanded queries (expansion cases); real thread schedules are explored, "
          "not proved")

RULE_C = ("probe of the prediction cache (FloatCachePolicy behind PredictionModelRecord::predict): a real CompassApp with the "
          "energy_model traversal (speed_table time model, bundled Toyota_Camry.bin, float_cache_policy key_precisions "
          "[-1,0] [0,0] [-1,2] [2,4]), 2-4 random queries answered in two orders on fresh applications and without cache; "
          "the histogram reports how often the answers depend on the order; no comparison can fail (D-CACHE, informational); "
          "non-trivial = an order-dependent probe")

RULE_E = ("the batch stream again on a CompassApp with the energy_model traversal (speed_table time model + bundled "
          "Toyota_Camry.bin smartcore model, three cost features distance/time/energy_liquid with weights 1/1/1, every object "
          "query names the vehicle, a few do not): total_cost, per-feature costs, traversal summary, path and the state_model "
          "indices compared bit for bit across repeated runs, parallelism, orders, thread pools and each query alone; first "
          "the corpus witness: one query 300 times in a row must give one distinct response (fixed 147ae1b, d268fda)")

RULE_EC = ("DECIDING cache family: the energy stream with float_cache_policy enabled in every application under test "
           "(real_world_energy_adjustment 1.166), key_precisions [0,0], [1,2] or [2,2] by plugin/termination variant, on speed "
           "and grade tables whose values lie exactly on the key grid (speeds 30/45/60/72 or 30/45.5/60/72.5 km/h read in the "
           "key's unit; grades -2..2 or -0.03..0.03 in steps of one key unit, both signs), so that under the real key function "
           "(round half away from zero) no two distinct (speed, grade) lookups share a key and many links share the same one: "
           "there the cache is transparent (c06_cache_transparent_if_stable), so the returned vector, the sink content and "
           "300 repeated runs must equal bit for bit the model composed from, and each query run alone on, an application "
           "WITHOUT cache reading the same tables; warm and cold cache states are both visited (applications are reused "
           "across cases and repetitions); off-grid / colliding inputs stay in the informational `cache` probe")

K_ID = "K_child_error_drops_siblings"


def classify(case, i, m, s):
    """K_child_error_drops_siblings: an expansion case (one query alone) whose query is in the class
    (grid_search gives >= 2 children and a later input plugin returns Err on one of them: decided by
    the harness from the real plugins' answers), where the implementation agrees with the faithful
    model and both differ from "every expanded query answered on its own"."""
    if case.get("kind") == "expansion" and case.get("in_class_K") and i is not None and i == m and i != s:
        return K_ID
    return None


def run(chk):
    chk.coverage["trusted_base"] = [
        "Coq 8.16.1 kernel + vm_compute + primitive floats (execution of the FN instance only)",
        "hand-written model coq/Model/Batch.v (tied by this correspondence run)",
        "rayon: par_chunks().map().unzip() and par_iter().map().collect() return results in input order whatever the "
        "schedule (indexed parallel iterators); Iterator::min_by_key returns the first minimum",
        "the per-query stage (SearchApp::run + output plugins) enters the model as a function of the query: true for the "
        "configurations exercised (explored on 1..16 real threads, not proved); the prediction cache is the known exception",
        "Rust harness harness/src/bin/c06.rs (canonical form, request-echo and expansion-count oracles) and this driver"]
    chk.assumptions = [
        "parallelism used for load balancing >= 1 (0 is accepted by the configuration reader and makes run return Err: "
        "theorem c06_parallelism_zero, stream family parallelism_zero)",
        "ResponseSink::write_response does not fail (I/O); a failed write of a pre-search error response or, under the "
        "persist policy, of any response makes run return Err; under the discard policy a failed write of a searched "
        "response is dropped silently (modelled, by reading; C19 covers the sink)",
        "outside the class K_child_error_drops_siblings (known finding) for 'one response per expanded query'; the "
        "multiset / order / parallelism / run-alone theorems hold inside the class too",
        "batch size < 2^52 (the chunk size is computed in f64)",
        "responses compared on request, success/error text, route cost (per feature and total), traversal summary, path, "
        "state_model (feature indices); floats bit for bit"]
    chk.proofs(extra_targets=["Model/BatchRun.vo"])
    binp = vf.build_harness("c06")
    quick = chk.tier == "quick"
    which = _stream_of(chk)
    if which in (None, "lb"):
        r = vf.run_stream(binp, "lb", 400 if quick else 6000, chk.seed, os.path.join(chk.outdir, "lb"), replay=chk.replay)
        chk.add_stream(r, RULE_LB)
        vf.compare(chk, r, classify=classify, binpath=binp)
    if which in (None, "batch"):
        extra = ["--corpus", os.path.join(vf.ROOT, "corpus", "C06")]
        r2 = vf.run_stream(binp, "batch", 700 if quick else 8000, chk.seed, os.path.join(chk.outdir, "batch"),
                           extra=extra, replay=chk.replay, timeout=6000)
        chk.add_stream(r2, RULE_B)
        vf.compare(chk, r2, classify=classify, binpath=binp, extra=extra)
    if which in (None, "energy"):
        extra = ["--corpus", os.path.join(vf.ROOT, "corpus", "C06")]
        r4 = vf.run_stream(binp, "energy", 220 if quick else 3000, chk.seed, os.path.join(chk.outdir, "energy"),
                           extra=extra, replay=chk.replay, timeout=6000)
        chk.add_stream(r4, RULE_E)
        vf.compare(chk, r4, classify=classify, binpath=binp, extra=extra)
    if which in (None, "ecache"):
        extra = ["--corpus", os.path.join(vf.ROOT, "corpus", "C06")]
        r5 = vf.run_stream(binp, "ecache", 160 if quick else 2500, chk.seed, os.path.join(chk.outdir, "ecache"),
                           extra=extra, replay=chk.replay, timeout=6000)
        chk.add_stream(r5, RULE_EC)
        vf.compare(chk, r5, classify=classify, binpath=binp, extra=extra)
    if which in (None, "cache"):
        r3 = vf.run_stream(binp, "cache", 40 if quick else 400, chk.seed, os.path.join(chk.outdir, "cache"), replay=chk.replay)
        chk.add_stream(r3, RULE_C)
        vf.compare(chk, r3, classify=classify, binpath=binp)
        h = r3.stats.get("hist", {})
        chk.coverage["prediction_cache_probe"] = {
            "what": "energy_model traversal with float_cache_policy on the bundled Toyota_Camry model: the same queries in two "
                    "orders on fresh applications, and without cache (control: without cache the order must not matter)",
            "order_dependent": h.get("cache:order_dependent", 0), "order_independent": h.get("cache:order_independent", 0),
            "differs_from_uncached": h.get("cache:differs_from_uncached", 0),
            "control_uncached_order_dependent": h.get("control:uncached_ORDER_DEPENDENT", 0),
            "not_configurable": h.get("cache:not_configurable", 0),
            "verdict": "D-CACHE (known design limitation): informational, never an alarm"}
        vf.log("C06 cache probe: %s" % json.dumps({k: v for k, v in h.items() if k.startswith(("cache:", "control:"))}))
    _one_line_per_finding(chk)
    if chk.broken_obligation:
        chk.violation("broken-obligation", "proofs", {"obligations": chk.broken_obligation}, "does not check", "Qed",
                      found=False, key="obligation")


def _one_line_per_finding(chk):
    """the class shows up in many generated cases: print the first one (the corpus witness runs first)
    and the number of further cases"""
    first, more = {}, {}
    for ln in chk.known:
        key = ln.split(":")[1].strip() if ":" in ln else ln
        fid = ln.split(" ")[2].rstrip(":") if len(ln.split(" ")) > 2 else ln
        if fid in first:
            more[fid] = more.get(fid, 0) + 1
        else:
            first[fid] = ln
    chk.known = [ln + (" (+%d more cases of the class in this run)" % more[fid] if more.get(fid) else "")
                 for fid, ln in first.items()]


def _stream_of(chk):
    if not chk.replay:
        return None
    try:
        return json.load(open(chk.replay)).get("stream")
    except Exception:
        return None
