"""C06: one response per query, independent of parallelism, order and schedule."""
import json
import os
from lib import vf

RULE_LB = ("the real compass_app_ops::apply_load_balancing_policy on weight vectors of 0..70 queries (absent / numeric / "
           "unreadable estimates; the four unit-test inputs, all-default and all-zero around the parallelism, signed zeros, "
           "ties, negatives, overflow to inf, random), parallelism 0..20, random default; bins compared exactly with the FN "
           "model; S = Coq checker on the implementation's bins: Err exactly when the code must fail, else p bins, every index "
           "in exactly one bin, every bin in increasing index order; non-trivial = at least two used bins of different sizes")
RULE_B = ("a real CompassApp built from TOML on a generated 5x5 grid network (+ a vertex unreachable as destination and an "
          "isolated one), input plugins grid_search [+ load_balancer custom numeric], output plugins summary + traversal, "
          "termination default or iterations<=9; batches of 0..200 queries mixing valid / tree-only / unreachable / unknown "
          "vertex / missing or ill-typed fields / non-object / grid-search (1-2 dimensions, object-valued entries, over the "
          "weight estimate, degenerate sections) / duplicates, weight estimates absent / numeric (0, negative, 1e308) / "
          "ill-typed; each case = one batch order x one configuration (configured parallelism 0,1,2,3,8,16, per-run override "
          "1..16 and > n, load balancer plugin on/off, both persistence policies, ndjson file sink or none, rayon pool of "
          "1,2,4,16 threads), run 2-3 times (must agree); canonical response = (request, error text | route cost, "
          "traversal_summary, path) with clock/memory fields dropped; I = returned vector in order + sink content as a "
          "multiset; M = Batch.run composed from what the real apply_input_plugins / get_query_weight_estimate / "
          "run_single_query / package_error answer for each query; S = multiset of CompassApp::run on each query alone at "
          "parallelism 1, plus request-echo and expansion-count oracles computed from the query text; non-trivial = >= 2 "
          "queries, >= 2 bins, both successful and error responses; real thread schedules are explored, not proved")

# suspected findings reported to the coordinator (input-class predicates are in the harness:
# class_nonobject_request, class_grid_partial_failure); honoured only once the coordinator has
# entered the id in known_findings.json
SUSPECTED = {
    "D-NONOBJ-REQ": "a non-object query that no input plugin rejects first is answered with request "
                    "{\"error\": \"unable to display query\"} instead of the query",
    "D-GRIDFAIL": "a grid-search query of which one child is rejected by a later input plugin is answered by ONE error "
                  "response instead of one response per expanded query",
}


def classify(case, i, m, s):
    return None


def run(chk):
    chk.coverage["trusted_base"] = [
        "Coq 8.16.1 kernel + vm_compute + primitive floats (execution of the FN instance only)",
        "hand-written model coq/Model/Batch.v (tied by this correspondence run)",
        "rayon: par_chunks().map().unzip() and par_iter().map().collect() return results in input order whatever the "
        "schedule (indexed parallel iterators); Iterator::min_by_key returns the first minimum",
        "the per-query stage (SearchApp::run + output plugins) enters the model as a function of the query: true for the "
        "configurations exercised (explored on 1..16 real threads, not proved); the prediction cache is the known exception",
        "Rust harness harness/src/bin/c06.rs (canonical form, request-echo and expansion-count oracles) and this driver"]
    chk.assumptions = [
        "parallelism used for load balancing >= 1 (0 is accepted by the configuration reader and makes run return Err: "
        "theorem c06_parallelism_zero, stream family parallelism_zero)",
        "ResponseSink::write_response does not fail (I/O); with a failing sink the persist policy returns Err for the whole "
        "batch and the discard policy drops that response silently (modelled, by reading; C19 covers the sink)",
        "batch size < 2^52 (the chunk size is computed in f64)",
        "responses compared on request, success/error text, route cost, traversal summary, path"]
    chk.proofs(extra_targets=["Model/BatchRun.vo"])
    binp = vf.build_harness("c06")
    quick = chk.tier == "quick"
    which = _stream_of(chk)
    if which in (None, "lb"):
        r = vf.run_stream(binp, "lb", 400 if quick else 6000, chk.seed, os.path.join(chk.outdir, "lb"), replay=chk.replay)
        chk.add_stream(r, RULE_LB)
        vf.compare(chk, r, classify=classify, binpath=binp)
    if which in (None, "batch"):
        r2 = vf.run_stream(binp, "batch", 640 if quick else 8000, chk.seed, os.path.join(chk.outdir, "batch"),
                           replay=chk.replay, timeout=6000)
        chk.add_stream(r2, RULE_B)
        _set_aside_unreported(chk, r2)
        vf.compare(chk, r2, classify=classify, binpath=binp)
    if chk.broken_obligation:
        chk.violation("broken-obligation", "proofs", {"obligations": chk.broken_obligation}, "does not check", "Qed",
                      found=False, key="obligation")


def _set_aside_unreported(chk, r):
    """Queries of a case that deviate from the request-echo / expansion-count oracles AND fall in an
    input class reported as a suspected finding are listed by the harness under desc["suspected"]
    (they are not in the flags compared with S; everything else about the case is compared as
    usual).  Here they become KNOWN-FINDING lines when the coordinator has entered the id in
    known_findings.json, and an evidence entry otherwise."""
    honoured = chk.finding_ids()
    seen = {}
    for cid, case in r.cases.items():
        for fid, idxs in (case.get("suspected") or {}).items():
            if idxs:
                seen.setdefault(fid, []).append((cid, idxs[0]))
    for fid, hits in seen.items():
        cid, qi = hits[0]
        q = r.cases[cid]["queries"][qi]
        what = "%s; e.g. query %s (lb plugin %s); %d cases" % (SUSPECTED.get(fid, fid), json.dumps(q), r.cases[cid]["lb"], len(hits))
        if fid in honoured:
            chk.known_finding(fid, what)
        else:
            chk.coverage.setdefault("suspected_findings_not_in_known_findings", {})[fid] = {
                "cases": len(hits), "what": what, "sample_case": r.cases[cid]}
            vf.log("C06: %d cases contain a query of suspected-finding class %s (not in known_findings.json)" % (len(hits), fid))


def _stream_of(chk):
    if not chk.replay:
        return None
    try:
        return json.load(open(chk.replay)).get("stream")
    except Exception:
        return None
