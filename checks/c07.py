"""C07: edge costs are finite and strictly positive; estimates are non-negative; under sum aggregation the charged
cost is the weighted sum of rated state changes plus weighted per-edge and per-turn surcharges (floored)."""
import json
import os

from lib import vf

RULE = (
    "cost configurations driven through the real API: CostModel::new or CostModelBuilder::build + CostModelService::build "
    "(query overrides, unknown weights), 0-8 features, weights from {0,1,-1,0.5,3} + random, vehicle rates Zero/Raw/Factor/Offset/"
    "Combined nested <= 3, network rates Zero/EdgeLookup/EdgeEdgeLookup/Combined nested <= 2 with lookup hit and miss, Sum and Mul, "
    "state changes zero / positive / negative, state vectors shorter and longer than the state model; observed: float bits of "
    "traversal_cost, cost_estimate (also via SearchInstance::estimate_traversal_cost), access_cost and edge_cost for the forward and the "
    "reverse edge pair, and (access_cost, traversal_cost, total_cost()) of EdgeTraversal::forward_traversal / reverse_traversal on a "
    "SearchInstance. 513 deterministic boundary cases first (every rate shape x state change x aggregation x weight, exact-zero and "
    "cancelling totals, totals below MIN_COST, surcharge hit/miss x weight x aggregation, 1-8 features with defaults, zero-sum weights, "
    "short vectors, Mul sign patterns, the D-TURNFEE witness, the float-absorption inputs, tiny weights / rates giving positive totals "
    "BELOW MIN_COST, which must be charged unchanged), then random (one case in ten with all weights scaled by 2^-40). I = implementation bits, M = Gallina model in binary64 "
    "(bit-exact), S = specification in exact rationals judging the implementation's output (finite, > 0 / >= 0, Err exactly when a "
    "vector is too short, value within 1e-9 x forward-error scale of the exact sum/product, access + traversal share = edge total). "
    "non-trivial = edge_cost is returned, is not the floor and is not the plain state change of a single feature; distinct by case")

RULE_SEQ = (
    "call SEQUENCES on ONE CostModel instance (2-10 calls: access_cost / traversal_cost / edge_cost with and without a pair / "
    "cost_estimate, interleaved, most of them sharing the next edge while the previous edge varies) over configurations with "
    "edge-pair network rates for several incoming edges of one junction; 58 deterministic sequences first (the C07-15 junction "
    "witness, every ordered (access of pair x; edge_cost of pair y) x weight x aggregation), then random configurations of the "
    "cost stream with a turn table added. I = float bits of every call, M = the (pure) Gallina model call by call, S = every call "
    "judged for its OWN arguments by the rational specification (= what a fresh model returns). non-trivial = an edge_cost with a "
    "pair follows an access_cost of a different pair with the same next edge; distinct by (configuration, calls)")
RULE_SVC = (
    "query SEQUENCES on ONE CostModelService built by CostModelBuilder::build from configuration JSON: 2-5 service.build(query, "
    "state_model) calls whose queries carry identical `weights` overrides (or none) but different `vehicle_rates` / "
    "`cost_aggregation` overrides, in both orders, plus queries with different weights; per query the traversal_cost and edge_cost of "
    "the model built for it. 10 deterministic sequences first (the C07-17 witness: plain / factor override / mul override in every "
    "order, with and without an explicit identical weights override; a service configured with mul), then random configurations of "
    "the cost stream. M = the model of CostModelService::build per query, S = every query judged for ITS OWN overrides by the "
    "rational specification (= the value from a fresh service). non-trivial = two queries of the sequence have the same weights "
    "override and differ in vehicle_rates or cost_aggregation; distinct by (configuration, queries)")
RULE_BUILDER = (
    "network rates built by the REAL NetworkCostRateBuilder from CSV files the harness writes (leaf builders read from configuration "
    "JSON {type: traversal_lookup|access_lookup, cost_input_file}, `combined` assembled from its members, nesting <= 3, 0-22 tables, "
    "overlapping keys in most cases, duplicate rows in one file, missing files); observed on the built rate: traversal_cost of every "
    "probed edge, access_cost of every probed pair, and CostModel::edge_cost of a one-feature model (weight w, raw rate) for every "
    "probed pair. 42 deterministic cases first (the C07-14 witness flat and nested, 2-3 traversal x 2-3 access tables sharing keys x "
    "nesting x weight, single / disjoint / empty / missing). M = Model/Cost.v nbuild + the cost model in binary64, S = each surcharge "
    "is the SUM over all configured tables (last row of a file wins inside that file), charge = floored w*d + w*(edge + turn "
    "surcharge). non-trivial = a probed edge or pair is listed by >= 2 tables; distinct by builder tree")


def classify(case, i, m, s):
    return None


def absorb_probe(chk, binp):
    """runs the three float-absorption inputs on the real code; returns (probe, still_reproduces)"""
    out = os.path.join(chk.outdir, "probe")
    os.makedirs(out, exist_ok=True)
    rc, log = vf.sh([binp, "probe", "--out", out], timeout=300)
    if rc != 0:
        return {"error": log[-800:]}, False
    p = json.load(open(os.path.join(out, "probe.json")))
    bad = [x for x in p.get("k_absorb", []) if x.get("total_cost_forward") is not None and not (x["total_cost_forward"] > 0.0)]
    return p, bool(bad)


def run(chk):
    chk.coverage["trusted_base"] = [
        "Coq 8.16.1 kernel + vm_compute",
        "SPECIFICATION coq/Model/CostSpec.v (sums/products over features, rates as affine maps, surcharges as sums of table hits, "
        "floor_pos, clip0) and the judge of coq/Model/CostRun.v (tolerance 1e-9 x the expression on absolute values)",
        "hand-written model coq/Model/Cost.v (tied bit for bit by the correspondence stream, all entry points and EdgeTraversal)",
        "translator/tr_cost.py (MIN_COST; comparison operator, compared constant and substitute of the two clamps, regenerated from the source on every "
        "run; fails closed; its output is executed in binary64 against the real functions by the stream)",
        "translator/tr_costrates.py + translator/rsparse.py (the variants of VehicleCostRate / NetworkCostRate / CostAggregation and the "
        "arms of map_value, traversal_cost, access_cost, agg, agg_iter compiled to coq/Gen/CostRates.v on every run; fails closed; "
        "coq/Props/GenCostRates.v proves Model/Cost.v equal to them for all inputs, so a misreading shows up in the bit-exact stream)",
        "reading of the model in exact rationals: rounding, overflow, NaN are outside the theorems (exercised bit-exactly by the stream)",
        "HashMap lookups read as association lists with unique keys; AccessModel / TraversalModel are arbitrary (the harness uses models "
        "that set the state vector to the case's vectors)",
        "Rust harness harness/src/bin/c07.rs and this driver"]
    chk.assumptions = [
        "theorems are about the real-number reading (Q) of the same model text that is executed in binary64 next to the code",
        "'finite' is vacuous in Q: it is checked on the implementation's output for inputs of magnitude <= ~1e6; overflow to inf is outside",
        "in binary64 `access + (total - access)` can round to 0 when the access share is >= 2^51 times the edge total; "
        "EdgeTraversal::total_cost() enforces the floor on the sum (fix 693929c), which is what keeps it > 0 there (then the floor, "
        "not the edge total, is charged); in Q the sum is exactly the edge total",
        "the floor substitutes non-positive totals only: totals in (0, MIN_COST) are charged as they are (c07_cost_ge_min_cost_refuted)"]

    # ---- tie 1: regenerate coq/Gen/CostConsts.v from the sources (before the proofs are built)
    tres = vf.run_translators(which=["cost"]).get("cost", {"ok": False, "msg": "translator module tr_cost.py missing"})
    tres.pop("parsed", None)
    chk.coverage["translator"] = {k: tres.get(k) for k in ("ok", "msg", "digest", "files", "changed")}
    chk.coverage["source_digest"] = tres.get("digest")
    if not tres.get("ok"):
        chk.violation("broken-correspondence", "translator", {"translator": "tr_cost", "error": tres.get("msg")},
                      tres.get("msg"), "model/unit/{cost,internal_float}.rs have the shape the translator knows (fail closed)",
                      detail="coq/Gen/CostConsts.v could not be regenerated; the previous constants (if any) are used below",
                      found=False, key="translator")
    # ---- tie 1b: regenerate coq/Gen/CostRates.v (rate arms, aggregation folds); Props/GenCostRates.v proves the model equal to it
    rres = vf.run_translators(which=["costrates"]).get("costrates", {"ok": False, "msg": "translator module tr_costrates.py missing"})
    chk.coverage["translator"]["costrates"] = {k: rres.get(k) for k in ("ok", "msg", "digest", "files", "changed")}
    if not rres.get("ok"):
        chk.violation("broken-correspondence", "translator", {"translator": "tr_costrates", "error": rres.get("msg")},
                      rres.get("msg"), "model/cost/{vehicle/vehicle_cost_rate,network/network_cost_rate,cost_aggregation}.rs have the "
                      "shape the translator knows (fail closed)",
                      detail="coq/Gen/CostRates.v could not be regenerated; the previous definitions (if any) are used below",
                      found=False, key="translator-costrates")

    # ---- proofs (Props/GenCostRates.v: the hand-written model agrees with the regenerated definitions, for all inputs)
    chk.proofs(extra_targets=["Model/CostRun.vo"], extra_props=["Props/GenCostRates.v"])

    binp = vf.build_harness("c07")
    quick = chk.tier == "quick"

    # ---- float absorption probe (former K_absorb, fixed in /repo by 693929c): access share >= 2^51 x edge total.
    #      recorded in the evidence; the same inputs are ordinary cases of the stream (family float_absorption)
    extra = []
    if not chk.replay:
        probe, reproduces = absorb_probe(chk, binp)
        chk.coverage["float_absorption_probe"] = {
            "total_cost_not_positive": reproduces,
            "cases": [{k: x.get(k) for k in ("input", "access_cost", "edge_cost", "traversal_cost", "total_cost_forward")}
                      for x in probe.get("k_absorb", [])],
            "serde_facts": {k: v for k, v in probe.items() if k != "k_absorb"}}

    only = None
    if chk.replay:
        try:
            only = json.load(open(chk.replay)).get("stream")
        except Exception:  # noqa
            only = None
        if only not in ("cost", "seq", "svc", "builder"):
            only = "cost"
    for stream, rule, n in (("cost", RULE, 1500 if quick else 20000),
                            ("seq", RULE_SEQ, 400 if quick else 5000),
                            ("svc", RULE_SVC, 300 if quick else 4000),
                            ("builder", RULE_BUILDER, 400 if quick else 5000)):
        if only not in (None, stream):
            continue
        r = vf.run_stream(binp, stream, n, chk.seed, os.path.join(chk.outdir, stream), extra=extra, replay=chk.replay)
        chk.add_stream(r, rule)
        vf.compare(chk, r, classify=classify, binpath=binp, extra=extra)

    if chk.broken_obligation:
        # a proof obligation no longer checks (Gen/CostConsts.v is regenerated from the source, so a changed clamp lands
        # here); the stream above was the search for a failing input on the implementation
        chk.violation("broken-obligation", "proofs", {"obligations": chk.broken_obligation}, "does not check", "Qed",
                      found=False, key="obligation")
