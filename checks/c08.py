"""C08: vehicle energy and battery state follow the powertrain model along a route."""
import glob
import json
import os

from lib import vf

RULE_ROUTE = (
    "real ICE / BEV / PHEV vehicles over PredictionModelRecord with an affine predictor (a + b*speed + c*grade, the same "
    "formula in the model), real SpeedTraversalEngine + grade table read from files, EnergyModelService::new, "
    "TraversalModelService::build(query) (update_from_query), StateModel::extend(state_features()), then "
    "TraversalModel::traverse_edge over 1-40 edges, estimate_traversal and best_case_energy; deterministic families "
    "first (every start-charge class x vehicle: absent, 0, 100, -0.0, 50, 99.999, 1e-3, 100.0000001, -1e-9, -1, 100.5, 150, strings, null, bool, array, object; regeneration into a full battery / exhaustion / PHEV switch at 1, 2, 10, 40 "
    "edges; rejected edges; the 3x5x4 unit grid of the time model; the application's state-model assembly with a [state] section (StateModel::try_from) pre-declaring battery_state / energy features with another initial value or unit and query `state_features` overrides through search_app_ops::collect_features: the later definition counts; batteries ALMOST run down: start charge = consumption of the first 1-3 edges + 5e-10 energy units, so 0 < remaining < 1e-9), then random routes in random unit configurations "
    "(time model, service, prediction model, battery, optionally re-targeted state-model units). The state vector after "
    "EVERY edge is compared BIT FOR BIT with the FN model (M), and judged by the exact-rational checker of "
    "Model/VehicleSpec.v (S: energy = rate(speed', grade') x adjustment x length within 1e-9, additivity, SOC in [0,100], "
    "SOC step = clamp(soc - 100 E / capacity), PHEV electric/liquid switch on the start-of-edge charge, start charge = "
    "query value or rejection, best case = ideal rate x distance). non-trivial = at least 2 edges, or clamping, or a "
    "negative-energy edge; distinct by the whole case")
RULE_CACHE = (
    "the same generator with a FloatCachePolicy (capacity 1..10000, key precisions 0-1 / 2-4) on every prediction model "
    "record; table speeds and grades are drawn from well separated values so that distinct inputs keep distinct rounded "
    "keys (inputs stable under the cache's rounding); family distinct-keys-arithmetic: two DISTINCT rounded keys with dkey(grade) = -m * dkey(speed) for every m in 1..64 (and dkey(speed) = +-2), and keys differing by 2^31, 2^32, 2^33, driven alternately on one cached record: distinct keys must never share an entry; the LRU cache itself is part of the FN model (bit-exact "
    "comparison, including evictions); family dcache-exhibit shows the known limitation D-CACHE on the real code "
    "(two speeds with one rounded key: the second edge is charged at the first edge's rate) and is judged only when "
    "the class K_cache_collision is registered for C08")


RULE_QUERIES = (
    "first a deterministic family: for a BEV and for a PHEV target, the boundary charges 0, 100, -0.0, 100.0000001, -1e-9, 50, 99.999, "
    "100.0, 0.0, 'abc', true, null, [50], {value: 50}, absent, -1, 101 served one after the other by one service instance; then "
    "sequences of 2-6 queries served by ONE EnergyModelService instance (library of 2-3 vehicles, affine predictors, no "
    "prediction cache): for one battery vehicle the starting_soc_percent values differ but round to the same whole percent "
    "(80.0 / 80.4, 35 / 34.6, absent or 100 / 100.3, 0 / -0.2, k+-0.45 ...), in both orders, interleaved with queries for the "
    "other vehicles; every query is followed by a 1-4 edge route, estimate_traversal and best_case_energy and is judged "
    "HISTORY-FREE: M = the FN model run from scratch for that query (bit-exact), S = the exact-rational checker (SOC starts "
    "at the query's value, out-of-range rejected, edge law). non-trivial = the sequence contains two different charges for "
    "one vehicle with the same rounded value")
RULE_BUILDERS = (
    "vehicles built from configuration JSON by the REAL EnergyModelBuilder / VehicleBuilder (build_conventional, "
    "build_battery_electric, build_plugin_hybrid, get_model_record_from_params, SpeedLookupBuilder) over the bundled "
    "Smartcore models (Camry, Bolt, Volt CS/CD); battery_capacity given in EVERY EnergyUnit (deterministic family first: "
    "bev/phev x 3 units x 2), 1-6 edges, 1-4 queries on one service. The predictor is the real random forest, so there is "
    "no M line; S judges what needs no predictor: start charge = query value / rejection, SOC in [0,100], SOC step = "
    "clamp(soc - 100 * dE / capacity) with dE the electric energy the implementation itself recorded and capacity the "
    "configured value, both in battery_capacity_unit, PHEV switch, best case = best_case_energy converted into the battery "
    "unit (judged in every unit combination). non-trivial = the charge moves by more "
    "than half a percent")


def classify(case, i, m, s):
    if case.get("collision"):
        return "K_cache_collision"
    return None


def _is(chk, stream):
    if not chk.replay:
        return True
    try:
        v = json.load(open(chk.replay))
        return v.get("stream", stream) == stream
    except Exception:  # noqa
        return True


def run(chk):
    chk.coverage["trusted_base"] = [
        "Coq 8.16.1 kernel + vm_compute + primitive floats (execution of the FN instance only)",
        "hand-written models coq/Model/Vehicle.v, coq/Model/EnergyTraversal.v (tied by the bit-exact correspondence streams of this run)",
        "specification coq/Model/VehicleSpec.v (closed forms and checker; read it: 150 lines)",
        "unit tables and builders: coq/Gen/UnitTables.v + coq/Model/Units.v (regenerated / proved / tied by property C09)",
        "translator/tr_soc.py + translator/rsparse.py (as_soc_percent, soc_from_battery_and_delta, update_soc_percent, the range / default / "
        "starting-energy expression of BEV and PHEV update_from_query compiled to coq/Gen/Soc.v on every run; fails closed; "
        "coq/Props/GenSoc.v proves Model/Vehicle.v equal to them for all arguments, so a misreading shows up in the bit-exact streams)",
        "the predictor is a function (random forest / ONNX / interpolation evaluators are outside the model); "
        "the harness plugs an affine predictor into PredictionModelRecord",
        "serde_json Value::get / as_f64 (query parsing), the lru crate (specified as an LRU map), f32 haversine (its value is an input)",
        "Rust harness harness/src/bin/c08.rs and this driver"]
    chk.assumptions = [
        "theorems are about the exact-rational reading (QN) of the model text; rounding, overflow, NaN are outside them "
        "(the correspondence is bit-exact in binary64 on every generated input)",
        "battery capacity > 0; the predictor respects equality of rationals",
        "state model = EnergyTraversalModel::state_features() of the vehicle over the speed-table time model "
        "(feature units may differ from the engine's: they are universally quantified)",
        "the model has no per-service state besides the prediction caches: every query is specified history-free, and the "
        "queries / builders streams hold one real service instance to that over sequences of queries",
        "vehicles built from configuration (energy_model_vehicle_builders.rs, energy_model_builder.rs) are exercised and judged "
        "by the checker on the implementation's own recorded energy; the builders themselves are not modelled",
        "cached predictions: covered by the correspondence stream and by the per-call theorem cache_transparent; "
        "key collisions are the known limitation D-CACHE"]
    # the unit tables the model imports are regenerated from the Rust sources on every run (owned by C09)
    tres = vf.run_translators(which=["units"]).get("units", {"ok": False, "msg": "translator module tr_units.py missing"})
    tres.pop("parsed", None)
    chk.coverage["translator_units"] = {k: tres.get(k) for k in ("ok", "msg", "digest", "changed")}
    if not tres.get("ok"):
        chk.violation("broken-correspondence", "translator", {"translator": "tr_units", "error": tres.get("msg")},
                      tres.get("msg"), "the unit sources have the shape the translator knows",
                      detail="coq/Gen/UnitTables.v could not be regenerated (see property C09)", found=False, key="translator")
    # the state-of-charge arithmetic (vehicle_ops.rs, BEV / PHEV update_from_query) is regenerated from the Rust source as
    # coq/Gen/Soc.v; coq/Props/GenSoc.v proves the hand-written Model/Vehicle.v equal to it for all arguments
    sres = vf.run_translators(which=["soc"]).get("soc", {"ok": False, "msg": "translator module tr_soc.py missing"})
    chk.coverage["translator"] = {"soc": {k: sres.get(k) for k in ("ok", "msg", "digest", "files", "changed")}}
    if not sres.get("ok"):
        chk.violation("broken-correspondence", "translator", {"translator": "tr_soc", "error": sres.get("msg")},
                      sres.get("msg"), "routee/vehicle/{vehicle_ops,default/bev,default/phev}.rs have the shape the translator knows "
                      "(fail closed)", detail="coq/Gen/Soc.v could not be regenerated; the previous definitions (if any) are used below",
                      found=False, key="translator-soc")
    chk.proofs(extra_targets=["Model/VehicleRun.vo"], extra_props=["Props/GenSoc.v"])
    binp = vf.build_harness("c08")
    quick = chk.tier == "quick"
    judge = ["--judge-collisions"] if "K_cache_collision" in chk.finding_ids() else []
    # corpus first: witnesses of the seeded mutations, boundary cases and the D-CACHE exhibit, replayed in full
    if not chk.replay:
        for stream in ("route", "cache", "queries", "builders"):
            descs = []
            for f in sorted(glob.glob(os.path.join(vf.ROOT, "corpus", "C08", "*.json"))):
                v = json.load(open(f))
                if v.get("stream") == stream:
                    descs.append(v["case"])
            if not descs:
                continue
            cdir = os.path.join(chk.outdir, "corpus_" + stream)
            os.makedirs(cdir, exist_ok=True)
            batch = os.path.join(cdir, "corpus_cases.json")
            json.dump({"cases": descs}, open(batch, "w"))
            cextra = judge if stream in ("route", "cache") else []
            rc = vf.run_stream(binp, stream, len(descs), chk.seed, os.path.join(cdir, "run"), extra=cextra, shards=4, replay=batch)
            rc.name = "corpus_" + stream
            chk.add_stream(rc, "corpus/C08/*.json of stream %s replayed with full payloads" % stream)
            vf.compare(chk, rc, model_tag=("S" if stream == "builders" else "M"), classify=classify, binpath=binp,
                       extra=cextra, stream_label="corpus_" + stream)
            if stream == "cache":
                corpus_verdicts = rc.model.get("V", {})
                chk.coverage["d_cache_exhibit_corpus"] = sorted(set(corpus_verdicts.values()))[:5]
    if _is(chk, "route"):
        r = vf.run_stream(binp, "route", 500 if quick else 12000, chk.seed, os.path.join(chk.outdir, "route"), replay=chk.replay)
        chk.add_stream(r, RULE_ROUTE)
        vf.compare(chk, r, classify=classify, binpath=binp)
    if _is(chk, "cache"):
        extra = judge
        r2 = vf.run_stream(binp, "cache", 370 if quick else 4000, chk.seed, os.path.join(chk.outdir, "cache"),
                           extra=extra, replay=chk.replay)
        chk.add_stream(r2, RULE_CACHE)
        vf.compare(chk, r2, classify=classify, binpath=binp, extra=extra)
        # the D-CACHE exhibit: what the checker says about the real code's output on colliding keys
        verdicts = r2.model.get("V", {})
        chk.coverage["d_cache_exhibit"] = {
            "cases": len(verdicts),
            "checker_rejects_implementation_output": sum(1 for v in verdicts.values() if v.startswith("REJECT")),
            "verdicts": sorted(set(verdicts.values()))[:5],
            "judged": bool(extra),
            "note": "known design limitation D-CACHE (DESIGN.md section 5): the cache returns the rate of whichever "
                    "colliding (rounded) input was cached first; the model reproduces it bit for bit"}
    if _is(chk, "queries"):
        r3 = vf.run_stream(binp, "queries", 120 if quick else 2500, chk.seed, os.path.join(chk.outdir, "queries"), replay=chk.replay)
        chk.add_stream(r3, RULE_QUERIES)
        vf.compare(chk, r3, classify=classify, binpath=binp)
    if _is(chk, "builders"):
        r4 = vf.run_stream(binp, "builders", 80 if quick else 1200, chk.seed, os.path.join(chk.outdir, "builders"),
                           replay=chk.replay)
        chk.add_stream(r4, RULE_BUILDERS)
        # no M line in this stream: the implementation's output is compared with the checker's echo only
        vf.compare(chk, r4, model_tag="S", classify=classify, binpath=binp)
    if chk.broken_obligation:
        chk.violation("broken-obligation", "proofs", {"obligations": chk.broken_obligation}, "does not check", "Qed",
                      found=False, key="obligation")
