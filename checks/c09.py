"""C09: unit conversions are linear, invertible and physically correct; derived quantities agree with
their definitions; non-positive speed or distance is rejected."""
import json
import os
import struct
import sys

from lib import vf

RULE_CONVERT = (
    "every ordered pair of units of the six families (77) x N values, and every unit triple of Time::create (60), "
    "Speed::create (60) and Energy::create (25) x N input pairs, N=200 quick / 1000 thorough, in chunks of 50 per case: "
    "44 boundary values first (0, -0, +-1, 1e+-12, 1e+-300, subnormals, MAX, inf, nan, ...), then random (log-uniform "
    "1e-12..1e12 both signs, arbitrary bit patterns, small integers); the real functions are compared BIT FOR BIT with "
    "the model evaluated in binary64 on the regenerated table; plus Display names, base and associated units. "
    "non-trivial = the arm is not the identity (from != to) and the value is finite and non-zero; for the "
    "constructors: result Ok, finite, non-zero; distinct by (units, input bits)")
RULE_SPEC = (
    "every ordered pair (77) and every constructor triple (145) x K single inputs (first input 1.0; K=5 quick / 40 thorough, "
    "moderate magnitudes, both signs, including non-positive speed/distance): the OUTPUT OF THE IMPLEMENTATION is judged in Coq "
    "by the specification in exact rational arithmetic (identity exact, odd and 2-homogeneous exactly, round trip within 0.1 %, "
    "physical SI factor within 0.1 %, constructors within 0.31 % of distance/speed, distance/time, rate*distance, Err for "
    "non-positive speed or distance); non-trivial = from != to, or any constructor case")


def classify(case, i, m, s):
    return None


def load_translator_module():
    sys.path.insert(0, os.path.join(vf.ROOT, "translator"))
    import tr_units  # noqa
    return tr_units


def f64(bits_hex):
    return struct.unpack("<d", struct.pack("<Q", int(bits_hex, 16)))[0]


def behaviour_vs_table(chk, binp, parsed, tr):
    """second route (DESIGN 1.1): factors extracted from the COMPILED code must be the ones the translator
    read from the source text.  For every ordered pair the harness reports convert(u, v, x) for six probes;
    the generated entry (Id / Mul k / Div k) must reproduce all of them bit for bit in binary64
    (python floats are binary64, float(Fraction) is correctly rounded like rustc's literal parsing)."""
    out = os.path.join(chk.outdir, "table")
    os.makedirs(out, exist_ok=True)
    rc, log = vf.sh([binp, "table", "--out", out], timeout=300)
    info = {"pairs": 0, "agree": 0, "disagree": []}
    if rc != 0:
        info["error"] = log[-800:]
        return info
    beh = json.load(open(os.path.join(out, "table.json")))
    for fam, t in beh.items():
        if parsed is None:
            continue
        if t["variants"] != parsed["variants"][fam]:
            info["disagree"].append({"family": fam, "harness_variants": t["variants"], "source_variants": parsed["variants"][fam]})
        table = {k: c for (k, c, _ln) in parsed["tables"][fam]}
        for row in t["rows"]:
            info["pairs"] += 1
            c = table.get((row["from"], row["to"]))
            ok = c is not None
            if ok:
                from fractions import Fraction
                k = None if c[0] == "Id" else float(Fraction(c[1]) * Fraction(10) ** c[2])
                for xb, yb in row["obs"]:
                    x = f64(xb)
                    y = x if c[0] == "Id" else (x * k if c[0] == "Mul" else x / k)
                    if tr.f64_bits(y) != int(yb, 16):
                        ok = False
            if ok:
                info["agree"] += 1
            else:
                info["disagree"].append({"family": fam, "from": row["from"], "to": row["to"], "table_entry": list(c) if c else None,
                                         "observed_convert_1.0": f64(row["obs"][0][1])})
    return info


def run(chk):
    chk.coverage["trusted_base"] = [
        "Coq 8.16.1 kernel + vm_compute",
        "SPECIFICATION tables in coq/Props/C09.v: exact SI factors (1 mi = 1609.344 m, 1 ft = 0.3048 m, 1 in = 0.0254 m, "
        "1 lb = 0.45359237 kg, 1 short ton = 907.18474 kg, h/min/s/ms, percent/decimal/per-mille, km/h, mph) and the meaning "
        "of the five energy-rate units; the energy family has no physical table (fuel equivalences are conventions)",
        "translator/tr_units.py (output not trusted: the generated table is executed in binary64 against the real functions on "
        "every run and cross-checked against factors extracted from the compiled code)",
        "hand-written model coq/Model/Units.v (builders; tied by the correspondence stream)",
        "reading of the model in exact rationals: rounding, overflow, NaN are outside the theorems (exercised bit-exactly by the stream)",
        "Rust harness harness/src/bin/c09.rs and this driver"]
    chk.assumptions = [
        "theorems are about the real-number reading (Q) of the same model text that is executed in binary64 next to the code",
        "'physically correct' is judged against the explicit SI table of Props/C09.v; energy (gallons gasoline/diesel <-> kWh) has only linearity, identity and round trip",
        "accumulated tolerance of a constructor = three factors each within 0.1 % (0.31 %)"]

    # ---- tie 1: regenerate coq/Gen/UnitTables.v from the sources (before the proofs are built)
    tr = load_translator_module()
    tres = vf.run_translators(which=["units"]).get("units", {"ok": False, "msg": "translator module tr_units.py missing"})
    parsed = tres.pop("parsed", None)
    chk.coverage["translator"] = {k: tres.get(k) for k in ("ok", "msg", "digest", "files", "changed")}
    chk.coverage["source_digest"] = tres.get("digest") or tr.digest(vf.REPO)[0]
    if not tres.get("ok"):
        chk.violation("broken-correspondence", "translator", {"translator": "tr_units", "error": tres.get("msg")},
                      tres.get("msg"), "the unit sources have the shape the translator knows (fail closed)",
                      detail="coq/Gen/UnitTables.v could not be regenerated; the previous table (if any) is used below",
                      found=False, key="translator")

    # ---- proofs
    chk.proofs(extra_targets=["Model/UnitsRun.vo"])

    binp = vf.build_harness("c09")
    quick = chk.tier == "quick"
    only = None
    if chk.replay:
        try:
            only = json.load(open(chk.replay)).get("stream")
        except Exception:  # noqa
            only = None
        if only not in ("convert", "spec"):
            only = "spec"

    # ---- tie 2: behavioural extraction vs the translated table
    if not chk.replay:
        info = behaviour_vs_table(chk, binp, parsed, tr)
        chk.coverage["behavioural_extraction"] = {k: (v if k != "disagree" else v[:10]) for k, v in info.items()}
        if info.get("error") or info["disagree"] or (parsed is not None and info["agree"] != info["pairs"]):
            chk.violation("broken-correspondence", "table", {"disagree": info["disagree"][:10], "error": info.get("error")},
                          "factors observed on the compiled code differ from the table read from the source text",
                          "both routes give the same table", detail="translator bug or a source construct it mis-reads",
                          found=False, key="behaviour-table")

    # ---- the property on the implementation's output (S) -- finds the failing pair with x = 1.0 first
    if only in (None, "spec"):
        r = vf.run_stream(binp, "spec", 5 if quick else 40, chk.seed, os.path.join(chk.outdir, "spec"), replay=chk.replay)
        fix_counts(chk, r, RULE_SPEC)
        # there is no M line in this stream: compare only I against S
        vf.compare(chk, r, model_tag="S", classify=classify, binpath=binp)

    # ---- correspondence: real code vs model in binary64 (M)
    if only in (None, "convert"):
        r = vf.run_stream(binp, "convert", 200 if quick else 1000, chk.seed, os.path.join(chk.outdir, "convert"), replay=chk.replay)
        fix_counts(chk, r, RULE_CONVERT)
        vf.compare(chk, r, classify=classify, binpath=binp)

    if chk.broken_obligation:
        # a proof obligation no longer checks (Gen/UnitTables.v is regenerated from the source, so a changed
        # factor lands here); the spec stream above was the search for the failing pair on the implementation
        chk.violation("broken-obligation", "proofs", {"obligations": chk.broken_obligation}, "does not check", "Qed",
                      found=False, key="obligation")


def fix_counts(chk, r, rule):
    """one case of these streams carries a chunk of evaluations: report evaluations, not chunks"""
    chk.add_stream(r, rule)
    ev = r.stats.get("hist", {}).get("evaluations", 0)
    cases = r.stats.get("cases", 0)
    if ev > cases:
        chk.coverage["evaluations"] += ev - cases
        chk.coverage["streams"][r.name]["evaluations"] = ev
