"""C09: unit conversions are linear, invertible and physically correct; derived quantities agree with
their definitions; non-positive speed or distance is rejected.

What a run does (DESIGN.md 1.1, 1.2, 1.4):
  1. build the harness against the checkout under test;
  2. regenerate coq/Gen/UnitTables.v from the Rust unit files (text translator).  If the source no longer has a
     shape the translator parses, rebuild the table from the BEHAVIOUR of the compiled code (`c09 table`); only
     if that is impossible too (an arm that is not multiplication/division by one constant) the run fails
     closed: broken correspondence, no-failing-input-found.  When both routes exist they must agree;
  3. build Props/C09.vo: the theorems are re-checked against the regenerated table;
  4. list, inside Coq, the table entries that fail a finite fact of C09 (`UnitsRun.table_failures`);
  5. stream `spec`: the property judged in Coq (exact rationals) on the IMPLEMENTATION's output for every ordered
     pair / unit triple -- a failing case is the concrete failing input; every table failure of step 4 that the
     stream did not already witness is replayed on the implementation through the harness (x = 1.0);
  6. stream `convert`: real code vs the model in binary64, bit for bit; cases whose bits differ are re-judged in
     Coq against the exact value of the model (1e-9 relative band, stream `approx`);
  7. verdict."""
import json
import os
import re
import struct
import sys

from lib import vf

RULE_CONVERT = (
    "every ordered pair of units of the six families (77) x N values, and every unit triple of Time::create (60), "
    "Speed::create (60) and Energy::create (25) x N input pairs, N=200 quick / 1000 thorough, in chunks of 50 per case: "
    "44 boundary values first (0, -0, +-1, 1e+-12, 1e+-300, subnormals, MAX, inf, nan, ...), then random (log-uniform "
    "1e-12..1e12 both signs, arbitrary bit patterns, small integers); the real functions are compared BIT FOR BIT with "
    "the model evaluated in binary64 on the regenerated table (a case whose bits differ is re-judged against the exact "
    "rational value of the model, 1e-9 relative; 0 such cases on the unchanged tree); plus Display names, base and "
    "associated units. non-trivial = the arm is not the identity (from != to) and the value is finite and non-zero; for the "
    "constructors: result Ok, finite, non-zero; distinct by (units, input bits)")
RULE_SPEC = (
    "every ordered pair (77) x K single inputs (first input 1.0; K=5 quick / 40 thorough, moderate magnitudes, both signs); every "
    "constructor triple (145) x [(1,1), (30,1000), ALL 16 sign combinations {+,0,-0,-}x{+,0,-0,-} of the two operands for Time::create "
    "and Speed::create (8 sign probes for Energy::create), then K-1 random positive pairs]: the OUTPUT OF THE IMPLEMENTATION is judged in Coq "
    "by the specification in exact rational arithmetic (identity exact, odd and 2-homogeneous exactly, round trip within 0.1 %, "
    "physical SI factor within 0.1 %, constructors within 0.31 % of distance/speed, distance/time, rate*distance, Err whenever "
    "speed <= 0 or distance <= 0 (Time::create) or time <= 0 (Speed::create), whatever the sign of the other operand); non-trivial = from != to, or any constructor case")

ONE_BITS = "0x3ff0000000000000"


def classify(case, i, m, s):
    return None


def load_translator_module():
    sys.path.insert(0, os.path.join(vf.ROOT, "translator"))
    import tr_units  # noqa
    return tr_units


def f64(bits_hex):
    return struct.unpack("<d", struct.pack("<Q", int(bits_hex, 16)))[0]


# --------------------------------------------------------------------------- the two routes to Gen/UnitTables.v

def run_table(chk, binp):
    """`c09 table`: what the compiled code does on 206 fixed probes per ordered pair (+ variants, associated, bases)"""
    out = os.path.join(chk.outdir, "table")
    os.makedirs(out, exist_ok=True)
    rc, log = vf.sh([binp, "table", "--out", out], timeout=300)
    if rc != 0:
        return None, log[-800:]
    return json.load(open(os.path.join(out, "table.json"))), None


def behaviour_vs_table(beh, parsed, tr):
    """both routes exist: the entry read from the source text (Id / Mul k / Div k) must reproduce every probe
    observed on the compiled code bit for bit (python floats are binary64, float(Fraction) is correctly rounded
    like rustc's literal parsing); variants, associated units and base units must be the same"""
    from fractions import Fraction
    info = {"pairs": 0, "agree": 0, "disagree": []}
    for fam, t in beh.items():
        if fam.startswith("_"):
            continue
        if t["variants"] != parsed["variants"][fam]:
            info["disagree"].append({"family": fam, "harness_variants": t["variants"], "source_variants": parsed["variants"][fam]})
        table = {k: c for (k, c, _ln) in parsed["tables"].get(fam, [])}
        for row in t["rows"]:
            info["pairs"] += 1
            c = table.get((row["from"], row["to"]))
            ok = c is not None
            if ok:
                k = None if c[0] == "Id" else float(Fraction(c[1]) * Fraction(10) ** c[2])
                for xb, yb in row["obs"]:
                    x = f64(xb)
                    y = x if c[0] == "Id" else (x * k if c[0] == "Mul" else x / k)
                    if tr.f64_bits(y) != int(yb, 16):
                        ok = False
            if ok:
                info["agree"] += 1
            else:
                info["disagree"].append({"family": fam, "from": row["from"], "to": row["to"], "table_entry": list(c) if c else None,
                                         "observed_convert_1.0": f64(row["obs"][0][1])})
    for name, pairs in beh.get("_associated", {}).items():
        if [tuple(p) for p in pairs] != [tuple(p) for p in parsed["associated"][name]]:
            info["disagree"].append({"associated": name, "compiled": pairs, "source": parsed["associated"][name]})
    for name, b in beh.get("_bases", {}).items():
        if b != parsed["bases"][name]:
            info["disagree"].append({"base": name, "compiled": b, "source": parsed["bases"][name]})
    return info


# --------------------------------------------------------------------------- failing table entries, computed in Coq

def coq_table_failures(chk):
    """`UnitsRun.table_failures` over the regenerated table -> list of [fact, family-or-constructor, units...]"""
    d = os.path.join(chk.outdir, "tablefail")
    os.makedirs(d, exist_ok=True)
    p = os.path.join(d, "tablefail.v")
    open(p, "w").write("From Coq Require Import ZArith List String Floats.\n"
                       "From RC Require Import Base.Show Base.Num Base.Res Model.Units Model.UnitsRun.\nImport ListNotations.\n"
                       "Open Scope Z_scope.\nSet Printing Width 1000000.\nSet Printing Depth 1000000.\n"
                       "Eval vm_compute in (UnitsRun.line_table_failures 0).\n")
    lines, err = vf.coq_eval_file(p)
    for ln in lines:
        if ln.startswith("T 0 ["):
            body = ln[len("T 0 ["):].rstrip("]")
            return [x.split(" ") for x in body.split(",") if x], None
    return None, (err or "no T line")[-600:]


def failure_to_case(f):
    """a failing table entry -> (dedupe key, case description the `spec` stream replays at the witness value 1.0)"""
    if f[0] in ("identity", "roundtrip", "physical", "positive"):
        fam, u, v = f[1], f[2], f[3]
        return "spec-%s-%s-%s" % (fam, u, v), {"family": "convert", "unit_family": fam, "from": u, "to": v, "x": 1.0, "x_bits": ONE_BITS}
    if f[0] in ("create_time", "create_speed"):
        return "spec-%s-%s" % (f[0], "-".join(f[1:4])), {"family": f[0], "units": f[1:4], "inputs": [1.0, 1.0],
                                                        "inputs_bits": [ONE_BITS, ONE_BITS]}
    if f[0] == "create_energy":
        return "spec-%s-%s" % (f[0], "-".join(f[1:3])), {"family": f[0], "units": [f[1], f[2], ""], "inputs": [1.0, 1.0],
                                                        "inputs_bits": [ONE_BITS, ONE_BITS]}
    return None, None


def spec_key(case):
    if case.get("family") == "convert":
        return "spec-%s-%s-%s" % (case.get("unit_family"), case.get("from"), case.get("to"))
    units = [u for u in case.get("units", []) if u]
    return "spec-%s-%s" % (case.get("family"), "-".join(units))


def compare_spec(chk, r):
    """I ("ok") vs S (the specification's verdict on the implementation's output).  One violation per ordered pair
    / unit triple (the first input of the stream is 1.0, the canonical witness).  Returns the keys witnessed."""
    seen = set()
    I, S = r.impl.get("I", {}), r.model.get("S", {})
    for e in r.errors:
        chk.violation("broken-correspondence", "spec", {"file": e["file"]}, e["error"][-800:], "specification evaluates",
                      detail="harness or coqc failed on this stream", found=False, key="err-spec")
    for cid, case in r.cases.items():
        i, s = I.get(cid), S.get(cid)
        if s is None:
            if not r.errors:
                chk.violation("broken-correspondence", "spec", case, i, "<no S line>", found=False, key="err-spec")
            continue
        if i == s:
            continue
        key = spec_key(case)
        # a constructor can fail in two ways on different inputs (wrong value / accepts a non-positive input)
        if case.get("family") != "convert":
            key += "-" + re.sub(r"[^A-Za-z0-9_=-]", "_", s.split(" ")[-1][:40])
        seen.add(spec_key(case))
        chk.violation("impl-counterexample", "spec", case, "implementation returned %s" % json.dumps(case.get("impl")), s,
                      detail="the specification of C09, evaluated in Coq in exact rational arithmetic on the implementation's "
                             "output for this input, rejects it (expected verdict: ok)", key=key)
    return seen


def replay_table_failures(chk, binp, fails, seen):
    """DESIGN 1.4 step 5(d): entries of the regenerated table that fail a finite fact, computed in Coq, replayed on
    the implementation at x = 1.0 through the harness; the S line decides."""
    done, n = [], 0
    for f in fails:
        key, case = failure_to_case(f)
        if key is None or key in seen or n >= 8:
            continue
        seen.add(key)
        n += 1
        d = os.path.join(chk.outdir, "witness%d" % n)
        os.makedirs(d, exist_ok=True)
        rp = os.path.join(d, "case.json")
        json.dump({"case": case, "stream": "spec"}, open(rp, "w"))
        r = vf.run_stream(binp, "spec", 1, chk.seed, os.path.join(d, "run"), shards=1, replay=rp)
        i = next(iter(r.impl.get("I", {}).values()), None)
        s = next(iter(r.model.get("S", {}).values()), None)
        c = next(iter(r.cases.values()), case)
        done.append({"entry": " ".join(f), "impl": c.get("impl"), "spec": s})
        if s is not None and i != s:
            chk.violation("impl-counterexample", "spec", c, "implementation returned %s" % json.dumps(c.get("impl")), s,
                          detail="table entry `%s` fails in the regenerated Gen/UnitTables.v (computed in Coq); replayed on the "
                                 "implementation at the witness value 1.0" % " ".join(f), key=key)
    return done


# --------------------------------------------------------------------------- correspondence with tolerance fallback

def compare_convert(chk, r, binp):
    """I vs M bit for bit.  Cases whose bits differ are re-judged in Coq against the exact value of the model
    (stream `approx`): inside the 1e-9 band = corresponding (counted), outside = broken correspondence."""
    I, M = r.impl.get("I", {}), r.model.get("M", {})
    for e in r.errors:
        chk.violation("broken-correspondence", "convert", {"file": e["file"]}, e["error"][-800:], "model evaluates",
                      detail="harness or coqc failed on this stream", found=False, key="err-convert")
    differ = []
    for cid, case in r.cases.items():
        i, m = I.get(cid), M.get(cid)
        if m is None and r.errors:
            continue
        if i != m:
            differ.append(case)
    info = {"bit_exact_cases": len(r.cases) - len(differ), "cases_needing_band": 0, "outside_band": 0}
    if not differ:
        return info
    d = os.path.join(chk.outdir, "approx")
    os.makedirs(d, exist_ok=True)
    rp = os.path.join(d, "cases.json")
    json.dump({"cases": differ}, open(rp, "w"))
    ra = vf.run_stream(binp, "approx", len(differ), chk.seed, os.path.join(d, "run"), replay=rp)
    A = ra.model.get("A", {})
    bad = []
    for cid, case in ra.cases.items():
        if (A.get(cid) or "").startswith("ok"):
            info["cases_needing_band"] += 1
            if "=" in A[cid]:
                info["elements_judged_by_class_only"] = info.get("elements_judged_by_class_only", 0) + int(A[cid].rsplit("=", 1)[1])
        else:
            bad.append((case, A.get(cid)))
    info["outside_band"] = len(bad)
    for case, verdict in bad[:1]:
        orig = dict(case)
        orig["id"] = orig.pop("orig_id", orig.get("id"))
        i, m = I.get(str(orig["id"])), M.get(str(orig["id"]))
        try:
            fi, fm = vf.expand_case(binp, "convert", orig, os.path.join(chk.outdir, "expand"))
            i, m = fi.get("I", i), fm.get("M", m)
        except Exception as e:  # noqa
            vf.log("expand failed", e)
        chk.violation("broken-correspondence", "convert", orig, i, m,
                      detail="implementation and model disagree beyond the 1e-9 band (%s; %d such cases); the specification stream "
                             "decides whether the property itself is violated" % (verdict or ra.errors[:1], len(bad)),
                      found=False, key="corr-convert")
    return info


def fix_counts(chk, r, rule):
    """one case of these streams carries a chunk of evaluations: report evaluations, not chunks"""
    chk.add_stream(r, rule)
    ev = r.stats.get("hist", {}).get("evaluations", 0)
    cases = r.stats.get("cases", 0)
    if ev > cases:
        chk.coverage["evaluations"] += ev - cases
        chk.coverage["streams"][r.name]["evaluations"] = ev


# --------------------------------------------------------------------------- the check

def run(chk):
    chk.coverage["trusted_base"] = [
        "Coq 8.16.1 kernel + vm_compute",
        "SPECIFICATION in coq/Props/C09.v, module C09Spec: exact SI factors (1 mi = 1609.344 m, 1 ft = 0.3048 m, 1 in = 0.0254 m, "
        "1 lb = 0.45359237 kg, 1 short ton = 907.18474 kg, h/min/s/ms, percent/decimal/per-mille, km/h, mph), the meaning "
        "of the five energy-rate units, tolerances 0.1 % and 0.31 %; the energy family has no physical table (fuel equivalences are conventions)",
        "translator/tr_units.py (output not trusted: the generated table is executed in binary64 against the real functions on "
        "every run and cross-checked against factors extracted from the compiled code)",
        "hand-written model coq/Model/Units.v (builders; tied by the correspondence stream)",
        "reading of the model in exact rationals: rounding, overflow, NaN are outside the theorems (exercised bit-exactly by the stream)",
        "Rust harness harness/src/bin/c09.rs and this driver"]
    chk.assumptions = [
        "theorems are about the real-number reading (Q) of the same model text that is executed in binary64 next to the code",
        "'physically correct' is judged against the explicit SI table of Props/C09.v; energy (gallons gasoline/diesel <-> kWh) has only linearity, identity and round trip",
        "accumulated tolerance of a constructor = three factors each within 0.1 % (0.31 %)"]

    if chk.replay:
        # only stream cases replay alone; a translator / table / proof-obligation report is replayed by the full run
        try:
            if json.load(open(chk.replay)).get("stream") not in ("convert", "spec"):
                chk.replay = None
        except Exception:  # noqa
            pass

    tr = load_translator_module()
    binp = vf.build_harness("c09")
    gen_dir = os.path.join(vf.COQ, "Gen")

    # ---- tie 1: regenerate coq/Gen/UnitTables.v (before the proofs are built): source text, else behaviour
    tres = vf.run_translators(which=["units"]).get("units", {"ok": False, "msg": "translator module tr_units.py missing"})
    parsed = tres.pop("parsed", None)
    chk.coverage["translator"] = {k: tres.get(k) for k in ("ok", "msg", "digest", "files", "changed")}
    chk.coverage["source_digest"] = tres.get("digest") or tr.digest(vf.REPO)[0]
    beh, beh_err = run_table(chk, binp)
    chk.coverage["table_source"] = "source-text"
    if not tres.get("ok"):
        # fail closed only if the behaviour cannot be tabulated either
        bres, why = None, beh_err
        if beh is not None:
            try:
                bres = tr.generate_from_behaviour(beh, gen_dir)
            except Exception as e:  # noqa  TranslateError or malformed table.json
                why = "%s: %s" % (type(e).__name__, e)
        if bres is not None:
            parsed = bres["parsed"]
            chk.coverage["table_source"] = "behaviour"
            chk.coverage["translator"]["fallback"] = {"reason": tres.get("msg"), "msg": bres["msg"], "approximate_arms": bres["approximate"],
                                                      "untabulated_arms": bres["untabulated"]}
            vf.log("translator: %s -> table rebuilt from behaviour (%s)" % (tres.get("msg"), bres["msg"]))
            if bres["untabulated"]:
                why = "not multiplication/division by one constant: %s" % bres["untabulated"][:6]
        if bres is None or bres["untabulated"]:
            chk.violation("broken-correspondence", "translator",
                          {"translator": "tr_units", "error": tres.get("msg"), "behavioural_extraction": why},
                          "%s; behavioural extraction: %s" % (tres.get("msg"), why),
                          "the unit sources have the shape the translator knows, or every arm behaves as multiplication/division by one constant",
                          detail="coq/Gen/UnitTables.v could not be regenerated faithfully by either route"
                                 + ("; the factor observed at 1.0 is used for the arms that could not be tabulated" if bres else
                                    "; the previous table (if any) is used below"),
                          found=False, key="translator")
    elif not chk.replay:
        # ---- tie 2: both routes exist and must agree
        if beh is None:
            info = {"error": beh_err, "pairs": 0, "agree": 0, "disagree": []}
        else:
            info = behaviour_vs_table(beh, parsed, tr)
        chk.coverage["behavioural_extraction"] = {k: (v if k != "disagree" else v[:10]) for k, v in info.items()}
        if info.get("error") or info["disagree"] or info["agree"] != info["pairs"]:
            chk.violation("broken-correspondence", "table", {"disagree": info["disagree"][:10], "error": info.get("error")},
                          "factors observed on the compiled code differ from the table read from the source text",
                          "both routes give the same table", detail="translator bug or a source construct it mis-reads",
                          found=False, key="behaviour-table")

    # ---- proofs (Props/C09.vo cone + the runner)
    chk.proofs(extra_targets=["Model/UnitsRun.vo"], extra_props=["Props/UnitsOrder.v"])

    quick = chk.tier == "quick"
    if not quick and not chk.replay and not chk.broken_obligation:
        # thorough tier: the compiled proofs re-checked by the independent checker
        rc, out = vf.sh(["coqchk", "-silent", "-o", "-Q", vf.COQ, "RC", "RC.Props.C09"], timeout=1500)
        chk.coverage["coqchk"] = {"rc": rc, "tail": out[-300:] if rc != 0 else "ok (Props/C09.vo and its dependency cone)"}
        if rc != 0:
            chk.violation("broken-obligation", "proofs", {"coqchk": out[-1500:]}, "coqchk rejects Props/C09.vo", "coqchk accepts",
                          found=False, key="coqchk")
    only = None
    if chk.replay:
        try:
            only = json.load(open(chk.replay)).get("stream")
        except Exception:  # noqa
            only = None
        if only not in ("convert", "spec"):
            only = "spec"

    # ---- failing entries of the regenerated table, computed inside Coq
    fails, ferr = coq_table_failures(chk)
    chk.coverage["table_failures"] = [" ".join(f) for f in (fails or [])][:40] if fails is not None else {"error": ferr}

    # ---- the property on the implementation's output (S) -- x = 1.0 first for every pair / triple
    seen = set()
    if only in (None, "spec"):
        r = vf.run_stream(binp, "spec", 5 if quick else 40, chk.seed, os.path.join(chk.outdir, "spec"), replay=chk.replay)
        fix_counts(chk, r, RULE_SPEC)
        seen = compare_spec(chk, r)
    if fails and not chk.replay:
        chk.coverage["table_failures_replayed"] = replay_table_failures(chk, binp, fails, seen)

    # ---- correspondence: real code vs model in binary64 (M), tolerance band as fallback
    if only in (None, "convert"):
        r = vf.run_stream(binp, "convert", 200 if quick else 1000, chk.seed, os.path.join(chk.outdir, "convert"), replay=chk.replay)
        fix_counts(chk, r, RULE_CONVERT)
        chk.coverage["tolerance_fallback"] = compare_convert(chk, r, binp)

    if chk.broken_obligation:
        # Gen/UnitTables.v is regenerated from the source, so a changed factor lands here.  The search for the failing
        # input was: the spec stream on the implementation + the replay of every failing table entry.
        found = [v for v in chk.violations if v["found_failing_input"]]
        if found and fails:
            for v in found:
                v["detail"] += " | proof obligations that no longer check: " + "; ".join(str(x) for x in chk.broken_obligation)[:1500]
        else:
            chk.violation("broken-obligation", "proofs", {"obligations": chk.broken_obligation, "table_failures": chk.coverage["table_failures"]},
                          "does not check", "Qed", found=False, key="obligation")
