"""C10: search limits bound the work and never alter an answer, only stop it."""
import glob
import os
from lib import vf

RULE_LIMITS = (
    "one case = one world (random digraph n 3..40 / fixed shapes: degree-6 star, chain, unreachable or isolated vertex, model "
    "error midway) + one query (Dijkstra or A*, vertex- or edge-oriented, forward or reverse) + a whole sweep of termination "
    "models run through the real search: IterationsLimit 0..needed+3 and SolutionSizeLimit 0..needed+3 (needed measured on the "
    "unlimited run; sampled above 18 values), Combined (empty, nested, mixed, at the exact need), QueryRuntimeLimit with "
    "frequency 1..5 under hook-H2 clock scripts whose budget runs out at a random iteration, right after a scheduled check, "
    "at equality, from the start, never, non-monotonically, the same clock under a larger/smaller budget, zero frequency. "
    "Observed per entry: status, explanation text, iterations, trees, routes, digest of all costs/states, and the "
    "(solution size, iterations) counters of every TerminationModel::test call. I vs M: all of it for the whole sweep "
    "(model skipped when the unlimited run popped among equal priorities: TIE). I vs S: decided in Coq from the "
    "implementation's observations: (a) counters consecutive from 0, iterations <= limit, size <= limit before the last "
    "test and <= limit + max degree at it, nothing runs past the first scheduled check after the budget is gone; (b) every "
    "entry is the unlimited result verbatim or a 'terminated' error whose text names exactly the limits exceeded by the "
    "last counters, no earlier test was exceeded, the counters are a prefix of the unlimited run's; (c) success monotone "
    "over every comparable pair of the sweep. Non-trivial = unlimited run with >= 3 tests and >= 1 entry terminated; "
    "distinct by (world, query)")
RULE_KSP = (
    "the same sweeps through SearchAlgorithm::KspSingleVia {k 1..3, underlying Dijkstra | A*, with/without cosine "
    "similarity} and Yens {k 2..3}: the diamond, the spur network of seeded/C10-3 (first path of 4 expansions, spur "
    "searches of 21 and 1 expansions; full sweep 0..needed+3), first paths of 3..5 edges whose spur vertices have "
    "detours of 0..18 extra vertices (spur searches of very different lengths), random two-way digraphs (n <= 16); cases "
    "whose UNLIMITED driver does not return (Yen's known defects) are skipped and counted. Observed per entry: the "
    "driver's COMPLETE result (status, explanation, iterations, every tree, every route as its edge ids in order, digest "
    "of all costs and states) and the counters of every limit test of every sub-search. I vs M (single-via): which "
    "sub-search is stopped, with which text, after which counters, else unchanged; Yens: no model (NOMODEL). I vs S, "
    "decided in Coq from the implementation's observations alone: every entry of the sweep is EXACTLY the unlimited "
    "driver's result (route list included) or a 'terminated' error naming exactly the limits exceeded by the last "
    "counters; no limit test before the last one was exceeded; the clauses (a) on every sub-search segment; monotone. "
    "Non-trivial = >= 2 sub-searches and >= 1 entry terminated")
RULE_PRED = ("terminate_search / explain_termination / test called directly on random model trees (depth <= 3, limits up to "
             "u64::MAX, frequency 0 / 1..6 / huge) with scripted clocks and counters <= 2000, plus the crate's own unit-test "
             "points and hhmmss boundaries; I vs M only. Non-trivial = the test fails (terminated)")
RULE_CONFIG = ("JSON -> TerminationModelBuilder::build. (i) build only: documented forms, upper-case type names, negative / zero / "
               "huge integers (`as u64`), malformed durations, missing / mistyped fields, nested combined; I vs M (built model "
               "or error class). (ii) configured models at work (every 4th case and the fixed chain / star / unreachable / "
               "edge-oriented worlds): a sweep of CONFIGURATIONS - iterations and solution_size limits 0..needed+2, other "
               "spellings, combined, query_runtime budgets 0/1/3/10 s at one frequency under one hook-H2 clock script, negative "
               "numbers, zero frequency - each built by the real builder and a real search run under the builder's own model; "
               "I vs M: built model and the whole observation; I vs S, decided in Coq from the JSON configuration and the "
               "implementation's observations: reading the limits as the property does (limit L >= 0 means L; h:mm:ss seconds "
               "every `frequency` >= 1 iterations), the run must obey clauses (a) (b) (c) of the limits stream for the "
               "CONFIGURED numbers (so a configured 0 stops every search at its first test, success is monotone over the configured "
               "sweep); query_runtime limit TEXTS over the whole h:mm:ss grammar (1..5 hour digits, leading zeros, mm/ss 00..99, "
               "100:00:00 .. 99999:59:59, strings outside the notation) under clocks placed around each budget, the budget read from the "
               "text by an independent Coq spec parser; count limits of 2^31 .. i64::MAX and negative ones (families run_huge_limits_*: "
               "every search in a memory-capped child process), under ANY accepted configuration a search ends with the unlimited result or "
               "a terminated error, never with a crash; "
               "a well-formed configuration must be accepted; configurations outside that reading are otherwise "
               "unspecified. Non-trivial = a combined model is built / the unlimited run makes >= 3 tests")

RULE_APP = ("end to end through the application: one case = one generated network + one JSON query + a SWEEP of applications, each a "
            "REAL CompassApp built offline from a TOML configuration that differs only in its [termination] section (read by the "
            "real TerminationModelBuilder inside CompassApp): iterations 0..needed+2, solution_size 0..needed+2 (sampled above 9 "
            "values), combined (mixed, at the exact need, size 0), another spelling of the type, query_runtime with a budget of "
            "one hour (never fires: the scripted clock of hook H2 is per thread, the application searches on rayon workers) alone "
            "and inside combined; plus the application with `combined` of nothing (unlimited). Algorithms a* / dijkstra, "
            "vertex- and edge-oriented, distance and speed-table traversal, one case in five under ksp_single_via (k 1..3) and a "
            "yens k=1 family, so that the limit reaches every sub-search. `needed` and the unlimited run's limit-test counters "
            "are measured by running the same query on the core API on the harness thread under the instance the unlimited "
            "application builds (hook H2), and that run must return the application's routes. Observed per application: success "
            "(iterations of the summary plugin, tree entries, every route's edge ids, digest of all states / costs / counters) or "
            "the response's `error` text (terminated = contains `query terminated due to`, explanation = the rest). S = "
            "TerminationRun.TR.check_case in Coq on the limits READ FROM THE CONFIGURATION (TR.configured): every response is the "
            "unlimited response verbatim or a terminated error whose text names exactly the configured limits that the "
            "unlimited run's counters exceed at the first failing test; a response is terminated exactly when such a test "
            "exists; a returned result never exceeds the configured limit (never a truncated route); success monotone over the "
            "sweep. No model line. Non-trivial = unlimited run with >= 3 limit tests and >= 1 application of the sweep terminated")


def run_app_stream(chk):
    """stream app_limits of harness/src/bin/e2e.rs: I vs S only"""
    binp = vf.build_harness("e2e")
    n = 100 if chk.tier == "quick" else 1200
    r = vf.run_stream(binp, "app_limits", n, chk.seed, os.path.join(chk.outdir, "app_limits"), replay=chk.replay)
    # no model line in this stream: the comparison is I vs S (a missing S line is still reported)
    r.model["M"] = dict(r.model.get("S", {}))
    chk.add_stream(r, RULE_APP)
    vf.compare(chk, r, classify=classify, binpath=binp)


def classify(case, i, m, s):
    return None


def skip_unmodelled(r):
    """TIE: the model's unlimited run popped among equal priorities (the crate's choice is unspecified);
    NOMODEL: Yen's driver has no model here.  The model line is not compared, the S line still is."""
    M, I = r.model.get("M", {}), r.impl.get("I", {})
    k = 0
    for cid, m in list(M.items()):
        if m in ("TIE", "NOMODEL") and cid in I:
            M[cid] = I[cid]
            k += 1
    return k


def run(chk):
    chk.coverage["trusted_base"] = [
        "Coq 8.16.1 kernel + vm_compute",
        "hand-written models coq/Model/Termination.v (TerminationModel, hhmmss, builder) and coq/Model/Search.v (run_a_star loop), "
        "instantiated by coq/Model/TerminationRun.v over coq/Model/SearchRun.v; tied by this correspondence run",
        "translator/tr_termination.py + translator/rsparse.py + translator/rsmonad.py (the variants of TerminationModel and the bodies of "
        "terminate_search, explain_termination, test compiled to coq/Gen/TerminationModel.v on every run; fails closed; "
        "coq/Props/GenTermination.v proves Model/Termination.v equal to them for all models, clocks and counters, so a misreading shows "
        "up in the limits / pred streams)",
        "hook H2 in termination_model.rs (add-only, cfg compass_verif): scripted clock as a function of the iteration count, "
        "recording of the counters handed to TerminationModel::test",
        "Rust harness harness/src/searchkit.rs, harness/src/bin/c10.rs and this driver",
        "stream app_limits: harness/src/bin/e2e.rs (configuration / network writers, reading of the response's `error` text, the "
        "unlimited run's counters taken from a core-API run of the same query under the application's own search instance), "
        "coq/Model/E2ERun.v (TR.configured on the [termination] JSON, TR.check_case; the counters of a limited run are "
        "reconstructed as the prefix of the unlimited run's up to the first failing test: the search is deterministic and "
        "consults the limit only through TerminationModel::test)"]
    chk.assumptions = [
        "the wall clock is replaced by a function of the iteration count (hook H2); real Instant readings are not modelled",
        "no termination model with frequency = 0 (`iteration % 0` panics; it comes from the configuration file, not from a query): "
        "modelled as Panic, exercised, excluded from the theorems by the hypothesis wf",
        "iteration + 1 does not overflow u64 (a search would need 2^64 - 1 loop turns)",
        "KSP drivers are programs that call the underlying search and propagate every error (`?`): proved for every such "
        "program; single-via's two sub-searches are modelled, Yen's driver is only exercised"]
    # coq/Model/E2ERun.v (stream app_limits) also imports the traversal runner of C03, which reads the generated unit / cost /
    # turn tables: regenerate them here too (a scratch checkout in VERIF_REPO mode starts without coq/Gen/*.v)
    for name, res in vf.run_translators(which=["turn", "units", "cost"]).items():
        if not res.get("ok", False):
            vf.log("translator %s: %s (owned by another check; its previous output is used)" % (name, res.get("msg")))
    # Gen/TerminationModel.v: the variants of TerminationModel and the bodies of terminate_search / explain_termination / test are
    # regenerated from the Rust source; Props/GenTermination.v proves Model/Termination.v equal to them for all inputs
    gres = vf.run_translators(which=["termination"]).get("termination", {"ok": False, "msg": "translator module tr_termination.py missing"})
    chk.coverage.setdefault("translator", {})["termination"] = {k: gres.get(k) for k in ("ok", "msg", "digest", "files", "changed")}
    if not gres.get("ok"):
        chk.violation("broken-correspondence", "translator", {"translator": "tr_termination", "error": gres.get("msg")},
                      gres.get("msg"), "model/termination/termination_model.rs has the shape the translator knows (fail closed)",
                      detail="coq/Gen/TerminationModel.v could not be regenerated; the previous definitions (if any) are used below",
                      found=False, key="translator-termination")
    chk.proofs(extra_targets=["Model/TerminationRun.vo", "Model/E2ERun.vo"], extra_props=["Props/GenTermination.v"])
    if chk.replay:
        import json
        rj = json.load(open(chk.replay))
        if rj.get("stream") == "app_limits" or (rj.get("case") or {}).get("stream") == "app_limits":
            run_app_stream(chk)
            if chk.broken_obligation:
                chk.violation("broken-obligation", "proofs", {"obligations": chk.broken_obligation}, "does not check", "Qed",
                              found=False, key="obligation")
            return
    binp = vf.build_harness("c10")
    quick = chk.tier == "quick"
    plan = [("limits", 170 if quick else 4000, RULE_LIMITS),
            ("ksp", 50 if quick else 1200, RULE_KSP),
            ("pred", 400 if quick else 8000, RULE_PRED),
            ("config", 120 if quick else 2000, RULE_CONFIG)]
    if chk.replay:
        # a replay file names its stream
        import json
        stream = (json.load(open(chk.replay)).get("case") or {}).get("stream", "limits")
        plan = [p for p in plan if p[0] == stream] or plan[:1]
    else:
        for f in sorted(glob.glob(os.path.join(vf.ROOT, "corpus", "C10", "*.json"))):
            import json
            name = os.path.basename(f)[:-5]
            stream = (json.load(open(f)).get("case") or {}).get("stream", "limits")
            rc = vf.run_stream(binp, stream, 1, chk.seed, os.path.join(chk.outdir, "corpus_" + name), shards=1, replay=f)
            skip_unmodelled(rc)
            chk.coverage["streams"].setdefault("corpus", {"cases": 0, "rule": "corpus/C10/*.json replayed"})["cases"] += 1
            vf.compare(chk, rc, classify=classify, binpath=binp, stream_label="corpus:" + name)
    for stream, n, rule in plan:
        # the two small streams need few coqc processes (each one pays the library loading time)
        shards = vf.NPROC if stream in ("limits", "ksp", "config") else 4
        r = vf.run_stream(binp, stream, n, chk.seed, os.path.join(chk.outdir, stream), shards=shards, replay=chk.replay)
        k = skip_unmodelled(r)
        if k:
            r.stats.setdefault("hist", {})["model_line_skipped(TIE/NOMODEL)"] = k
        chk.add_stream(r, rule)
        vf.compare(chk, r, classify=classify, binpath=binp)
    if not chk.replay:
        run_app_stream(chk)
    if chk.broken_obligation:
        chk.violation("broken-obligation", "proofs", {"obligations": chk.broken_obligation}, "does not check", "Qed",
                      found=False, key="obligation")
