"""C11: the compact ordered map is an insertion-ordered map; every state feature owns exactly one slot.

Two correspondence streams (harness/src/bin/c11.rs):
  cmap   the container: op sequences on CompactOrderedHashMap  vs  Model/CompactMap.v (M) and the
         insertion-ordered association list (S)
  state  the state model on top of it: configured features + traversal/access model features + query overrides
         through the real StateModel::try_from / collect_features / StateModel::extend and through
         SearchApp::build_search_instance, then get/set/add sequences on the resulting state vector
         vs  Model/StateModel.v in binary64 (M, bit-exact) and Model/StateModelSpec.v (S: names, slots, initial
         state, error class computed from the declaration lists; every operation judged in exact rationals on
         the implementation's own output: own slot only, value within the C09 round-trip bound)."""
import glob
import json
import os
import shutil
from lib import vf

RULE = ("deterministic first: family `huge` - 65535, 65536, 65537 and 70000 distinct keys inserted in order with every 997th "
        "overwritten afterwards, judged by summary facts (len, get_index of every 4096th and the last key, number of distinct "
        "indices over ALL keys, iteration / keys() length and order, to_vec indices ascending, all values) against the closed "
        "form the refinement theorems give (get_index (key j) = j); maps of 0..9 keys built by `new`, by `from_iter` and by inserts into the empty map, every "
        "position overwritten in turn (values compared afterwards), growth past the specialisations; then random "
        "op sequences (constructor empty/new/from_iter + up to 60 inserts over <=13 keys) with every observable "
        "(len, iter, keys, to_vec, get, get_index, get_pair) compared after every op; non-trivial = the key set "
        "reaches >=5 keys (crosses the small-size specialisations) or some key is overwritten; distinct by op sequence")

RULE_STATE = (
    "one case = ONE SearchApp (configured features parsed by StateModel::try_from from their serde JSON) and a "
    "sequence of 1-5 queries on it; each query = the features its traversal / access model contribute (stub "
    "services building the model of the query at hand), its state_features (parsed by the real code from serde JSON), "
    "0-8+ operations; every query's observables are compared with M / S computed for that query ALONE. "
    "243 deterministic boundary cases first (writes of +inf, -inf and NaN through set_* / add_* of every family and "
    "set_custom_f64: the slot must hold that infinity / NaN afterwards, each followed by a finite write; EVERY ordered pair of units of the three families (25 + 16 + 9) through "
    "set / get in both units / add / round trip / 12-fold add, judged by the table factor at 2^-40 AND, for distance "
    "and time, by the exact SI factor within 0.2 %; whole-number initial values spelled as JSON integer literals "
    "(-5, 0, -0, 2^53, u64::MAX, i64::MIN), float literals and exponent forms - configuration and query JSON go "
    "through serde_json TEXT whenever an initial value is a whole number; query overrides in another unit than the model's with non-zero initial "
    "values, read in both units; runs of 50 / 200 / 500 adds in a unit other than the feature's, zero and non-zero "
    "increments; a query overriding a model-contributed feature; overriding initial "
    "values of the 4 features of an electric-vehicle model; n = 0..7 configured + k = 0..3 model features with and "
    "without override / with both models declaring the last one; an override at every position of 1..8 features; "
    "configured features re-declared by a model and overridden; one name from both models / twice from one model; "
    "every refusal: unknown name, configured-only name, other type, custom type named like a built-in, other custom "
    "unit, unparsable state_features, a model replacing a configured feature of another kind; accessor errors and "
    "codec edge values; custom features whose free-text unit label is the name of each of the 12 built-in units, "
    "configured and as query override, also under names that are unit names; the ends of the integer ranges as "
    "initial values and set/get round trips (u64::MAX, i64::MAX, i64::MIN, 2^53+-1, the rounding boundaries below "
    "2^64 / 2^63) and raw slot contents NaN, +-inf, -0.0, +-0.5, 2^63, 2^64, 1e30 read through every codec; sequences "
    "of 2-5 queries with the same names and other units / initial values, other name sets in between, and another "
    "vehicle model per query), then random cases: 0-9 configured features of every kind / unit / format over 14 "
    "names, custom type and unit labels drawn from pools that contain every built-in unit name, integers over the "
    "whole i64 / u64 range with the sentinels over-represented, 0-4 traversal-model and 0-2 access-model features "
    "(1/3 re-declare an existing name, 9/10 of those with the same kind), query state_features absent / unparsable / "
    "0-3 overrides (3/4 valid overrides of model features, at most one invalid entry per query), 1/4 of the cases "
    "continue with 1-4 follow-up queries on the same application (same query again / same overrides with other "
    "definitions / models re-declaring the same names with other definitions / an unrelated query), operations: "
    "get/set/add/round-trip/get-add-get/n-fold add (n up to 500) in a random unit of the feature's family (1/4 of "
    "the adds with a zero increment, which must leave the value as it is; the slot after an add is judged against "
    "old + n * dx * k within 2^-40 relative - the 0.1 % band only applies to get(set) in one foreign unit), the four custom codecs, raw writes "
    "into custom slots followed by a codec read, 1/10 deliberately ill-typed, 1/12 on an undeclared name; observables: "
    "result class, len, iteration order, what each feature IS in the built model (kind, unit / custom type, label, "
    "codec - cross-checked with get_*_unit and serialize_state_model), slot of each of 15 probe names (observed through get_delta), initial state, "
    "and after every operation its result and the whole state vector as binary64 bit patterns; the model built by "
    "SearchApp::build_search_instance must show the same observables as collect_features + extend; non-trivial = "
    "the final model of some query has >= 5 features, or some name is defined more than once, or the case has more "
    "than one query; distinct by case")


def classify(case, i, m, s):
    return None


def replay_stream(chk):
    """a replay file names its stream"""
    if not chk.replay:
        return None
    try:
        v = json.load(open(chk.replay))
    except Exception:  # noqa
        return None
    st = v.get("stream") or ""
    if st.startswith("corpus:"):
        return "cmap" if "huge" in v.get("case", {}) else "state"
    if st in ("cmap", "state"):
        return st
    return "state" if "cfg" in v.get("case", {}) else "cmap"


def run(chk):
    chk.coverage["trusted_base"] = [
        "Coq 8.16.1 kernel + vm_compute",
        "hand-written models coq/Model/CompactMap.v and coq/Model/StateModel.v (tied by these correspondence runs), "
        "specification coq/Model/StateModelSpec.v and the judgement of operations in coq/Model/StateModelRun.v",
        "C09's unit table coq/Gen/UnitTables.v (regenerated from the Rust unit files by the translator on every run)",
        "translator/tr_statefeature.py + translator/rsparse.py (the variants of StateFeature, CustomFeatureFormat, UpdateOperation and "
        "the arms of encode_* / decode_* / initial, PartialEq::eq, get_feature_type, get_initial, get_*_unit, "
        "get_custom_feature_format, perform_operation compiled to coq/Gen/StateFeature.v on every run; fails closed; "
        "coq/Props/GenStateFeature.v proves Model/StateModel.v equal to them for all inputs, so a misreading shows up in the state stream)",
        "std::collections::HashMap specified as a finite map with unspecified iteration order",
        "serde: the models take parsed features; every configured feature and query override of the run is serialised "
        "by serde from the declared feature and parsed back by the real code, so a feature parsed as something else "
        "than declared shows in the observables",
        "Rust harness harness/src/bin/c11.rs (stub traversal/access models returning the chosen state_features) and this driver"]
    chk.assumptions = [
        "keys have a decidable equality (Eq + Hash agree)",
        "constructor `new` receives duplicate-free keys (the configured features are a set: a TOML table / JSON object)",
        "a query's state_features is a JSON object (distinct names); when it holds invalid entries of two different kinds "
        "(unknown name and other type) the class of the reported error depends on HashMap order - both are errors",
        "arithmetic theorems are about exact rationals (the integer -> float cast of the custom codecs is its exact "
        "integer value round53, computed on Z); binary64 is tied by the bit-exact run",
        "the specification of a query is history-free: what earlier queries on the same SearchApp declared is irrelevant",
        "a state vector handed to get/set/add has the length of the model it belongs to (a shorter one is a RuntimeError / "
        "InvalidStateVariableIndex in the code and in the model)"]
    # the unit table the state model's conversions go through
    tres = vf.run_translators(which=["units"]).get("units", {"ok": False, "msg": "translator module tr_units.py missing"})
    tres.pop("parsed", None)
    chk.coverage["translator_units"] = {k: tres.get(k) for k in ("ok", "msg", "digest", "changed")}
    if not tres.get("ok"):
        chk.violation("broken-correspondence", "translator", {"translator": "tr_units", "error": tres.get("msg")},
                      tres.get("msg"), "the unit sources have the shape the translator knows",
                      detail="coq/Gen/UnitTables.v could not be regenerated (see property C09)", found=False, key="translator")
        # keep going with the last table that WAS read from a source the translator understands (the one of the main
        # tree): the model still runs and the streams below search for the concrete failing input (the judgement of
        # set / get / add in another unit also uses the exact SI factors, not the table)
        dst = os.path.join(vf.COQ, "Gen", "UnitTables.v")
        src = os.path.join(vf.ROOT, "coq", "Gen", "UnitTables.v")
        if not os.path.exists(dst) and os.path.exists(src):
            os.makedirs(os.path.dirname(dst), exist_ok=True)
            shutil.copy(src, dst)
            chk.coverage["translator_units"]["fallback"] = "last good UnitTables.v of the main tree"
    # Gen/StateFeature.v: the variants of StateFeature / CustomFeatureFormat / UpdateOperation and the arms of their encode / decode /
    # initial / equality / unit accessors are regenerated from the Rust source; Props/GenStateFeature.v proves Model/StateModel.v
    # equal to them for all inputs
    fres = vf.run_translators(which=["statefeature"]).get("statefeature", {"ok": False, "msg": "translator module tr_statefeature.py missing"})
    chk.coverage["translator"] = {"statefeature": {k: fres.get(k) for k in ("ok", "msg", "digest", "files", "changed")}}
    if not fres.get("ok"):
        chk.violation("broken-correspondence", "translator", {"translator": "tr_statefeature", "error": fres.get("msg")},
                      fres.get("msg"), "model/state/{custom_feature_format,state_feature,update_operation}.rs and "
                      "model/traversal/state/state_variable.rs have the shape the translator knows (fail closed)",
                      detail="coq/Gen/StateFeature.v could not be regenerated; the previous definitions (if any) are used below",
                      found=False, key="translator-statefeature")
        # keep going with the last definitions that WERE read from a source the translator understands (the main tree's):
        # the model still builds and the streams below search for the concrete failing input
        dst = os.path.join(vf.COQ, "Gen", "StateFeature.v")
        src = os.path.join(vf.ROOT, "coq", "Gen", "StateFeature.v")
        if not os.path.exists(dst) and os.path.exists(src):
            os.makedirs(os.path.dirname(dst), exist_ok=True)
            shutil.copy(src, dst)
            chk.coverage["translator"]["statefeature"]["fallback"] = "last good StateFeature.v of the main tree"
    chk.proofs(extra_targets=["Model/CompactMapRun.vo", "Model/StateModelRun.vo"], extra_props=["Props/GenStateFeature.v"])
    binp = vf.build_harness("c11")
    only = replay_stream(chk)
    quick = chk.tier == "quick"
    if only in (None, "cmap"):
        n = 400 if quick else 6000
        r = vf.run_stream(binp, "cmap", n, chk.seed, os.path.join(chk.outdir, "cmap"), replay=chk.replay)
        chk.add_stream(r, RULE)
        vf.compare(chk, r, classify=classify, binpath=binp)
    if only in (None, "state"):
        if not chk.replay:
            # witnesses of the seeded defects and of the mutations tried, replayed first
            for f in sorted(glob.glob(os.path.join(vf.ROOT, "corpus", "C11", "*.json"))):
                name = os.path.basename(f)[:-5]
                cstream = "cmap" if "huge" in json.load(open(f)).get("case", {}) else "state"
                rc = vf.run_stream(binp, cstream, 1, chk.seed, os.path.join(chk.outdir, "corpus_" + name), shards=1, replay=f)
                rc.name = cstream
                chk.coverage["streams"].setdefault("corpus", {"cases": 0, "rule": "corpus/C11/*.json replayed (full payloads)"})["cases"] += 1
                vf.compare(chk, rc, classify=classify, binpath=binp, stream_label="corpus:" + name)
        n = 900 if quick else 40000
        r = vf.run_stream(binp, "state", n, chk.seed, os.path.join(chk.outdir, "state"), replay=chk.replay)
        chk.add_stream(r, RULE_STATE)
        vf.compare(chk, r, classify=classify, binpath=binp)
    if chk.broken_obligation:
        # a proof obligation no longer checks: the streams above were the search for a failing input
        chk.violation("broken-obligation", "proofs", {"obligations": chk.broken_obligation}, "does not check", "Qed",
                      found=False, key="obligation")
