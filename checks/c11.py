"""C11: the compact ordered map is an insertion-ordered map; one slot per state feature."""
import os
from lib import vf

RULE = ("op sequences (constructor empty/new/from_iter + up to 60 inserts over <=13 keys) with every observable "
        "(len, iter, keys, to_vec, get, get_index, get_pair) compared after every op; non-trivial = the key set "
        "reaches >=5 keys (crosses the small-size specialisations) or some key is overwritten; distinct by op sequence")


def classify(case, i, m, s):
    return None


def run(chk):
    chk.coverage["trusted_base"] = [
        "Coq 8.16.1 kernel + vm_compute", "hand-written model coq/Model/CompactMap.v (tied by this correspondence run)",
        "std::collections::HashMap specified as a finite map with unspecified iteration order",
        "Rust harness harness/src/bin/c11.rs and this driver"]
    chk.assumptions = ["keys have a decidable equality (Eq + Hash agree)", "constructor `new` receives duplicate-free keys (a set of features)"]
    chk.proofs(extra_targets=["Model/CompactMapRun.vo"])
    binp = vf.build_harness("c11")
    n = 400 if chk.tier == "quick" else 6000
    r = vf.run_stream(binp, "cmap", n, chk.seed, os.path.join(chk.outdir, "cmap"), replay=chk.replay)
    chk.add_stream(r, RULE)
    ncorr, nprop = vf.compare(chk, r, classify=classify, binpath=binp)
    if chk.broken_obligation:
        # a proof obligation no longer checks: the stream above was the search for a failing input
        chk.violation("broken-obligation", "proofs", {"obligations": chk.broken_obligation}, "does not check", "Qed",
                      found=False, key="obligation")
