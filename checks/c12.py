"""C12: no batch of queries makes CompassApp::run panic, abort or run without bound; every query is answered
with a response echoing its request; an error is local to its query."""
import json
import os
from lib import vf

RULE = ("user JSON documents run through the REAL CompassApp (27 generated configurations: plugin lists over "
        "grid_search / inject / load_balancer (numeric, categorical, haversine) / vertex_rtree / edge_rtree / debug, "
        "a* / dijkstra / ksp_single_via / yens, vertex and edge orientation, distance / speed-table / energy traversal, "
        "summary / traversal (every format) / uuid output plugins, termination limits, parallelism 1..8 and run-time "
        "override, discard-from-memory and file sink), every call under catch_unwind and a 10 s watchdog. Corpus "
        "witnesses first, then deterministic families (empty batch, document that is no batch, chunk arithmetic, every "
        "required field deleted / retyped into each of 10 JSON types, out-of-range vertex / edge ids up to u64::MAX, "
        "coordinates outside the globe / beyond f32 / ill-typed, 22 grid-search sections incl. {} [] scalars nesting "
        "under 7 configurations, weights zero / negative / unknown / ill-typed, vehicle names, load-balancer weights, "
        "non-object queries incl. arrays, k from the query, sequence-form enum values; strings AND keys of 2-/3-/4-byte "
        "UTF-8 scalars and combining marks, 1100 bytes long with 0..4 pad bytes so that every fixed byte offset of the "
        "serialized / Debug form is a non-boundary for some case, plus one-byte length sweeps around 64/128/256/512/1024, "
        "on every error path: wrong-typed grid sections, missing / ill-typed fields, unknown names, inject keys/values, "
        "non-object queries), then random batches of 0-6 mutated queries (15 mutation kinds). Cases with non-ASCII "
        "text are compared through the hash of the payload bytes on both sides. "
        "I = outcome class + (class, request) of every response in order; M = Coq pipeline model (inject, grid_search, "
        "numeric weights concrete; opaque plugins and per-query search replayed from calls recorded on the real "
        "components); S = property checker in Coq on the observed outcome (call returns Ok, every response is "
        "{request,..}, echoes a batch query, every query answered, count = expansion or one error, malformed => error). "
        "non-trivial = a success and an error response in one batch, or an expansion, or a non-Ok outcome; distinct by "
        "(configuration, document)")

CORPUS = os.path.join(vf.ROOT, "corpus", "C12")


def effective_k(case):
    alg = case.get("cfg", {}).get("alg", {})
    if alg.get("t") != "yens":
        return None
    ks = []
    user = case.get("user")
    qs = user if isinstance(user, list) else (user.get("queries", [user]) if isinstance(user, dict) else [])
    if not isinstance(qs, list):
        qs = []
    for q in qs:
        k = q.get("k") if isinstance(q, dict) else None
        ks.append(k if isinstance(k, int) and not isinstance(k, bool) and k >= 0 else alg.get("k", 1))
    return max(ks) if ks else alg.get("k", 1)


# classes reported to the coordinator whose families live in the harness stream `pending`; the stream is run for
# an id only once known_findings.json lists it for C12 (a fixed defect moves into the main stream instead)
PENDING = {}


def classify(case, i, m, s):
    # class of the listed known finding: algorithm = yens and effective k (query field k, else configured k) >= 2
    k = effective_k(case)
    if k is not None and k >= 2:
        return "K_yens_k_ge_2"
    for fid, family in PENDING.items():
        if case.get("family") == family:
            return fid
    return None


def harness_died(chk, r, stream):
    """The harness runs every application call under catch_unwind + watchdog and guards every case, so it only ends
    abnormally when the PROCESS is killed (abort, stack overflow, out of memory). It writes the case it is about to
    run to <stream>.current.json: that case is then the concrete failing input."""
    died = [e for e in r.errors if e.get("file") == "harness"]
    if not died:
        return
    marker = os.path.join(r.dir, stream + ".current.json")
    tail = " ".join(died[0].get("error", "").split())[-600:]
    try:
        case = json.load(open(marker))
    except Exception:  # noqa
        case = None
    r.errors = [e for e in r.errors if e.get("file") != "harness"]
    if case is not None:
        chk.violation("impl-counterexample", stream, case, "the harness process died while this case was running "
                      "(abort / stack overflow / out of memory inside the application call): " + tail,
                      "the call returns", detail="process-level failure: not catchable by catch_unwind")
    else:
        chk.violation("broken-correspondence", stream, {"stream": stream}, "the harness process ended abnormally outside "
                      "any case: " + tail, "the harness completes", found=False, key="harness-" + stream)


def run(chk):
    chk.coverage["trusted_base"] = [
        "Coq 8.16.1 kernel + vm_compute",
        "hand-written model coq/Model/Pipeline.v of CompassApp::run's control structure (tied by this correspondence run); "
        "rayon's par_chunks / par_iter / collect modelled as chunk-wise sequential maps joined with priority hang > panic > first Err",
        "the Cartesian enumeration of grid_search is the structural PL.combos; the MultiSet iterator itself is property C17",
        "opaque components (map matching, haversine / categorical weights, the per-query search, output plugins, third-party "
        "crates serde_json / rstar / geo / smartcore) are exercised by the stream, not modelled: their absence of panics is "
        "tested, not proved",
        "kdam progress bars and chrono timestamps (cannot fail for these inputs)",
        "Rust harness harness/src/bin/c12.rs + harness/src/appkit.rs (watchdog, recorders) and this driver"]
    chk.assumptions = [
        "batch length and parallelism below 2^26 (the f64 quotient + ceil of the chunk size is then the exact ceiling)",
        "every_query_answered / error_is_local: parallelism >= 1, responses persisted in memory, a sink that accepts every "
        "response (parallelism 0 makes run return Err for the whole non-empty batch: configuration error, not a batch)",
        "memory is not modelled: a grid section whose product is astronomically large is bounded but not feasible",
        "outside the class K_yens_k_ge_2 (algorithm = yens and effective k >= 2)"]
    # Props/Links2.v: the per-query search component of pipeline_total is discharged for the modelled algorithms
    chk.proofs(extra_targets=["Model/PipelineRun.vo"], extra_props=["Props/Links2.v"])
    binp = vf.build_harness("c12")
    thorough = chk.tier != "quick"
    n = 10000 if thorough else 2500
    extra = ["--corpus", CORPUS]
    r = vf.run_stream(binp, "batch", n, chk.seed, os.path.join(chk.outdir, "batch"), extra=extra, replay=chk.replay)
    harness_died(chk, r, "batch")
    chk.add_stream(r, RULE)
    vf.compare(chk, r, classify=classify, binpath=binp, extra=extra)
    for fid in sorted(PENDING):
        if fid in chk.finding_ids() and not chk.replay:
            ex = ["--only", fid]
            rp = vf.run_stream(binp, "pending", 0, chk.seed, os.path.join(chk.outdir, "pending"), extra=ex)
            chk.add_stream(rp, "witness families of known-finding class " + fid)
            vf.compare(chk, rp, classify=classify, binpath=binp, extra=ex)
    if thorough and not chk.replay:
        # plain release arithmetic (no overflow checks): corpus + deterministic families again
        binw = vf.build_harness("c12", profile="wrap")
        extra_w = ["--corpus", CORPUS, "--wrap", "--boundary-only"]
        rw = vf.run_stream(binw, "batch_wrap", 0, chk.seed, os.path.join(chk.outdir, "batch_wrap"), extra=extra_w)
        harness_died(chk, rw, "batch_wrap")
        chk.add_stream(rw, "the corpus and the deterministic families of stream batch on the `wrap` build profile "
                           "(overflow-checks off)")
        vf.compare(chk, rw, classify=classify, binpath=binw, extra=extra_w)
    if chk.broken_obligation:
        chk.violation("broken-obligation", "proofs", {"obligations": chk.broken_obligation}, "does not check", "Qed",
                      found=False, key="obligation")
