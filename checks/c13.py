"""C13: k-shortest-paths returns up to k valid, distinct routes, best first, and ends."""
import glob
import os
from lib import vf

RULE = ("k-shortest-paths queries on the real core code: SearchAlgorithm::{KspSingleVia, Yens} deserialised from its JSON "
        "configuration, run_vertex_oriented on table-driven worlds; boundary families (diamond, two parallel lanes whose "
        "inner vertices reproduce the same alternative, looping via vertices, one-edge / single-route networks, k from "
        "the query incl. ill-typed and 0, no destination, origin = destination, unreachable) then random layered / grid / "
        "diamond / spur-rich / random digraphs with costs k/64 (tie-free) or 1..3 (tie-rich), one world in five with turn "
        "costs, one in four with a non-zero initial state; k 1..6 from the "
        "configuration or the query, AcceptAll (explicit or default) / EdgeIdCosine / DistanceWeightedCosine with "
        "thresholds {0,0.3,0.6,0.9,1}, termination Exact / MaxIteration 0..8 / Factor 0..3, underlying Dijkstra and A* "
        "(factors default, 0.5, 1; exact or zero estimate); one world in four queried edge to edge "
        "(SearchAlgorithm::run_edge_oriented: origin hop with the initial state at zero cost, destination hop repeating "
        "the state before it at zero cost, inner routes judged as the vertex query); families for an INEXACT underlying "
        "search (A* weight factor 2 / 5 / 10 from the configuration or the query, on a network whose estimate table lures "
        "the forward search onto a worse route than the reverse search finds, and on one random world in seven: every "
        "route must still be a connected origin-destination walk in forward edge order; least-cost and the state fold "
        "are not judged there because a weighted A* may re-open a vertex, C03's K_reopen); link lengths below one "
        "distance unit (k/64 < 1, one world in six and the fractional-lanes family: the product of two route norms is "
        "below 1 and the distance-weighted cosine must still be compared with the configured threshold); a "
        "TerminationModel in the SearchInstance (hub networks of 4..30 two-link alternatives, IterationsLimit around "
        "the number of via candidates, k up to the number of alternatives): single_via_paths_algorithm::run does not "
        "consult the termination model in its candidate loop -- only the two underlying searches do -- so whenever "
        "the model's two underlying searches finish under the limit the answer must be Ok (a `terminated` outcome is "
        "accepted only when one of them runs into the limit); an ACCESS model that charges turns (turn costs, not "
        "restrictions: family sv_turn_penalty where the alternative has the smaller traversal-only share but the larger "
        "total cost, and the one random world in five with a turn table): the first route's TOTAL cost (every edge's "
        "cost plus the turn charge from the edge before it) must be the least total cost over all origin-destination "
        "walks, decided by a checked dual certificate on EDGES (the objective depends on the previous edge) and judged "
        "only where it is unambiguous, i.e. when the underlying vertex-labelling search itself reached the destination "
        "at that certified optimum; the order of routes 2..k is not judged (the code does not sort them). I vs M: status, iterations, both trees and every route hop "
        "(floats bit-exact) and the AcceptAll route count, skipped when the model had to choose among equal priorities "
        "(TIE). I vs S, all cases: the verified checker evaluated in Coq over exact rationals on the implementation's "
        "routes (1..k routes; each a chained origin-destination walk visiting no vertex twice; pairwise distinct; no "
        "pair more similar than the threshold; every hop state = fold of the traversal; first route = least cost by a "
        "checked dual certificate; AcceptAll count >= count; no error/panic/hang on a reachable destination). "
        "Yen with k >= 2 runs under catch_unwind + watchdog (known finding K_yens_k_ge_2). "
        "Non-trivial = at least 2 routes returned, or an error outcome; distinct by (world, configuration)")


RULE_SIM = ("RouteSimilarityFunction::test_similarity (deserialised from its JSON configuration) called directly on pairs of "
            "edge-id sequences over a path network: boundary pairs (near copy, identical, same set in another order, disjoint, "
            "one shared edge, repeated edges, empty routes, subset, zero-length links only) on four length tables (k/64 below "
            "one unit, all 1, metre scale, with zero-length links) x AcceptAll / EdgeIdCosine / DistanceWeightedCosine at "
            "several thresholds, then random pairs (second route a mutation of the first two times in three) over lengths "
            "k/64 < 1, k/4096, 1..3, k/64 < 2^14, or with zeros; thresholds {0,0.25,0.3,0.5,0.6,0.75,0.9,1}. I vs M: the model's "
            "binary64 evaluation. I vs S: the exact-rational decision (similar when rank > threshold*(1+2^-40), not similar "
            "when rank < threshold*(1-2^-40) or undefined; in between the implementation's answer stands). Non-trivial = the "
            "routes share an edge or the product of their norms is below 1")


RULE_APP = ("end to end through the application: a REAL CompassApp built offline from a generated TOML configuration whose "
            "[algorithm] section is ksp_single_via (k 1..5, underlying a* / dijkstra, similarity left out / accept_all / "
            "edge_id_cosine_similarity / distance_weighted_cosine_similarity with thresholds {0,0.3,0.6,0.9,1}, termination left "
            "out / exact / max_iteration / factor) or yens with k = 1, distance traversal in meters over whole-meter edge lengths "
            "(so that every state is an exact sum), initial distance 0 / 125 / 1000; CompassApp::run on one JSON query "
            "(origin_vertex, destination_vertex, one in three with its own `k`: larger / smaller than the configured one, 0, a "
            "string, a float); route output json. Families first (diamond, two lanes with rungs, every similarity function and "
            "threshold, query k overriding the configuration both ways, single route, one edge, unreachable, no destination), then "
            "random two-way grids, random networks made two-way and random digraphs (3-40 vertices). I = the response as an outcome: "
            "status (`error` text classified), iterations, EVERY route of `route` (null / one object / an ARRAY of route objects) "
            "hop by hop with access cost, traversal cost and state bit-exact, aa = routes of the same query under AcceptAll (core "
            "API on the application's own instance); each route's traversal_summary = its last state, route_edges = total edges. "
            "S = KspRun.KR.check_case in Coq over exact rationals against the network the files describe: 1..k routes (k = the "
            "query's when present), each a chained origin-destination walk visiting no vertex twice, pairwise distinct, no pair "
            "more similar than the CONFIGURED threshold, every hop state = fold of the lengths, first route = least cost by a "
            "checked dual certificate, AcceptAll count >= count, no error on a reachable destination, build error for an "
            "ill-typed k / missing destination. No model line. Non-trivial = >= 2 routes returned or an error response")


def run_sim_stream(chk, binp):
    n = 700 if chk.tier == "quick" else 8000
    r = vf.run_stream(binp, "sim", n, chk.seed, os.path.join(chk.outdir, "sim"), replay=chk.replay)
    chk.add_stream(r, RULE_SIM)
    vf.compare(chk, r, classify=classify, binpath=binp)


def run_app_stream(chk):
    """stream app_ksp of harness/src/bin/e2e.rs: I vs S only"""
    binp = vf.build_harness("e2e")
    n = 150 if chk.tier == "quick" else 1500
    r = vf.run_stream(binp, "app_ksp", n, chk.seed, os.path.join(chk.outdir, "app_ksp"), replay=chk.replay)
    # no model line in this stream: the comparison is I vs S (a missing S line is still reported)
    r.model["M"] = dict(r.model.get("S", {}))
    chk.add_stream(r, RULE_APP)
    vf.compare(chk, r, classify=classify, binpath=binp)


def classify(case, i, m, s):
    k = case.get("ksp", {})
    keff = k.get("k")
    if isinstance(k.get("qk"), dict) and "nat" in k["qk"]:
        keff = k["qk"]["nat"]
    if k.get("alg") == "yens" and isinstance(keff, int) and keff >= 2 and not (isinstance(k.get("qk"), dict) and "bad" in k["qk"]):
        return "K_yens_k_ge_2"
    return None


def skip_ties(r):
    """the model prints TIE when an underlying search or the intersection queue popped among equal priorities (the
    implementation's choice is unspecified): the model line is not compared, the checker line (S) still is"""
    M, I = r.model.get("M", {}), r.impl.get("I", {})
    n = 0
    for cid, m in list(M.items()):
        if m == "TIE" and cid in I:
            M[cid] = I[cid]
            n += 1
    return n


def run(chk):
    chk.coverage["trusted_base"] = [
        "Coq 8.16.1 kernel + vm_compute",
        "translator/tr_similarity.py + translator/rsparse.py (the variants of RouteSimilarityFunction, is_similar, rank_similarity, "
        "test_similarity and the terms / closing formula of cos_similarity compiled to coq/Gen/RouteSimilarity.v on every run; fails "
        "closed; coq/Props/GenSimilarity.v proves the similarity section of Model/Ksp.v equal to them for every numeric record and "
        "square root, so a misreading shows up in the sim stream); the sums over HashMap / HashSet iterators and the reading of the "
        "comparison over the rationals (Ksp.cos_ge_Q) stay hand-written",
        "hand-written models coq/Model/Ksp.v (similarity, termination criteria, loop test, reorient, single-via, Yen) on "
        "top of coq/Model/Search.v + SearchRun.v, tied by this correspondence run",
        "std HashMap iteration order and priority_queue tie-breaking specified as 'pop removes an entry of minimal "
        "priority'; f64 sums over hash iterators are exact on the generated inputs (unit weights / dyadic distances)",
        "the reading of `numer / (sqrt(a)*sqrt(b)) >= t` over the reals as a comparison of squares (Ksp.cos_ge_Q)",
        "Rust harness harness/src/searchkit.rs, harness/src/bin/c13.rs and this driver",
        "stream app_ksp: harness/src/bin/e2e.rs (configuration / network writers, extraction of every route of the response's "
        "`route` value, the AcceptAll count from a core-API run under the application's own instance), coq/Model/E2ERun.v "
        "(calls KR.check_case, nothing else)"]
    chk.assumptions = [
        "k >= 1, origin and destination distinct, the destination reachable (as in the property)",
        "the two underlying searches return trees satisfying the C01 tree invariant (proved for run_a_star in "
        "Proofs/SearchInv.v under its cost-order hypotheses); forward traversal of graph edges does not fail",
        "first-is-best: relative to the optimality of the underlying search (C02)",
        "Yen's algorithm: theorems for k = 1 only; k >= 2 is the known finding K_yens_k_ge_2"]
    # coq/Model/E2ERun.v (stream app_ksp) also imports the traversal runner of C03, which reads the generated unit / cost /
    # turn tables: regenerate them here too (a scratch checkout in VERIF_REPO mode starts without coq/Gen/*.v)
    for name, res in vf.run_translators(which=["turn", "units", "cost"]).items():
        if not res.get("ok", False):
            vf.log("translator %s: %s (owned by another check; its previous output is used)" % (name, res.get("msg")))
    # Gen/RouteSimilarity.v: the variants of RouteSimilarityFunction, is_similar, rank_similarity, test_similarity and the terms /
    # closing formula of cos_similarity are regenerated from the Rust source; Props/GenSimilarity.v proves Model/Ksp.v's
    # similarity section (with the literal comparison Ksp.cos_ge_num, whose binary64 instance runs in the sim stream) equal to them
    sres = vf.run_translators(which=["similarity"]).get("similarity", {"ok": False, "msg": "translator module tr_similarity.py missing"})
    chk.coverage.setdefault("translator", {})["similarity"] = {k: sres.get(k) for k in ("ok", "msg", "digest", "files", "changed")}
    if not sres.get("ok"):
        chk.violation("broken-correspondence", "translator", {"translator": "tr_similarity", "error": sres.get("msg")}, sres.get("msg"),
                      "algorithm/search/util/route_similarity_function.rs has the shape the translator knows (fail closed)",
                      detail="coq/Gen/RouteSimilarity.v could not be regenerated; the previous definitions (if any) are used below",
                      found=False, key="translator-similarity")
    chk.proofs(extra_targets=["Model/KspRun.vo", "Model/E2ERun.vo"], extra_props=["Props/GenSimilarity.v"])
    if chk.replay:
        import json
        rj = json.load(open(chk.replay))
        if rj.get("stream") == "app_ksp" or (rj.get("case") or {}).get("stream") == "app_ksp":
            run_app_stream(chk)
            if chk.broken_obligation:
                chk.violation("broken-obligation", "proofs", {"obligations": chk.broken_obligation}, "does not check", "Qed",
                              found=False, key="obligation")
            return
    binp = vf.build_harness("c13")
    if chk.replay:
        import json
        if json.load(open(chk.replay)).get("stream") == "sim":
            run_sim_stream(chk, binp)
            return
    n = 1200 if chk.tier == "quick" else 25000
    if not chk.replay:
        # corpus witnesses first, so the KNOWN-FINDING line is printed on every run
        for f in sorted(glob.glob(os.path.join(vf.ROOT, "corpus", "C13", "*.json"))):
            name = os.path.basename(f)[:-5]
            rc = vf.run_stream(binp, "ksp", 1, chk.seed, os.path.join(chk.outdir, "corpus_" + name), shards=1, replay=f)
            skip_ties(rc)
            chk.coverage["streams"].setdefault("corpus", {"cases": 0, "rule": "corpus/C13/*.json replayed"})["cases"] += 1
            vf.compare(chk, rc, classify=classify, binpath=binp, stream_label="corpus:" + name)
    r = vf.run_stream(binp, "ksp", n, chk.seed, os.path.join(chk.outdir, "ksp"), replay=chk.replay)
    nt = skip_ties(r)
    r.stats.setdefault("hist", {})["model_TIE_skipped"] = nt
    chk.add_stream(r, RULE)
    vf.compare(chk, r, classify=classify, binpath=binp)
    if not chk.replay:
        run_sim_stream(chk, binp)
        run_app_stream(chk)
    if chk.broken_obligation:
        chk.violation("broken-obligation", "proofs", {"obligations": chk.broken_obligation}, "does not check", "Qed",
                      found=False, key="obligation")
