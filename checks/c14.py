"""C14: interpolated powertrain predictions stay faithful to the underlying model."""
import glob
import json
import os
from lib import vf

TOL = ("S-line tolerance: 1e-9 * (1 + |min| + |max| of the surrounding table values) (exactly 0 on grid points, where the "
       "checker demands the table value itself). One blend a*(1-d)+b*d costs 4 roundings, a fraction 3, so an n-D "
       "interpolation (n <= 4) accumulates < 60 roundings of relative size 2^-53 on intermediates bounded by the largest "
       "surrounding value: < 1e-14 * max, five orders of magnitude inside the band; every seeded mutation moved the "
       "result by >= 1e-3 relative")
RULE_G = ("generic interpolators: deterministic sweeps (every grid value / midpoint / boundary / outside for 2..9 points in "
          "1-D and 2-D, constructor rejections, single-point axes, NaN table / query) then random non-uniform dyadic grids "
          "(dims 1-4, 2-9 points per axis; dyadic / arbitrary / multi-affine / small-integer / locally constant tables, and "
          "square-cell grids with a + b(x0 - x1) or the saddle x0 + x1 - 2 x0 x1, i.e. non-flat cells whose opposite corners "
          "coincide), 6 queries per case drawn from 14 kinds (incl. on a grid line and one ulp to either side of it); "
          "Interp1D/2D/3D and InterpND built on the same data, Interpolator::interpolate and the direct .linear() compared "
          "bit for bit with the FN model (M line); the S line is the QN checker of Model/InterpRun.v (proved sound in "
          "Props/C14.v section 7) applied to the implementation's outputs: in-range => Ok and within [min,max] of the "
          "surrounding values, exact on grid points, out of range / wrong length => Err, EVERY in-range value within "
          "the band of the exact rational multilinear interpolant of the same table and point (decides multilinear "
          "exactness, border agreement / continuity and mutual agreement on every case), multi-affine table => equal to "
          "the function, ND = specialised; non-trivial = at least one query that is not a plain interior point "
          "(grid line, corner, boundary, outside, wrong length, 1 ulp from the boundary). " + TOL)
RULE_S = ("speed/grade model: the four bundled vehicle models through InterpolationSpeedGradeModel::new or "
          "load_prediction_model(ModelType::Interpolate), all model units, bins 2..9 per axis, 8 queries per case in every "
          "speed/grade unit (inside, grid point, grid line, upper boundary, outside one/both axes, far outside, NaN/inf), all "
          "calls of a case on ONE model instance; SEQUENCE cases (Bolt/Camry deterministic + a third of the random cases): "
          "3-10 calls where consecutive calls re-use the same raw numbers under other speed/grade units, repeat a call, or "
          "keep the units and change the numbers, and every call is also asked of a fresh instance built for it alone "
          "(a difference is printed as HISTORY-DEPENDENT in the I line, so I != S); the M line converts per call; "
          "CONFIG cases: an ICE vehicle built by VehicleBuilder::build from a JSON entry (get_model_record_from_params) for "
          "every speed-unit x grade-unit pair of the declaration, bounds written in the model's units, judged at the "
          "CONFIGURED nodes / bounds through consume_energy over one distance unit; NESTED cases: interpolate over a coarse "
          "interpolate over smartcore, the table expected at the outer nodes is the declared (inner interpolated) model; "
          "CACHE cases (float_cache_policy enabled): key precisions coarser / finer than the grid step, every node must "
          "return the UNCACHED underlying value (the cache must not influence the table); one cached record queried with a "
          "sequence of small negative / positive grades and speeds: each answer is the uncached answer of the first input "
          "with the same round-half-away-from-zero key; "
          "the model's predictor is the underlying random forest sampled by the harness exactly as `new` samples it; "
          "bit-exact with the FN model (M line); S = QN checker: the axes have `bins` increasing points from the lower to "
          "the upper bound, never Err, value at the clamped point between the 4 surrounding underlying values, equal to the "
          "underlying value on grid points and grid lines, and within the band of the exact rational bilinear interpolant "
          "of the sampled table at the clamped point; non-trivial = a query that is not a plain interior point")


def classify(case, i, m, s):
    return None


def run(chk):
    chk.coverage["trusted_base"] = [
        "Coq 8.16.1 kernel + vm_compute + primitive floats (execution of the FN instance only)",
        "hand-written model coq/Model/Interp.v (tied by this correspondence run, bit for bit)",
        "unit conversion of the query and the underlying random forest enter the model as functions whose values "
        "the harness reads from the real code (SpeedUnit::convert, GradeUnit::convert, PredictionModelRecord::predict); "
        "in the theorems they are Section variables (arbitrary functions)",
        "Rust harness harness/src/bin/c14.rs and this driver"]
    chk.assumptions = ["theorems are about exact rational arithmetic (QN); rounding, overflow, NaN are outside them "
                       "(in binary64 the convexity bound can fail by one ulp; the S lines allow 1e-9 relative)",
                       "grids strictly increasing with >= 2 points per axis (what the constructors validate, plus bins >= 2); "
                       "single-point axes (usize underflow panic in the specialised interpolators) are exercised, not claimed",
                       "continuity (global Lipschitz bound, epsilon-delta) is proved for the converted speed/grade: the unit "
                       "conversions are arbitrary functions in the theorems"]
    chk.proofs(extra_targets=["Model/InterpRun.vo"])
    binp = vf.build_harness("c14")
    quick = chk.tier == "quick"
    if _is(chk, "interp"):
        r = vf.run_stream(binp, "interp", 700 if quick else 12000, chk.seed, os.path.join(chk.outdir, "interp"), replay=chk.replay)
        chk.add_stream(r, RULE_G)
        vf.compare(chk, r, classify=classify, binpath=binp)
    if _is(chk, "sg"):
        r2 = vf.run_stream(binp, "sg", 120 if quick else 1500, chk.seed, os.path.join(chk.outdir, "sg"), replay=chk.replay)
        chk.add_stream(r2, RULE_S)
        vf.compare(chk, r2, classify=classify, binpath=binp)
    if not chk.replay:
        # regression corpus: inputs on which seeded mutations of the anchored code were caught
        for k, f in enumerate(sorted(glob.glob(os.path.join(vf.ROOT, "corpus", "C14", "*.json")))):
            stream = json.load(open(f)).get("stream", "interp")
            rc = vf.run_stream(binp, stream, 1, chk.seed, os.path.join(chk.outdir, "corpus%d" % k), replay=f, shards=1)
            vf.compare(chk, rc, classify=classify, binpath=binp, stream_label="corpus/" + os.path.basename(f))
    if chk.broken_obligation:
        chk.violation("broken-obligation", "proofs", {"obligations": chk.broken_obligation}, "does not check", "Qed",
                      found=False, key="obligation")


def _is(chk, stream):
    """a replay file names its stream; without --replay both streams run in full"""
    if not chk.replay:
        return True
    try:
        v = json.load(open(chk.replay))
        return v.get("stream", stream) == stream
    except Exception:
        return True
