"""C14: interpolated powertrain predictions stay faithful to the underlying model."""
import os
from lib import vf

RULE_G = ("generic interpolators: deterministic sweeps (every grid value / midpoint / boundary / outside for 2..9 points, "
          "constructor rejections, single-point axes, NaN) then random non-uniform dyadic grids (dims 1-4, 2-9 points per "
          "axis, dyadic / arbitrary / multilinear tables), 6 queries per case drawn from 12 kinds; Interp1D/2D/3D and "
          "InterpND built on the same data, Interpolator::interpolate and the direct .linear() compared bit for bit with "
          "the FN model; the S line is the QN checker (convexity, exactness on grid points, rejection outside, ND = "
          "specialised) applied to the implementation's outputs; non-trivial = at least one query that is not a plain "
          "interior point (grid line, corner, boundary, outside, wrong length, 1 ulp from the boundary)")
RULE_S = ("speed/grade model: the four bundled vehicle models through InterpolationSpeedGradeModel::new or "
          "load_prediction_model(ModelType::Interpolate), all model units, bins 2..9 per axis, 8 queries per case in every "
          "speed/grade unit (inside, grid point, grid line, upper boundary, outside one/both axes, far outside); the model's "
          "predictor is the underlying random forest sampled by the harness exactly as `new` samples it; bit-exact with the "
          "FN model; S = QN checker: never Err, value at the clamped point between the 4 surrounding underlying values, equal "
          "to the underlying value on grid points; non-trivial = a query that is not a plain interior point")


def classify(case, i, m, s):
    return None


def run(chk):
    chk.coverage["trusted_base"] = [
        "Coq 8.16.1 kernel + vm_compute + primitive floats (execution of the FN instance only)",
        "hand-written model coq/Model/Interp.v (tied by this correspondence run)",
        "unit conversion of the query and the underlying random forest enter the model as functions whose values "
        "the harness reads from the real code (SpeedUnit::convert, GradeUnit::convert, PredictionModelRecord::predict)",
        "Rust harness harness/src/bin/c14.rs and this driver"]
    chk.assumptions = ["theorems are about exact rational arithmetic (QN); rounding, overflow, NaN are outside them",
                       "grids strictly increasing with >= 2 points per axis (what the constructors validate, plus bins >= 2)"]
    chk.proofs(extra_targets=["Model/InterpRun.vo"])
    binp = vf.build_harness("c14")
    quick = chk.tier == "quick"
    if _is(chk, "interp"):
        r = vf.run_stream(binp, "interp", 700 if quick else 12000, chk.seed, os.path.join(chk.outdir, "interp"), replay=chk.replay)
        chk.add_stream(r, RULE_G)
        vf.compare(chk, r, classify=classify, binpath=binp)
    if _is(chk, "sg"):
        r2 = vf.run_stream(binp, "sg", 120 if quick else 1500, chk.seed, os.path.join(chk.outdir, "sg"), replay=chk.replay)
        chk.add_stream(r2, RULE_S)
        vf.compare(chk, r2, classify=classify, binpath=binp)
    if chk.broken_obligation:
        chk.violation("broken-obligation", "proofs", {"obligations": chk.broken_obligation}, "does not check", "Qed",
                      found=False, key="obligation")


def _is(chk, stream):
    """a replay file names its stream; without --replay both streams run in full"""
    if not chk.replay:
        return True
    try:
        import json
        v = json.load(open(chk.replay))
        return v.get("stream", stream) == stream
    except Exception:
        return True
