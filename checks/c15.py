"""C15: the loaded network is exactly the one described by the edge/vertex files."""
import json
import os
from lib import vf

RULE_F = ("edge/vertex lists (0-18 vertices, 0-65 edges, hub vertices so that degrees run from 0 to well above 5, parallel "
          "edges, self loops, isolated vertices) rendered as real CSV files under the stream's data/ directory: plain / gzip "
          "with .gz / gzip WITHOUT .gz, with / without trailing newline, LF / CRLF, shuffled + extra columns in both files (extra column names drawn from plausible aliases / near-misses of the real ones - lon, lat, X, id, src, length ... - holding other numbers, in every position; extra TEXT columns first / middle / last holding CSV-special content: leading '#', ';', quoted fields with commas and quotes, spaces, empty, NaN, 3000-character fields), "
          "padded fields, exponent notation, coordinates as k/4 or (one case in five) as 17-36 digit decimals at / just above / just below the midpoint of two adjacent f32 values, explicit (true / arbitrary) or scanned n_edges / n_vertices; some gzip files are MULTI-MEMBER gzip (2-3 members, `cat a.gz b.gz`, rows split at line boundaries): the unchanged readers use flate2's single-member GzDecoder for BOTH the line count and the rows, so for the loader such a file IS its first member - M and S are given the rows of the first member (later rows absent: adjacency size, vertices and the missing-vertex guard must all agree on that; an edge that reaches a vertex of a later member must fail the load); some cases form a SEQUENCE of 2-3 loads in the one harness process at the SAME two paths, the files rewritten with the other compression / other rows / other sizes, each load judged on its own; loaded through "
          "Graph::from_files or DefaultGraphBuilder::build (the call CompassApp makes); every accessor printed: sizes, "
          "get_edge / get_vertex past the end, out_edges / in_edges, adj / rev through iter() (len / get asserted "
          "consistent), src / dst / incident_vertex, edge_triplet, incident_edges, incident_triplet_ids / _attributes in "
          "both directions, adj-vs-rev same-edge-set verdict. The witnesses in corpus/C15 run first. I = implementation, M = loader model on the C11 container "
          "model, S = specification read off the rows by find / filter; '!DatasetError' (must not load) when an end point is "
          "not a listed vertex; 'unspecified' outside the documented format LD.wf_format. Deterministic families first: star degrees 0..9 x formats, all format x newline combinations, "
          "k parallel edges, k self loops, header-only and zero-byte files, explicit counts, end points out of range, "
          "unsorted / duplicate ids, blank trailing lines, alias-named extra columns at every position, CSV-special text columns, coordinate decimals at f32 midpoints, column / field syntax. Non-trivial = inside the hypotheses and "
          "some vertex has in- or out-degree >= 6; distinct by case")
RULE_T = ("per-edge tables written as files (plain / .gz / gzip without extension, with / without trailing newline, 0-75 rows) "
          "and loaded through the readers the models use: read_raw_file + read_decoders::default::<Speed> (and "
          "SpeedTraversalEngine::new, asserted to hold the same table), ::<Grade>, read_decoders::u8 (road classes), "
          "sequences of loads at the same path with the other compression; from_csv::<EdgeHeading> (with header, half of the cases with an extra first text column of CSV-special content); row i of the loaded table compared with the value written on row i; "
          "multi-member gzip tables (first member only, as for the graph files); one case in eight has an undecodable line (specification: the whole load must fail, no shifted table). Non-trivial = >= 2 rows, all decodable")


RULE_B = ("LARGE files (edge / vertex files around and above 1 MiB on disk: 30k-140k rows, plain and gzip, one case whose "
          "COMPRESSED size exceeds 1 MiB, one ~3 MiB edge file) loaded through Graph::from_files. This stream is decided by "
          "a HARNESS-SIDE specification, not by Coq (evaluating 50k rows in Coq is too slow): the rows are a pure function "
          "of the case parameters; H = digest of what the rows say (rolling hash of (i, id, src, dst, distance bits) in row "
          "order = 'row i is edge i', the same for vertices with f32 coordinate bits, out / in edge lists of EVERY vertex "
          "in row order, sizes, first row whose id is not its index), I = the same digest computed from get_edge(0..n), "
          "get_vertex(0..n), out_edges / in_edges of the loaded graph; a replay names the generated file parameters. "
          "Also LARGE per-edge tables (3000-77000 rows of varying width - 7, 62.50, 120.125 - so that the 8 KiB / 64 KiB "
          "buffer fills of the readers fall inside rows; speed / grade / class through read_raw_file + decoders and "
          "SpeedTraversalEngine::new, headings through from_csv; gzip and plain): H = row count + rolling hash of (i, value) "
          "of the generated list, I = the same of the loaded table + the first row whose value differs")


RULE_G = ("read-back API of the application: SearchAppGraphOps::{get_edge_origin, get_edge_destination, get_edge_distance, "
          "get_incident_edge_ids} on the SearchApp of a CompassApp built through its TOML configuration from generated "
          "edge / vertex files (all file formats / column layouts of the files stream, explicit or scanned counts, edge "
          "lengths 0 m .. 10^9 m); queried for every edge id and vertex id incl. two ids past the end (must be an error / "
          "empty), the length for no unit and for every DistanceUnit. I/M/S = origins, destinations, incident edge ids "
          "(implementation / loader model / read off the file rows); ID/MD = the lengths, bit exact against the model on "
          "binary64; VD = verdict computed in Coq on the IMPLEMENTATION's lengths against the FILE rows: the distance "
          "column is meters, no unit / meters must return it exactly, any other unit within 0.1 % of meters / (exact SI "
          "metres per unit), an id that is not a row must be an error. Non-trivial = at least two edges")


def compare_ops_distances(chk, r, binp=None, extra=()):
    """VD != ok: the implementation's lengths contradict the file rows (a failing input); else ID != MD: the model of the
    conversion is not the code (no failing input)"""
    ID, MD, VD = r.impl.get("ID", {}), r.model.get("MD", {}), r.model.get("VD", {})
    shown = 0
    for cid, case in r.cases.items():
        i, m, v = ID.get(cid), MD.get(cid), VD.get(cid)
        if binp and shown < 3 and ((v is not None and v != "ok") or i != m) and any(x and x.startswith("#") for x in (i, m, v)):
            shown += 1
            try:   # long lines were hashed: re-run this case in full
                fi, fm = vf.expand_case(binp, r.name, case, os.path.join(chk.outdir, "expand_ops"), extra)
                i, m, v = fi.get("ID", i), fm.get("MD", m), fm.get("VD", v)
            except Exception as e:  # noqa
                vf.log("expand failed", e)
        if v is not None and v != "ok":
            chk.violation("impl-counterexample", "graphops", case, i, v,
                          detail="get_edge_distance disagrees with the distance column of the edge file (meters) converted to the requested unit")
        elif not r.errors and (m is None or v is None or i != m):
            chk.violation("broken-correspondence", "graphops", case, i, m,
                          detail="lengths differ from the binary64 model of get_edge_distance; the verdict on the file rows accepts them",
                          found=False, key="corr-graphops-dist")


def compare_big(chk, r):
    """I (implementation digest) against H (digest of the rows, computed by the harness)"""
    I, H = r.impl.get("I", {}), r.impl.get("H", {})
    for e in r.errors:
        chk.violation("broken-correspondence", "big", {"file": e["file"]}, e["error"][-800:], "harness runs",
                      detail="harness failed on this stream", found=False, key="err-big")
    for cid, case in r.cases.items():
        i, h = I.get(cid), H.get(cid)
        if i != h or h is None:
            chk.violation("impl-counterexample", "big", case, i, h,
                          detail="digest of the loaded graph's accessors differs from the digest of the rows written to the files")


def classify(case, i, m, s):
    return None


def _is(chk, stream):
    if not chk.replay:
        return True
    try:
        v = json.load(open(chk.replay))
        return v.get("stream", stream) == stream
    except Exception:
        return True


def run(chk):
    chk.coverage["trusted_base"] = [
        "Coq 8.16.1 kernel + vm_compute",
        "hand-written models coq/Model/Loader.v and coq/Model/CompactMap.v (tied by this correspondence run)",
        "CSV / gzip decoding (csv, flate2), gzip detection and BufRead::lines counting are exercised on real files, not "
        "modelled: a file enters the model as its decoded rows in file order plus its line count, both computed by the "
        "harness from the text it wrote",
        "std::collections::HashMap specified as a finite map with unspecified iteration order (C11)",
        "coq/Gen/UnitTables.v generated from distance_unit.rs by translator/tr_units.py (C09's tie); exact SI metres per "
        "unit (UnitsRun.si_distance) as the physical reference of the 0.1 % band",
        "Rust harness harness/src/bin/c15.rs and this driver"]
    chk.assumptions = [
        "documented input format: the id written on row i of the edge / vertex file is i (ids are used as indices; the "
        "loader stores rows by position and never checks the id)",
        "an explicit n_vertices, when given, is the number of vertex rows (end points: no assumption - a load that "
        "returns Ok has all end points inside the adjacency, an edge list with a dangling end point must fail)",
        "a file is one header line plus one line per row (no blank lines)",
        "distances / coordinates are opaque payloads in the theorems; in the stream a coordinate is specified as the "
        "nearest binary32 (ties to even) of the decimal text, computed exactly in Coq (LoaderRun.round_b32, trusted, "
        "cross-checked against str::parse::<f32> on every run); distances are exercised with exact values k/4"]
    vf.run_translators(which=["units"])     # Model/LoaderOps imports Model/Units -> Gen/UnitTables (generated from the source)
    chk.proofs(extra_targets=["Model/LoaderRun.vo", "Model/LoaderOpsRun.vo"])
    binp = vf.build_harness("c15")
    quick = chk.tier == "quick"
    corpus = ["--corpus", os.path.join(vf.ROOT, "corpus", "C15")]   # witnesses, replayed first in each stream
    if _is(chk, "files"):
        r = vf.run_stream(binp, "files", 600 if quick else 6000, chk.seed, os.path.join(chk.outdir, "files"), extra=corpus, replay=chk.replay)
        chk.add_stream(r, RULE_F)
        vf.compare(chk, r, classify=classify, binpath=binp, extra=corpus)
    if _is(chk, "tables"):
        r2 = vf.run_stream(binp, "tables", 320 if quick else 3000, chk.seed, os.path.join(chk.outdir, "tables"), extra=corpus, replay=chk.replay)
        chk.add_stream(r2, RULE_T)
        vf.compare(chk, r2, classify=classify, binpath=binp, extra=corpus)
    if _is(chk, "graphops"):
        r4 = vf.run_stream(binp, "graphops", 120 if quick else 1200, chk.seed, os.path.join(chk.outdir, "graphops"), extra=corpus, replay=chk.replay)
        chk.add_stream(r4, RULE_G)
        vf.compare(chk, r4, classify=classify, binpath=binp, extra=corpus)
        compare_ops_distances(chk, r4, binp, corpus)
    if _is(chk, "big"):
        r3 = vf.run_stream(binp, "big", 4 if quick else 10, chk.seed, os.path.join(chk.outdir, "big"), extra=corpus, shards=1, replay=chk.replay)
        chk.add_stream(r3, RULE_B)
        compare_big(chk, r3)
    if chk.broken_obligation:
        chk.violation("broken-obligation", "proofs", {"obligations": chk.broken_obligation}, "does not check", "Qed",
                      found=False, key="obligation")
