"""C16: map matching picks the nearest admissible vertex / edge and honours the tolerance; all other
query fields unchanged."""
import json
import os
import shutil

from lib import vf

RULE_VERTEX = (
    "the REAL vertex plugin (VertexRTreeBuilder.build on a vertex CSV written per case) processes one query: "
    "0..130 vertices on the 1/8-degree grid (ids in shuffled order, duplicates allowed), origin and optional "
    "destination on the 1/16 grid inside / on the hull / tens of degrees outside / exactly on a vertex / at the "
    "midpoint of two vertices, tolerance none or (great-circle distance of the nearest vertex) x "
    "{0.5,0.999,1.001,2,0.1,10,0.9,1.1} in every DistanceUnit (and without unit), and x {0.99,0.999,1.001,1.01,1.02} "
    "(exact SI factor into the unit, origin and destination: a conversion constant off by 1-2 % is decided by S), tolerance 0 / negative / the exact "
    "boundary value, high latitudes (squared degrees and great circle disagree), coordinates outside the haversine "
    "range, missing / ill-typed coordinates, non-object queries, stale match keys and up to 4 foreign fields; "
    "one case in three is a SEQUENCE of 2-6 queries processed by ONE plugin instance (same coordinate repeated with / "
    "without destination, interleaved with other coordinates, failures in between), every query judged history-free; "
    "guard families: query points and network vertices at latitude exactly +-90, longitude exactly +-180 and between "
    "170 and 180 degrees (valid: the specification accepts [-180,180] x [-90,90] INCLUSIVE) and one f32 ulp outside (with "
    "a tolerance: model-only, the property is silent); tolerance EXACTLY equal to the distance the real haversine returns "
    "for the nearest element, its next-up and next-down double, in Meters (explicit and default unit; no conversion), "
    "judged by S. CONVENTION AT EQUALITY: 'within tolerance always matches' - a distance EQUAL to the tolerance is a "
    "match (distance <= tolerance), one inclusive rule for BOTH matchers (the vertex matcher used to reject at equality: "
    "D-VERTEX-TOL-EQ, fixed in /repo 11b8064; theorem c16_tolerance_inclusive); "
    "deterministic boundary families first. Compared: outcome + error class + the whole query after processing "
    "(matched ids; on tie cases the matched squared distance instead of the id). "
    "non-trivial = Ok with >= 2 vertices, or Err InputPluginFailed with >= 1 vertex; distinct by full case")
RULE_EDGE = (
    "the REAL edge plugin (EdgeRtreeInputPluginBuilder.build on WKT geometry / road class / vehicle restriction files "
    "written per case) processes one query: 0..313 linestrings (degenerate, horizontal, vertical, two-segment, and "
    "3-6 point hairpins / closed rings / ramp loops / culs-de-sac / L-shapes in 8 orientations whose centroid lies outside "
    "the box of their end points, in networks large enough for internal r-tree nodes) whose geo centroid is exactly on the "
    "1/8-degree grid, queries on / near centroids and end points, road_classes in the query (integers or names through the parser mapping, "
    "unparseable values) excluding the nearest 0..5 edges, vehicle_parameters making the nearest 1..3 edges "
    "inadmissible; restriction files carry 0-3 rows per edge in random order (the excluding row first / in the middle / "
    "last, rows of one edge not contiguous) and an edge is admissible iff the vehicle passes EVERY row written for it "
    "(each row decided by the harness itself: vehicle value and limit brought to SI with exact factors - meters / feet / "
    "inches, kg / pounds / short tons - admitted iff value <= limit, per axle for maximum_weight_per_axle; vehicle and row "
    "units differ in many cases, with a margin > 0.5 %; neither the plugin's restriction-file loader nor "
    "VehicleRestriction::valid is used for the expected value), tolerance around the distance of the "
    "nearest ADMISSIBLE edge in every unit, boundary values, high-latitude cases where the nearer-by-degrees excluded "
    "edge is beyond the tolerance and the admissible one within. Guard families (reference points and queries at lat +-90 / lon +-180 / lon beyond 170, one ulp outside) and tolerance "
    "exactly equal / next-up / next-down of the real distance in Meters as for vertices (distance <= tolerance matches). "
    " REBUILDS: one case can be several STAGES - the geometry / class / restriction files are rewritten in place (same paths, "
    "same row count with other coordinates or edge order; control: another row count) and a NEW plugin is built in the same "
    "process; every stage is judged against the file contents at its build time. VEHICLE PARAMETERS are read on the harness "
    "side exactly as the unchanged VehicleParameters::from_query does (all six fields present and well typed; "
    "number_of_axles any non-negative integer JSON number, narrowed `as u8`): family axle_boundary uses 0, 1, 255, 256, 65536, "
    "u64::MAX (parameters exist: the height / weight rows of the nearest edges must still be enforced; no per-axle row is "
    "used, so the narrowed value does not matter) and -1, 2.5, '5', null, missing (no parameters: no restriction applies). "
    "Family many_inadmissible_nearer: networks of 70-313 edges in which the 0/8/40/63/64/65/100/300 nearest edges are "
    "inadmissible (by class, by vehicle height, mixed) and exactly one farther edge is admissible, with and without a "
    "tolerance it satisfies; random crowded networks (70-130 edges, 80-99 % inadmissible). Two cases in five are SEQUENCES of 2-6 queries on ONE plugin instance: the bit-identical coordinate "
    "repeated with different vehicle parameters / road classes / with and without destination, interleaved with other "
    "coordinates and failing queries, each judged history-free by model and specification. Compared as for vertices. "
    "non-trivial = Ok with >= 2 edges, or Err InputPluginFailed with >= 1 edge; distinct by full case")

def classify(case, i, m, s):
    return None


def run(chk):
    chk.coverage["trusted_base"] = [
        "Coq 8.16.1 kernel + vm_compute",
        "hand-written model coq/Model/MapMatch.v (tied by the two correspondence streams)",
        "rstar::RTree nearest_neighbor / nearest_neighbor_iter: SPECIFIED (returns a minimiser of distance_2 / iterates "
        "nearest first), not verified; exercised through the real plugins on every case",
        "f32 haversine: an oracle (values taken from the real function per case); geo::Centroid of the linestrings: "
        "taken from geo (the harness asserts the centroid is the intended grid point)",
        "SPECIFICATION of a restriction row (harness, row_admits): the vehicle's quantity in SI <= the limit in SI, exact factors "
        "(1 ft = 0.3048 m, 1 in = 0.0254 m, 1 lb = 0.45359237 kg, 1 short ton = 2000 lb); of the query's vehicle parameters "
        "(spec_vehicle_parameters): as the unchanged from_query reads them; VehicleRestriction::valid itself is C04's subject and is "
        "only exercised through the plugin",
        "SPECIFICATION constants: exact SI metres per DistanceUnit (MM.si_m) and the relative band 5e-4 (MM.unit_band) "
        "inside which a distance counts as 'at' the tolerance (left open by the property)",
        "coq/Gen/UnitTables.v regenerated from distance_unit.rs by translator/tr_units.py (checked bit for bit by C09)",
        "translator/tr_haversine.py + translator/rsparse.py (the range guards of haversine_distance_meters, the tolerance table of "
        "RTreePlugin::new / EdgeRtreeInputPlugin::new, the conversion direction and comparison of validate_tolerance / within_tolerance "
        "compiled to coq/Gen/Haversine.v on every run; fails closed; coq/Props/GenHaversine.v proves Model/MapMatch.v equal to them for "
        "all inputs, so a misreading shows up in the vertex / edge streams); the haversine VALUE stays an oracle",
        "Rust harness harness/src/bin/c16.rs and this driver"]
    chk.assumptions = [
        "coordinates are f32-exact and |dx|,|dy| small enough that dx*dx+dy*dy is exact in f32 (multiples of 1/16 degree, "
        "(16dx)^2+(16dy)^2 < 2^24, asserted by the harness): the f32 ranking is the rational ranking",
        "tolerance theorems are about the exact-rational reading of the model text that runs in binary64 next to the code; "
        "the great-circle distance is an arbitrary non-negative function",
        "the road class file has one row per geometry (EdgeRtreeInputPlugin::new rejects anything else); geometries are non-empty",
        "the state of the query after an Err is compared model-vs-code only (the specification says nothing about it)"]

    # Gen/UnitTables.v (conversion constants) comes from the sources of the checkout under test
    tres = vf.run_translators(which=["units"]).get("units", {"ok": False, "msg": "translator tr_units.py missing"})
    tres.pop("parsed", None)
    chk.coverage["translator"] = {k: tres.get(k) for k in ("ok", "msg", "digest")}
    if not tres.get("ok"):
        chk.violation("broken-correspondence", "translator", {"translator": "tr_units", "error": tres.get("msg")},
                      tres.get("msg"), "distance_unit.rs has the shape the translator knows",
                      detail="coq/Gen/UnitTables.v could not be regenerated", found=False, key="translator")
        # keep going with the last table that WAS read from a source the translator understands (the one of the
        # main tree): the model then still runs, and the streams below search for the concrete failing input
        # (the specification side never uses the table: it converts with the exact SI factors)
        dst = os.path.join(vf.COQ, "Gen", "UnitTables.v")
        src = os.path.join(vf.ROOT, "coq", "Gen", "UnitTables.v")
        if not os.path.exists(dst) and os.path.exists(src):
            os.makedirs(os.path.dirname(dst), exist_ok=True)
            shutil.copy(src, dst)
            chk.coverage["translator"]["fallback"] = "last good UnitTables.v of the main tree"

    # JSON-layer theorems print the kernel primitive type `float : Set` (Base/Json.v's JFloat); the driver reports it
    # under kernel_primitives. No primitive float OPERATION is used by any theorem (the reading of a JSON float is the
    # Section parameter fq; Prim2SF appears only in Model/MapMatchRun.v).
    # Gen/Haversine.v: the haversine range guards, the tolerance table of the two constructors and the two tolerance tests
    # are regenerated from the Rust source; Props/GenHaversine.v proves Model/MapMatch.v equal to them for all inputs
    hres = vf.run_translators(which=["haversine"]).get("haversine", {"ok": False, "msg": "translator tr_haversine.py missing"})
    chk.coverage["translator"]["haversine"] = {k: hres.get(k) for k in ("ok", "msg", "digest", "files", "changed")}
    if not hres.get("ok"):
        chk.violation("broken-correspondence", "translator", {"translator": "tr_haversine", "error": hres.get("msg")},
                      hres.get("msg"), "util/geo/haversine.rs, vertex_rtree/plugin.rs and edge_rtree/edge_rtree_input_plugin.rs have the "
                      "shape the translator knows (fail closed)",
                      detail="coq/Gen/Haversine.v could not be regenerated; the previous definitions (if any) are used below",
                      found=False, key="translator-haversine")
    chk.proofs(extra_targets=["Model/MapMatchRun.vo"], extra_props=["Props/GenHaversine.v"])

    binp = vf.build_harness("c16")
    quick = chk.tier == "quick"
    only = None
    if chk.replay:
        try:
            only = json.load(open(chk.replay)).get("stream")
        except Exception:  # noqa
            only = None
        if only not in ("vertex", "edge"):
            only = "vertex"
    for stream, n, rule in (("vertex", 600 if quick else 6000, RULE_VERTEX), ("edge", 900 if quick else 6000, RULE_EDGE)):
        if only not in (None, stream):
            continue
        r = vf.run_stream(binp, stream, n, chk.seed, os.path.join(chk.outdir, stream), replay=chk.replay)
        chk.add_stream(r, rule)
        vf.compare(chk, r, classify=classify, binpath=binp)

    if chk.broken_obligation:
        chk.violation("broken-obligation", "proofs", {"obligations": chk.broken_obligation}, "does not check", "Qed",
                      found=False, key="obligation")
