"""C17: grid search expands a query into exactly the Cartesian product of its options."""
import json
import os
from lib import vf

RULE_GRID = ("query objects run through the real apply_input_plugins with the grid_search plugin built by "
             "CompassAppBuilder (1 or 2 times in the chain): deterministic families first (0-5 fields all of one option; "
             "a one-option field at every position among longer ones; object options overwriting a base field or another "
             "field's name; scalar-only/empty sections; every key order; rejected sections; non-object queries; extra fields "
             "named like the grid key (grid_search_id, _grid_search, GRID_SEARCH, grid ...); plugin chains "
             "[grid_search, stub plugin adding a grid section to the queries matching a predicate, grid_search, ...] so that "
             "multi-element query states with the expanding element at any position reach json_array_op / flatten), then "
             "random queries (1-5 array fields of 1-6 options, scalars/objects/mixtures, extra fields incl. grid-key-like "
             "names, name clashes; 1 in 5 a random 2-5 plugin chain with the stub). "
             "I = produced queries in order, objects key-sorted; M = Coq model GS.run_stages. "
             "non-trivial = accepted expansion with >=1 array field and (>=2 combinations or an object option); distinct by query text")
RULE_SET = ("the same cases; I = produced queries as a sorted list of texts (a multiset), S = specification GS.spec_stages "
            "(per grid stage every query replaced by its Cartesian product built by direct recursion, no MultiSet, no indices) sorted by the verified stdlib merge sort, "
            "M = the model's result sorted; output-side clause decided in Coq on EVERY successful implementation result (from "
            "its top-level key lists embedded in the S term): when the chain ends with the grid search no produced query has "
            "a grid_search key, else S reads as a violation; cases outside the property's domain (rejected sections, non-object queries) "
            "print S = unspecified and are compared with M only")


RULE_MSET = ("MultiSet used directly: families of 0-5 integer sets of 0-6 elements (empty family, an empty set / a one-element "
             "set / one long set at every position, duplicates) then random families; I = collected vectors in order, "
             "M = MS.to_vec; non-trivial = >=2 sets and >=2 combinations")


RULE_BIG = ("large products through the real apply_input_plugins: field lengths whose product is just below / at / above "
            "1000, 1024, 4096, 10000, 10001, 16384, 65536 (binary fields, two long fields, one-option fields between, "
            "object options on the last field) plus random shapes near these; decided by COUNT and DIGEST only: "
            "I = number of produced queries + sum and xor of a 64-bit hash of each query's canonical text; "
            "S = the count computed in Coq as the product of the field lengths (theorem grid_count instance) + the same "
            "digest of the expected queries, which the harness builds by enumerating the product itself "
            "(harness-side specification, independent of the plugin; not evaluated in Coq)")


RULE_BIND = ("batches of 0-4 queries as JSON strings through CompassAppBindings::from_config_toml_string / run_queries (a wrapper "
             "struct implementing the trait as routee-compass-py does) on a 3x3 street grid app whose configuration enables "
             "grid_search; queries without a section and with 0-, 1-, 2-, 3-dimensional grid sections (scalar / object options, "
             "options that change the destination), JSON strings out; I = number of responses + sorted multiset of the request "
             "echo of every response; S = Coq: concatenation of GS.spec over the batch (one response per expanded query), sorted; "
             "non-trivial = some query of the batch has >=1 array field")


def classify(case, i, m, s):
    return None


def run(chk):
    chk.coverage["trusted_base"] = [
        "Coq 8.16.1 kernel + vm_compute",
        "translator/tr_gridsearch.py + translator/rsparse.py (the InputField::to_str table, the field GridSearchPlugin reads and removes, "
        "the recursion-guard text, its error exits and the constructor MultiSet::from compiled to coq/Gen/GridSearchConsts.v on every run; "
        "fails closed; coq/Props/GenGridSearch.v proves GS.grid_key and MS.from equal to them); the loops of process and MultiSet::next "
        "stay hand-modelled",
        "hand-written models coq/Model/MultiSet.v, coq/Model/GridSearch.v (tied by the correspondence streams of this run)",
        "serde_json Value/Map semantics as written in coq/Base/Json.v (insertion-ordered objects with unique keys; "
        "insert = replace in place or append; object equality ignores key order)",
        "serde_json::to_string(section).contains(\"grid_search\") modelled as: some key or string value in the section contains the text",
        "conversion Json.json <-> GS.value float in coq/Model/GridSearchRun.v (the model's JSON type is Base/Json.v's "
        "made polymorphic in the float carrier, so that the theorems do not mention the primitive float type)",
        "Rust harness harness/src/bin/c17.rs and this driver"]
    chk.assumptions = [
        "the query is a JSON object with unique keys (serde_json::Map invariant)",
        "the grid section is an object whose strings do not contain the text grid_search (otherwise the plugin rejects the query)",
        "every array-valued field of the section has at least one option (otherwise the plugin rejects the query)",
        "scalar_under_key / object_merged: stated for the last writer of a name (later fields win a name clash)"]
    # Gen/GridSearchConsts.v: the InputField::to_str table, the field the plugin reads / removes, the recursion-guard text, the error
    # exits and MultiSet::from are regenerated from the Rust source; Props/GenGridSearch.v proves the models equal to them
    gres = vf.run_translators(which=["gridsearch"]).get("gridsearch", {"ok": False, "msg": "translator module tr_gridsearch.py missing"})
    chk.coverage.setdefault("translator", {})["gridsearch"] = {k: gres.get(k) for k in ("ok", "msg", "digest", "files", "changed")}
    if not gres.get("ok"):
        chk.violation("broken-correspondence", "translator", {"translator": "tr_gridsearch", "error": gres.get("msg")}, gres.get("msg"),
                      "plugin/input/{input_field,input_json_extensions}.rs, grid_search/plugin.rs and util/multiset.rs have the shape the "
                      "translator knows (fail closed)",
                      detail="coq/Gen/GridSearchConsts.v could not be regenerated; the previous definitions (if any) are used below",
                      found=False, key="translator-gridsearch")
    chk.proofs(extra_targets=["Model/GridSearchRun.vo"], extra_props=["Props/GenGridSearch.v"])
    binp = vf.build_harness("c17")
    # a replay file names its stream: a MultiSet case is replayed on stream mset only, a query on grid + gridset
    replay_stream = None
    if chk.replay:
        try:
            case = json.load(open(chk.replay)).get("case", {})
            replay_stream = ("mset" if "sets" in case else "gridbig" if "lens" in case else
                             "bindings" if "batch" in case else "grid")
        except Exception:  # noqa
            replay_stream = "grid"
    n = 800 if chk.tier == "quick" else 12000
    # corpus: minimised witnesses (fixed defect D-GRID0, one failing query per mutation tried) run first
    corpus = os.path.join(vf.ROOT, "corpus", "C17", "witnesses.json")
    if not chk.replay and os.path.exists(corpus):
        for stream in ("grid", "gridset"):
            rc = vf.run_stream(binp, stream, 1, chk.seed, os.path.join(chk.outdir, "corpus_" + stream), shards=1, replay=corpus)
            chk.coverage["streams"]["corpus:" + stream] = {"cases": rc.stats.get("cases", 0), "rule": "corpus/C17/witnesses.json replayed"}
            vf.compare(chk, rc, spec_tag=("S" if stream == "gridset" else "-"), classify=classify, binpath=binp,
                       stream_label="corpus:" + stream)
    if not chk.replay and os.path.exists(corpus):
        rc = vf.run_stream(binp, "bindings", 1, chk.seed, os.path.join(chk.outdir, "corpus_bindings"), shards=1, replay=corpus)
        chk.coverage["streams"]["corpus:bindings"] = {"cases": rc.stats.get("cases", 0), "rule": "corpus/C17/witnesses.json (batch cases) replayed"}
        vf.compare(chk, rc, model_tag="S", classify=classify, binpath=binp, stream_label="corpus:bindings")
    if replay_stream in (None, "bindings"):
        rq = vf.run_stream(binp, "bindings", 60 if chk.tier == "quick" else 600, chk.seed, os.path.join(chk.outdir, "bindings"),
                           replay=chk.replay)
        chk.add_stream(rq, RULE_BIND)
        vf.compare(chk, rq, model_tag="S", classify=classify, binpath=binp)
    if replay_stream == "bindings":
        return finish(chk)
    if replay_stream in (None, "gridbig"):
        rb = vf.run_stream(binp, "gridbig", 30 if chk.tier == "quick" else 120, chk.seed, os.path.join(chk.outdir, "gridbig"),
                           replay=chk.replay)
        chk.add_stream(rb, RULE_BIG)
        vf.compare(chk, rb, model_tag="S", classify=classify, binpath=binp)
    if replay_stream == "gridbig":
        return finish(chk)
    if replay_stream != "grid":
        r0 = vf.run_stream(binp, "mset", n // 4, chk.seed, os.path.join(chk.outdir, "mset"), replay=chk.replay)
        chk.add_stream(r0, RULE_MSET)
        vf.compare(chk, r0, spec_tag="-", classify=classify, binpath=binp)
    if replay_stream == "mset":
        return finish(chk)
    r1 = vf.run_stream(binp, "grid", n, chk.seed, os.path.join(chk.outdir, "grid"), replay=chk.replay)
    chk.add_stream(r1, RULE_GRID)
    vf.compare(chk, r1, spec_tag="-", classify=classify, binpath=binp)
    r2 = vf.run_stream(binp, "gridset", n, chk.seed, os.path.join(chk.outdir, "gridset"), replay=chk.replay)
    chk.add_stream(r2, RULE_SET)
    vf.compare(chk, r2, classify=classify, binpath=binp)
    finish(chk)


def finish(chk):
    if chk.broken_obligation:
        # a proof obligation no longer checks: the streams above were the search for a failing input
        chk.violation("broken-obligation", "proofs", {"obligations": chk.broken_obligation}, "does not check", "Qed",
                      found=False, key="obligation")
