"""C18: strongly connected components are exactly the mutual-reachability classes; partition; largest is maximal."""
import os
from lib import vf

RULE = ("real Graphs (adj/rev filled as edge_loader.rs does, every 25th random case and a fixed family through "
        "Graph::from_files): ALL digraphs on <=3 vertices (thorough: <=4) without parallel edges incl. self loops, "
        "deterministic chains / cycles / chains of cycles / stars of degree >5 / complete graphs / parallel edges / "
        "isolated vertices, then random graphs (sparse, dense, chain with back edges, planted components, hubs, "
        "nested cycles, multigraphs; up to 40 vertices quick, 80 thorough (deterministic chains/cycles up to 200), random relabelling and edge order). "
        "I = canonical components + largest of all_strongly_connected_componenets / largest_strongly_connected_component, "
        "M = the same from the Coq model, S = verified checker check_scc/check_largest on the implementation's raw output; "
        "non-trivial = at least one component of size >=2 and at least 2 components; distinct by (n, edge list)")


def classify(case, i, m, s):
    return None


def run(chk):
    chk.coverage["trusted_base"] = [
        "Coq 8.16.1 kernel + vm_compute",
        "hand-written model coq/Model/Scc.v of scc.rs (proved correct for every well-formed digraph: Props/C18.v "
        "c18_kosaraju_correct / c18_largest_maximal; tied to the Rust code by this correspondence run, I = M); "
        "Graph::out_edges/in_edges order = edge id order (insertion order of CompactOrderedHashMap, property C11)",
        "HashSet<VertexId> used only through contains/insert/clear, modelled as a list",
        "the S lines do not depend on the model: check_scc/check_largest (proved to accept exactly the correct answers, "
        "c18_check_scc_decides) are evaluated in Coq on the implementation's raw output",
        "Rust harness harness/src/bin/c18.rs and this driver"]
    chk.assumptions = ["the graph is a digraph proper: every edge endpoint is an existing vertex (Scc.wf); "
                       "Graph::from_files refuses an edge list with a dangling endpoint (family dangling_endpoint_from_files: "
                       "I = M = S = LoadErr, decided from wfb); a Graph assembled directly with a dangling endpoint is "
                       "outside the property (family dangling_endpoint, compared with the model only)",
                       "recursion depth of depth_first_search (<= number of vertices) fits the thread stack"]
    chk.proofs(extra_targets=["Model/SccRun.vo"])
    binp = vf.build_harness("c18")
    thorough = chk.tier != "quick"
    n = 4000 if thorough else 350
    extra = ["--exh4"] if thorough else []
    r = vf.run_stream(binp, "scc", n, chk.seed, os.path.join(chk.outdir, "scc"), extra=extra, replay=chk.replay)
    chk.add_stream(r, RULE)
    ncorr, nprop = vf.compare(chk, r, classify=classify, binpath=binp, extra=extra)
    if chk.broken_obligation:
        chk.violation("broken-obligation", "proofs", {"obligations": chk.broken_obligation}, "does not check", "Qed",
                      found=False, key="obligation")
