"""C18: strongly connected components are exactly the mutual-reachability classes; partition; largest is maximal."""
import glob
import os
from lib import vf

RULE = ("real Graphs (adj/rev filled as edge_loader.rs does, every 25th random case and a fixed family through "
        "Graph::from_files): ALL digraphs on <=3 vertices (thorough: <=4) without parallel edges incl. self loops, "
        "deterministic chains / cycles / chains of cycles / stars of degree >5 / complete graphs / parallel edges / "
        "isolated vertices, then random graphs (sparse, dense, chain with back edges, planted components, hubs, "
        "nested cycles, multigraphs; up to 40 vertices quick, 80 thorough (deterministic chains/cycles up to 200), random relabelling and edge order). "
        "Family deep (14 cases quick, 52 thorough): one-way rings and chains in both numberings, two-way chains, rings joined by "
        "one-way links, lollipops, a roundabout with a long loop road, two-way rings with one-way stretches, 4500..20000 vertices "
        "(sizes by seed; ring/chain 6000 and loop road 5003 always), and chain / ring / two-way chain of 9000 and 40000 (thorough: "
        "also 300000) vertices, structured numbering. Every deep case runs the implementation on an ORDINARY 2 MiB thread stack in "
        "a child process; a child that dies gives I = ABORT(stack overflow or crash) against S = an accepted Ok result: these "
        "cases are what guards the fixed defect D-SCC-STACK (recursive searches aborted the process from 8713 vertices on a 2 MiB "
        "thread, 34927 on the main thread). For this family the nat model and check_scc cannot be evaluated (unary numerals): "
        "I = number of components + length of largest, M only echoes that summary from the output embedded in the term (NO model "
        "evaluation), S = the verified near-linear checker SccDeep.deep_check/check_largest (c18_deep_check_sound) on the "
        "implementation's output, run-length encoded by the harness and listed in a certificate order (topological order of the "
        "condensation, computed by the harness, only checked in Coq). "
        "Family loaded (46 cases quick, 406 thorough): generated edge lists (the ring with a connector of length 0, small random "
        "graphs of all the random kinds, <=14 vertices) written to edges.csv/vertices.csv with a distance column drawn from "
        "{0.0, 1e-9, 0.01, 1.0, 123.456} and read back through Graph::from_files, judged like every other case by check_scc on the "
        "EDGE LIST of the file (not on the loaded adjacency): connectivity must not depend on the length of an edge. "
        "The loaded cases also pass explicit n_edges hints to Graph::from_files (exact, larger, smaller by one, half, 0, none): the "
        "unchanged loader uses the hint only for its progress bar, every row of the file must be loaded whatever the hint. "
        "Family sequence (34 cases quick, 304 thorough): 2-4 analyses in a row on ONE fresh thread (all_strongly_connected_componenets "
        "then largest_strongly_connected_component per step), usually with a failing step first or in the middle (a Graph value "
        "whose adjacency names an edge id missing from the edge table, or an edge list file whose ids are numbered from 1: loads, "
        "then EdgeNotFound), then valid graphs over overlapping vertex ids; I / M / S join the per-step payloads, every valid step "
        "judged by check_scc/check_largest for its own graph, a failing step specified as Err EdgeNotFound: no state may survive a "
        "call, successful or not. "
        "Other families: I = canonical components + largest of all_strongly_connected_componenets / largest_strongly_connected_component, "
        "M = the same from the Coq model, S = verified checker check_scc/check_largest on the implementation's raw output; "
        "non-trivial = at least one component of size >=2 and at least 2 components; distinct by (n, edge list)")


def classify(case, i, m, s):
    return None


def run(chk):
    chk.coverage["trusted_base"] = [
        "Coq 8.16.1 kernel + vm_compute",
        "hand-written model coq/Model/Scc.v of scc.rs (proved correct for every well-formed digraph: Props/C18.v "
        "c18_kosaraju_correct / c18_largest_maximal; tied to the Rust code by this correspondence run, I = M); "
        "Graph::out_edges/in_edges order = edge id order (insertion order of CompactOrderedHashMap, property C11)",
        "HashSet<VertexId> used only through contains/insert/clear, modelled as a list",
        "the S lines do not depend on the model: check_scc/check_largest (proved to accept exactly the correct answers, "
        "c18_check_scc_decides) are evaluated in Coq on the implementation's raw output",
        "deep family: run-length encoding of the implementation's output and of the edge list by the harness, decoding in "
        "coq/Model/SccDeepRun.v",
        "Rust harness harness/src/bin/c18.rs and this driver"]
    chk.assumptions = ["the graph is a digraph proper: every edge endpoint is an existing vertex (Scc.wf); "
                       "Graph::from_files refuses an edge list with a dangling endpoint (family dangling_endpoint_from_files: "
                       "I = M = S = LoadErr, decided from wfb); a Graph assembled directly with a dangling endpoint is "
                       "outside the property (family dangling_endpoint, compared with the model only)",
                       "none on the stack any more: since /repo 5cf0f14 the searches keep explicit frames; the deep family runs them on an "
                       "ordinary 2 MiB thread stack up to 40000 (thorough 300000) vertices and reports an aborted child process "
                       "(fixed defect D-SCC-STACK: the recursive version aborted from 8713 vertices on such a thread)"]
    chk.proofs(extra_targets=["Model/SccRun.vo"], extra_props=["Props/SccUnique.v"])
    binp = vf.build_harness("c18")
    thorough = chk.tier != "quick"
    n = 4000 if thorough else 350
    extra = ["--exh4"] if thorough else []
    if not chk.replay:
        # witnesses of the seeded change C18-9 and of the mutations tried, replayed first
        for f in sorted(glob.glob(os.path.join(vf.ROOT, "corpus", "C18", "*.json"))):
            name = os.path.basename(f)[:-5]
            rc = vf.run_stream(binp, "scc", 1, chk.seed, os.path.join(chk.outdir, "corpus_" + name), shards=1, replay=f)
            rc.name = "scc"
            chk.coverage["streams"].setdefault("corpus", {"cases": 0, "rule": "corpus/C18/*.json replayed (full payloads)"})["cases"] += 1
            vf.compare(chk, rc, classify=classify, binpath=binp, stream_label="corpus:" + name)
    r = vf.run_stream(binp, "scc", n, chk.seed, os.path.join(chk.outdir, "scc"), extra=extra, replay=chk.replay)
    chk.add_stream(r, RULE)
    ncorr, nprop = vf.compare(chk, r, classify=classify, binpath=binp, extra=extra)
    if chk.broken_obligation:
        chk.violation("broken-obligation", "proofs", {"obligations": chk.broken_obligation}, "does not check", "Qed",
                      found=False, key="obligation")
