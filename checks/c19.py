"""C19: the output file holds one intact record per response under any parallelism."""
import os
from lib import vf

RULE_FMT = ("real ResponseOutputFormat (deserialised from a configuration document, duplicate keys and key order "
            "preserved) on generated responses: CompassApp-shaped objects with/without error and csv_error, arbitrary "
            "nested JSON, null and non-object responses; strings with quotes, commas, line breaks, control bytes, "
            "non-ASCII; u64/i64 extremes, arbitrary finite f64; mappings with paths (existing, missing, through "
            "non-objects, empty; keys containing '/', '~', '~0', '~1', numeric keys under objects and under arrays), Sum (empty, "
            "nested, mixed, overflowing), Optional; header names with commas, quotes, line breaks. I = initial/final file contents, row, returned response (canonical JSON text) + verdicts of "
            "real readers (exact JSON reader: record parses back; csv crate: header names = configured columns, field i = "
            "cell SPECIFIED for the mapping under header name i - a dot-separated path of literal object keys, no pointer syntax, no array "
            "index, Sum/Optional as documented (spec_value in the harness, SK.spec_value in Coq); error entry = exactly the failing columns; "
            "response keeps its content); M = the same from the Coq model bit for bit (ryu / Display float text is a "
            "per-case oracle table); S = the implementation's output echoed with all verdicts required T, the JSON-lines "
            "row additionally read back by the verified reader of Model/SinkJson.v, cols / errs decided in Coq by SK.spec_value on the real row. non-trivial = CSV row with >=2 columns where at least one mapping fails and one "
            "field is non-empty, or a JSON record with an escaped string or a float; distinct by (format, response)")
RULE_SINK = ("a real ResponseSink::File built by ResponseOutputPolicy::build from a deserialised policy document "
             "(json lines, csv sorted/unsorted with a Sum and Optional columns), written by 1..16 OS threads (std "
             "threads released by a barrier, or a rayon pool with more chunks than threads as CompassApp does) with "
             "1..500 responses, small / mixed / ~100 kB records, flush rates None, 1..n+1, 0, negative, 2^40, i64::MAX (a rate that is not "
             "positive may be refused when the sink is built - then nothing is written - or else every record must be there), 1..3 successive "
             "builds appending to the same file, pre-existing files, identical responses. The H1 trace "
             "(take_sink_trace) with the per-thread queues is fed to the model's acceptor; M = digest of the file "
             "the model replays from the trace + order of the records, I = digest of the real file + order found by "
             "reading it back with real readers (line split + exact JSON reader; csv crate) + ok=T iff the bytes "
             "after the header / previous content are exactly one record per response, each parsing back to its "
             "response (CSV: fields = mapping values in header order); S = I's observation with ok=T required. "
             "bulk family (16 threads x 100 kB x 160): real readers only. REAL interleavings are EXPLORED (the "
             "histogram lists lock hand-overs between threads); ALL interleavings of the model are covered by the "
             "theorems. non-trivial = >=2 OS threads wrote and the lock changed hands >=2 times; distinct by parameters")
RULE_APP = ("CompassApp::run on the speeds_test network with file output configured in the run configuration: batches "
            "of valid / unreachable / unknown-vertex / ill-typed-weight queries, parallelism 1..16, both persistence "
            "policies, json lines and csv, 1..2 runs on the same file; I = record count, records vs returned "
            "responses (persist) or vs queries (discard), H1 trace accepted by the model with the rows read from "
            "the file; non-trivial = >=2 responses of different kinds")


def classify(case, i, m, s):
    return None


def run(chk):
    chk.coverage["trusted_base"] = [
        "Coq 8.16.1 kernel + vm_compute",
        "hand-written model coq/Model/Sink.v (tied by this correspondence run)",
        "translator/tr_sinkformat.py + translator/rsparse.py (header / footer / delimiter strings of json, ndjson and csv, the CSV key "
        "orders, separators, quoting rule, empty-row and failed-cell texts, error keys, the writeln! record template, counter step, flush "
        "rule, header default, write mode and flush-rate table compiled to coq/Gen/SinkFormat.v on every run; fails closed; "
        "coq/Props/GenSinkFormat.v proves Model/Sink.v equal to its restatement over them, so a misreading shows up in the fmt / csv / "
        "sink streams)",
        "std::sync::Mutex (mutual exclusion, modelled as the lock of the step relation), File::write/O_APPEND "
        "(each write call appends its bytes at the end; the trace records the byte count each call returned)",
        "hook H1 in response_sink.rs (cfg compass_verif): events are recorded while the file lock is held",
        "ryu / Display decimal text of f64 (per-case oracle table; everything around it is modelled)",
        "serde deserialisation of the policy/format documents, ordered_hash_map iteration order (modelled, tied by the fmt stream)",
        "readers used for the S verdicts: an exact JSON reader in the harness and the verified reader Model/SinkJson.v; "
        "the csv crate (its field rules are modelled by SK.csv_read, for which the write/read round trip is proved)",
        "Rust harness harness/src/bin/c19.rs and this driver"]
    chk.assumptions = [
        "responses are JSON objects (CompassApp always produces objects; null works too): for another JSON value a "
        "failing CSV mapping panics inside write_response (modelled as Panic, compared with the model only)",
        "no other process writes to the output file, no crash in the middle of a write (write(2) atomicity, "
        "durability and Mutex are trusted, not modelled)",
        "CSV header: the configured column names are not a single empty name (a blank header line is skipped by readers)",
        "serde_json's default float parser (feature float_roundtrip off, as in /repo) is off by one ulp on some 17-digit "
        "texts: 'parses back' is judged with a correctly rounding reader; the records themselves are exact"]
    # Gen/SinkFormat.v: delimiters, header / footer texts, newline conventions, CSV quoting, key orders, error keys, the record
    # template, the flush rule and the flush-rate table are regenerated from the Rust source; Props/GenSinkFormat.v proves
    # Model/Sink.v equal to its restatement over them, for all inputs
    tres = vf.run_translators(which=["sinkformat"]).get("sinkformat", {"ok": False, "msg": "translator module tr_sinkformat.py missing"})
    chk.coverage["translator"] = {"sinkformat": {k: tres.get(k) for k in ("ok", "msg", "digest", "files", "changed")}}
    if not tres.get("ok"):
        chk.violation("broken-correspondence", "translator", {"translator": "tr_sinkformat", "error": tres.get("msg")},
                      tres.get("msg"), "app/compass/response/{response_output_format_json,response_output_format,response_sink,write_mode,"
                      "response_output_policy}.rs have the shape the translator knows (fail closed)",
                      detail="coq/Gen/SinkFormat.v could not be regenerated; the previous constants (if any) are used below",
                      found=False, key="translator-sinkformat")
    chk.proofs(extra_targets=["Model/SinkRun.vo"], extra_props=["Props/GenSinkFormat.v"])
    binp = vf.build_harness("c19")
    thorough = chk.tier != "quick"
    only = replay_stream(chk)
    if not chk.replay:
        corpus(chk, binp)
    for stream, n, rule in (("fmt", 6000 if thorough else 600, RULE_FMT),
                            ("sink", 900 if thorough else 170, RULE_SINK),
                            ("app", 800 if thorough else 200, RULE_APP)):
        if only and only != stream:
            continue
        r = vf.run_stream(binp, stream, n, chk.seed, os.path.join(chk.outdir, stream), replay=chk.replay)
        chk.add_stream(r, rule)
        vf.compare(chk, r, classify=classify, binpath=binp)
    if chk.broken_obligation:
        chk.violation("broken-obligation", "proofs", {"obligations": chk.broken_obligation}, "does not check", "Qed",
                      found=False, key="obligation")


def corpus(chk, binp):
    """corpus/C19/*.json (witnesses of the defects found and of the mutations) replayed first, one batch per stream"""
    import glob
    import json
    by = {}
    for f in sorted(glob.glob(os.path.join(vf.ROOT, "corpus", "C19", "*.json"))):
        v = json.load(open(f))
        c = v["case"]
        c["corpus"] = os.path.basename(f)[:-5]
        by.setdefault(v.get("stream", "fmt"), []).append(c)
    for stream, cases in sorted(by.items()):
        cdir = os.path.join(chk.outdir, "corpus_" + stream)
        os.makedirs(cdir, exist_ok=True)
        cf_ = os.path.join(cdir, "corpus_cases.json")
        json.dump({"cases": cases}, open(cf_, "w"))
        rc = vf.run_stream(binp, stream, len(cases), chk.seed, os.path.join(cdir, "run"), shards=2, replay=cf_)
        chk.coverage["streams"]["corpus_" + stream] = {"cases": len(cases), "rule": "corpus/C19/*.json replayed (full payloads)",
                                                       "hist": rc.stats.get("hist", {}), "distinct_nontrivial": 0}
        chk.coverage["evaluations"] += len(cases)
        vf.compare(chk, rc, classify=classify, binpath=binp, stream_label="corpus_" + stream)


def replay_stream(chk):
    """the stream a replay file belongs to (None: no replay requested)"""
    if not chk.replay:
        return None
    try:
        import json
        return json.load(open(chk.replay)).get("stream") or "fmt"
    except Exception:  # noqa
        return "fmt"
