"""C20: every output format renders the same route, geometry in edge order; missing geometry is an error;
one tree entry per branch; identifiers are the rows of the matched vertices; summary counters."""
import os
from lib import vf

RULE = ("one case = geometry file (plain/gzip, 0-40 rows, linestrings of 0-6 points, optionally an unparsable row; coordinates "
        "either on the k/8 grid or f32 values that need more than six decimals - k/2^m with m <= 20 and |value| < 8, 1e-7, "
        "2^-24, 0.1f32, -0.30000001 ... - written with shortest round-trip text and compared by f32 bit pattern after "
        "re-parsing geo_json / wkt / wkb), "
        "identifier file (raw text: blank / whitespace-only rows at the start, middle, end, rows with surrounding spaces, "
        "duplicates, LF or CRLF, terminated or not, plain/gzip; the model splits the text like BufRead::lines, the "
        "specification says row i = vertex i), request, 0-3 routes of 0-30 edges and 0-3 trees of 0-60 branches (or a failed search), run "
        "through the real plugin builders and apply_output_processing once per chain: [traversal(f,f)] for each of the "
        "five formats, [summary], [uuid], one random full chain, plus every plugin called directly on a failed search, plus the number of entries per "
        "tree under each of the five formats (S: equal to the number of branches under every format); costs include zero, "
        "negative zero, +-1e-10 and cancelling access/traversal pairs (zero-cost root branch of edge-oriented trees); "
        "the responses are re-parsed with serde_json/geojson/wkt/wkb into id lists, records, coordinate lists (trees as "
        "sorted multisets) and compared with the model's (M) and with the specification's (S: map/flat_map/nth over the "
        "raw route, tree and tables); deterministic boundary families first (route lengths 1..30 with descending ids, "
        "repeated edges, a missing geometry at every position, degenerate linestrings, 0/2/3 routes and trees, shared "
        "tree edges, identifier positions, identifier files with blank rows queried at and after the blank row, ill-typed requests, unparsable rows, every plugin order). non-trivial = some "
        "route has >= 2 edges with distinct stored geometries, or a tree has >= 2 branches, or an edge has no stored "
        "geometry / a route is empty / a file row does not parse / an ordinate needs more than six decimals / the origin or destination index lies at or after a "
        "blank identifier row that precedes an identifier; distinct by case")


def classify(case, i, m, s):
    return None


def run(chk):
    chk.coverage["trusted_base"] = [
        "Coq 8.16.1 kernel + vm_compute",
        "translator/tr_outputformat.py + translator/rsparse.py + translator/rsmonad.py (TraversalOutputFormat and the dispatch of "
        "generate_route_output / generate_tree_output compiled to coq/Gen/TraversalOutput.v on every run; fails closed; "
        "coq/Props/GenOutputFormat.v proves Model/Output.v's generate_* equal to it under the model's reading of the operations it "
        "calls, so a misreading shows up in the output stream); traversal_ops.rs and the wkt / wkb / serde printers stay hand-modelled",
        "hand-written model coq/Model/Output.v (tied by this correspondence run)",
        "the wkt / wkb / geojson / serde_json encoders and flate2: round-tripped by the harness (encode in the plugin, "
        "decode with the same crates), not modelled",
        "std::collections::HashMap specified as a finite map with unspecified iteration order (tree outputs compared as multisets)",
        "Rust harness harness/src/bin/c20.rs (re-parsing and canonical printing) and this driver"]
    chk.assumptions = [
        "the result state of a route's last edge has the length the search's state model expects (otherwise the "
        "modelled outcome is the `cost` error class, which the stream also exercises)",
        "edge and vertex ids fit a usize; identifier rows are valid UTF-8 lines"]
    # Gen/TraversalOutput.v: the dispatch of the five output formats (which traversal_ops operation, which wrapper, which packing) is
    # regenerated from the Rust source; Props/GenOutputFormat.v proves Model/Output.v's two generate_* functions equal to it
    ores = vf.run_translators(which=["outputformat"]).get("outputformat", {"ok": False, "msg": "translator module tr_outputformat.py missing"})
    chk.coverage.setdefault("translator", {})["outputformat"] = {k: ores.get(k) for k in ("ok", "msg", "digest", "files", "changed")}
    if not ores.get("ok"):
        chk.violation("broken-correspondence", "translator", {"translator": "tr_outputformat", "error": ores.get("msg")}, ores.get("msg"),
                      "plugin/output/default/traversal/traversal_output_format.rs has the shape the translator knows (fail closed)",
                      detail="coq/Gen/TraversalOutput.v could not be regenerated; the previous definitions (if any) are used below",
                      found=False, key="translator-outputformat")
    chk.proofs(extra_targets=["Model/OutputRun.vo"], extra_props=["Props/GenOutputFormat.v"])
    binp = vf.build_harness("c20")
    # corpus first: shrunk witnesses of the mutations tried while building this check (one file, one coqc run)
    corpus = os.path.join(vf.ROOT, "corpus", "C20", "witnesses.json")
    if not chk.replay and os.path.exists(corpus):
        rc = vf.run_stream(binp, "output", 1, chk.seed, os.path.join(chk.outdir, "corpus"), shards=1, replay=corpus)
        chk.coverage["streams"]["corpus"] = {"cases": rc.stats.get("cases", 0),
                                             "rule": "corpus/C20/witnesses.json replayed (same comparison as the main stream)"}
        vf.compare(chk, rc, classify=classify, binpath=binp, stream_label="corpus")
    n = 680 if chk.tier == "quick" else 6000
    extra = [] if chk.tier == "quick" else ["--thorough"]
    r = vf.run_stream(binp, "output", n, chk.seed, os.path.join(chk.outdir, "output"), extra=extra, replay=chk.replay)
    chk.add_stream(r, RULE)
    ncorr, nprop = vf.compare(chk, r, classify=classify, binpath=binp, extra=extra)
    if chk.broken_obligation:
        # a proof obligation no longer checks: the stream above was the search for a failing input
        chk.violation("broken-obligation", "proofs", {"obligations": chk.broken_obligation}, "does not check", "Qed",
                      found=False, key="obligation")
