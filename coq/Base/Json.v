(* JSON values with serde_json semantics (feature preserve_order: objects are insertion
   ordered; inserting an existing key replaces its value in place). Definitions only. *)
From Coq Require Import ZArith String Ascii List Floats Bool.
From RC Require Import Base.Show.
Import ListNotations.
Open Scope string_scope.

Inductive json :=
| JNull
| JBool (b : bool)
| JInt (z : Z)            (* serde_json Number::PosInt / NegInt *)
| JFloat (f : float)      (* serde_json Number::Float (finite) *)
| JStr (s : string)
| JArr (l : list json)
| JObj (m : list (string * json)).

Fixpoint oget (m : list (string * json)) (k : string) : option json :=
  match m with
  | [] => None
  | (k', v) :: r => if String.eqb k' k then Some v else oget r k
  end.
(* Map::insert: replace in place or append *)
Fixpoint oset (m : list (string * json)) (k : string) (v : json) : list (string * json) :=
  match m with
  | [] => [(k, v)]
  | (k', v') :: r => if String.eqb k' k then (k', v) :: r else (k', v') :: oset r k v
  end.
(* Map::remove (preserve_order uses swap_remove in serde_json < 1.0.?; the harness never relies
   on the order after a removal: compare with show_sorted) *)
Fixpoint oremove (m : list (string * json)) (k : string) : list (string * json) :=
  match m with
  | [] => []
  | (k', v') :: r => if String.eqb k' k then r else (k', v') :: oremove r k
  end.

Definition jget (j : json) (k : string) : option json :=
  match j with JObj m => oget m k | _ => None end.
Definition as_object (j : json) : option (list (string * json)) :=
  match j with JObj m => Some m | _ => None end.
Definition as_array (j : json) : option (list json) :=
  match j with JArr l => Some l | _ => None end.
Definition as_str (j : json) : option string :=
  match j with JStr s => Some s | _ => None end.

(* canonical text; strings are printed raw between ' ' (the harness generates only
   [A-Za-z0-9_ .-] strings), floats exactly as in Show.show_float *)
Fixpoint show_json (j : json) : string :=
  match j with
  | JNull => "null"
  | JBool b => if b then "true" else "false"
  | JInt z => show_Z z
  | JFloat f => "f" ++ show_float f
  | JStr s => "'" ++ s ++ "'"
  | JArr l => "[" ++ join "," (map show_json l) ++ "]"
  | JObj m => "{" ++ join "," (map (fun kv => fst kv ++ ":" ++ show_json (snd kv)) m) ++ "}"
  end.

(* key-sorted variant, for comparisons that must not depend on object key order *)
Fixpoint insert_by_key {A} (kv : string * A) (l : list (string * A)) : list (string * A) :=
  match l with
  | [] => [kv]
  | x :: r => if String.leb (fst x) (fst kv) then x :: insert_by_key kv r else kv :: x :: r
  end.
Definition sort_by_key {A} (l : list (string * A)) : list (string * A) :=
  fold_left (fun acc kv => insert_by_key kv acc) l [].
Fixpoint show_sorted (j : json) : string :=
  match j with
  | JArr l => "[" ++ join "," (map show_sorted l) ++ "]"
  | JObj m => "{" ++ join "," (map (fun kv => fst kv ++ ":" ++ snd kv)
                                   (sort_by_key (map (fun kv => (fst kv, show_sorted (snd kv))) m))) ++ "}"
  | _ => show_json j
  end.

(* structural equality (serde_json::Value == : objects compared as maps, order-insensitive) *)
Definition json_eqb (a b : json) : bool := String.eqb (show_sorted a) (show_sorted b).
