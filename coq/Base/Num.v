(* One numeric interface, two instances.
   QN : exact rationals  -- every theorem about arithmetic is about this instance.
   FN : IEEE-754 binary64 (Coq primitive floats) -- used only to EXECUTE the same model text
        next to the Rust implementation, bit for bit. No theorem depends on FN. *)
From Coq Require Import ZArith QArith Qminmax Floats Uint63 Bool.

Record Num := {
  T :> Type;
  zero : T; one : T;
  add : T -> T -> T; sub : T -> T -> T; mul : T -> T -> T; div : T -> T -> T;
  opp : T -> T;
  ltb : T -> T -> bool; leb : T -> T -> bool; eqb : T -> T -> bool;
  of_Z : Z -> T;
  (* decimal literal  m * 10^e  (e may be negative), as rustc reads the same literal *)
  lit : Z -> Z -> T
}.

Arguments zero {n}. Arguments one {n}.
Arguments add {n}. Arguments sub {n}. Arguments mul {n}. Arguments div {n}. Arguments opp {n}.
Arguments ltb {n}. Arguments leb {n}. Arguments eqb {n}. Arguments of_Z {n}. Arguments lit {n}.

Definition nmax {N : Num} (a b : N) : N := if leb a b then b else a.
Definition nmin {N : Num} (a b : N) : N := if leb a b then a else b.

(* ---- exact rationals ---- *)
Definition Qlit (m e : Z) : Q :=
  match e with
  | Z0 => inject_Z m
  | Zpos p => inject_Z (m * 10 ^ (Zpos p))
  | Zneg p => m # (10 ^ p)%positive
  end.
Definition Qltb (a b : Q) : bool := negb (Qle_bool b a).

Definition QN : Num := {|
  T := Q; zero := 0%Q; one := 1%Q;
  add := Qplus; sub := Qminus; mul := Qmult; div := Qdiv; opp := Qopp;
  ltb := Qltb; leb := Qle_bool; eqb := Qeq_bool;
  of_Z := inject_Z; lit := Qlit |}.

(* ---- binary64 ---- *)
Definition float_of_Z (z : Z) : float :=
  match z with
  | Z0 => PrimFloat.zero
  | Zpos _ => PrimFloat.of_uint63 (Uint63.of_Z z)
  | Zneg p => PrimFloat.opp (PrimFloat.of_uint63 (Uint63.of_Z (Zpos p)))
  end.
(* m < 2^53 and |e| <= 22: both operands are exact doubles, so the single division or
   multiplication is the correctly rounded value of the decimal literal, which is what
   rustc produces. Larger literals are not used by the translated sources. *)
Definition Flit (m e : Z) : float :=
  match e with
  | Z0 => float_of_Z m
  | Zpos p => PrimFloat.mul (float_of_Z m) (float_of_Z (10 ^ (Zpos p)))
  | Zneg p => PrimFloat.div (float_of_Z m) (float_of_Z (10 ^ (Zpos p)))
  end.

Definition FN : Num := {|
  T := float; zero := PrimFloat.zero; one := PrimFloat.one;
  add := PrimFloat.add; sub := PrimFloat.sub; mul := PrimFloat.mul; div := PrimFloat.div;
  opp := PrimFloat.opp;
  ltb := PrimFloat.ltb; leb := PrimFloat.leb; eqb := PrimFloat.eqb;
  of_Z := float_of_Z; lit := Flit |}.
