(* Outcomes of a modelled Rust computation: Rust's failure modes are values. *)
From Coq Require Import String.
Inductive res (A : Type) : Type :=
| Ok (a : A)
| Err (class : string)      (* a Result::Err, classified *)
| Panic (why : string)      (* arithmetic overflow, index out of bounds, unwrap on None ... *)
| OutOfFuel.                (* an unbounded loop of the implementation that the fuel cut off *)
Arguments Ok {A} a.
Arguments Err {A} class.
Arguments Panic {A} why.
Arguments OutOfFuel {A}.

Definition bind {A B} (r : res A) (f : A -> res B) : res B :=
  match r with
  | Ok a => f a
  | Err c => Err c
  | Panic w => Panic w
  | OutOfFuel => OutOfFuel
  end.
Definition rmap {A B} (f : A -> B) (r : res A) : res B := bind r (fun a => Ok (f a)).
Notation "'do' x <- r ; k" := (bind r (fun x => k)) (at level 200, x pattern, r at level 100, k at level 200).

Definition is_ok {A} (r : res A) : bool := match r with Ok _ => true | _ => false end.
Definition crashes {A} (r : res A) : bool :=
  match r with Panic _ | OutOfFuel => true | _ => false end.

Definition show_res {A} (f : A -> string) (r : res A) : string :=
  match r with
  | Ok a => ("Ok " ++ f a)%string
  | Err c => ("Err " ++ c)%string
  | Panic w => "Panic"%string
  | OutOfFuel => "Hang"%string
  end.
