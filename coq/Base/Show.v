(* Printing of model results as canonical strings, evaluated with vm_compute.
   The Rust harness prints the implementation's results in exactly the same format. *)
From Coq Require Import ZArith NArith QArith String Ascii List Floats DecimalString Uint63 Bool.
Import ListNotations.
Open Scope string_scope.

Definition show_Z (z : Z) : string := NilEmpty.string_of_int (Z.to_int z).
Definition show_N (n : N) : string := show_Z (Z.of_N n).
Definition show_nat (n : nat) : string := show_Z (Z.of_nat n).
Definition show_bool (b : bool) : string := if b then "T" else "F".

(* IEEE binary64 value as sign / integer mantissa / binary exponent: exact, no decimal rounding. *)
Definition show_float (f : float) : string :=
  match Prim2SF f with
  | S754_zero s => if s then "-0" else "+0"
  | S754_infinity s => if s then "-inf" else "+inf"
  | S754_nan => "nan"
  | S754_finite s m e => (if s then "-" else "+") ++ show_Z (Zpos m) ++ "p" ++ show_Z e
  end.

(* exact rational, reduced *)
Definition show_Q (q : Q) : string :=
  let r := Qred q in show_Z (Qnum r) ++ "/" ++ show_Z (Zpos (Qden r)).

Fixpoint join (sep : string) (l : list string) : string :=
  match l with
  | [] => ""
  | [x] => x
  | x :: r => x ++ sep ++ join sep r
  end.

Definition show_list {A} (f : A -> string) (l : list A) : string :=
  "[" ++ join "," (map f l) ++ "]".

Definition show_option {A} (f : A -> string) (o : option A) : string :=
  match o with None => "None" | Some a => "Some(" ++ f a ++ ")" end.

Definition show_pair {A B} (f : A -> string) (g : B -> string) (p : A * B) : string :=
  "(" ++ f (fst p) ++ "," ++ g (snd p) ++ ")".

(* One output line of a correspondence stream: tag, case id, payload. *)
Definition line (tag : string) (id : Z) (payload : string) : string :=
  tag ++ " " ++ show_Z id ++ " " ++ payload.

(* Long payloads are compared through a hash: Coq's printer handles only a few kB of string
   per second, so the harness wraps each case term in [compress]; the Rust side applies the
   same function (verif_harness::compress).  A mismatching case is re-run uncompressed. *)
Definition ascii_code (c : ascii) : int :=
  let 'Ascii b0 b1 b2 b3 b4 b5 b6 b7 := c in
  ((if b0 then 1 else 0) + (if b1 then 2 else 0) + (if b2 then 4 else 0) + (if b3 then 8 else 0)
   + (if b4 then 16 else 0) + (if b5 then 32 else 0) + (if b6 then 64 else 0) + (if b7 then 128 else 0))%uint63.
(* multiplicative hash in primitive 63-bit arithmetic (wraps modulo 2^63) *)
Fixpoint hash_go (s : string) (h : int) : int :=
  match s with
  | EmptyString => h
  | String c r => hash_go r (h * 1000003 + ascii_code c)%uint63
  end.
Definition hash (s : string) : Z := Uint63.to_Z (hash_go s 7%uint63).
Fixpoint split_space (s : string) : string * string :=
  match s with
  | EmptyString => (EmptyString, EmptyString)
  | String c r => if Ascii.eqb c " "%char then (EmptyString, r)
                  else let (a, b) := split_space r in (String c a, b)
  end.
Definition compress (s : string) : string :=
  let (tag, r) := split_space s in
  let (id, payload) := split_space r in
  if Nat.leb (String.length payload) 160 then s
  else tag ++ " " ++ id ++ " #" ++ show_Z (hash payload).
