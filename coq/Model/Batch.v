(* Executable model of CompassApp::run (routee-compass/src/app/compass/compass_app.rs) and
   compass_app_ops::apply_load_balancing_policy.  Definitions only; proofs are in
   Proofs/Batch*.v.

   What the code does, in the order of `run`:
     1. chunk = max 1 (ceil (n / self.parallelism))  -- the CONFIGURED parallelism, not the
        per-run override -- and queries.par_chunks(chunk): every chunk applies
        apply_input_plugins to its queries sequentially and partition_map's the results into
        (Vec<Vec<Value>> of expanded queries, Vec<Value> of error responses); rayon's indexed
        unzip keeps the chunk order; both sides are flattened.
     2. every expanded query whose query_weight_estimate cannot be read becomes an error
        response (partition_map again).
     3. apply_load_balancing_policy(processed, parallelism (per-run override or configured), 1.0):
        greedy: each query in order goes to the bin with the smallest running total
        (Iterator::min_by_key over OrderedFloat: the FIRST minimal bin), its weight is added.
     4. the error responses of step 1 and then of step 2 are handed to the sink (write_response,
        which may rewrite them in place), in that order.
     5. load_balanced_inputs.par_iter(): every bin runs its queries sequentially with
        run_single_query (search + output plugins; always a response, errors are packaged with
        the request) and hands the response to the sink; results are collected per bin in bin
        order and flattened.  PersistResponseInMemory returns them; DiscardResponseFromMemory
        returns none of them (they are only in the sink).
     6. the error responses of step 4 are appended.

   External behaviour the property quantifies over is a Section variable: the input plugins
   (any expansion / failure), the weight reading, the per-query search, the sink.
   Threads: rayon's par_chunks().map().unzip() and par_iter().map().collect() are indexed
   (results in input order whatever the schedule) -- rayon's contract, trusted; the one
   schedule-dependent observable, the order of the lines in the sink, is modelled by the
   relation [Merge] (any interleaving of the per-bin sequences). *)
From Coq Require Import String.
From Coq Require Import List Arith Bool.
From RC Require Import Base.Res Base.Num.
Import ListNotations.

Module Batch.

(* ---- slice::chunks / par_chunks (chunk_size >= 1; 0 panics in rayon, unreachable after .max(1)) *)
Section Chunks.
  Context {A : Type}.
  Fixpoint chunks_go (fuel k : nat) (l : list A) : list (list A) :=
    match fuel with
    | 0 => []
    | S f => match l with
             | [] => []
             | _ => firstn k l :: chunks_go f k (skipn k l)
             end
    end.
  Definition chunks (k : nat) (l : list A) : list (list A) := chunks_go (List.length l) k l.

  (* Vec index update: out of range = no change (never happens: min_bin < length) *)
  Fixpoint update (l : list A) (i : nat) (f : A -> A) : list A :=
    match l, i with
    | [], _ => []
    | x :: r, 0 => f x :: r
    | x :: r, S j => x :: update r j f
    end.
End Chunks.

(* ((n as f64 / p as f64).ceil() as usize).max(1).  p = 0: n/0 = +inf saturates to usize::MAX
   (one chunk with everything: modelled as chunk size n), 0/0 = NaN casts to 0.  The f64
   division is exact enough for the ceiling whenever n < 2^52 (assumption, see check). *)
Definition chunk_size (n p : nat) : nat :=
  Nat.max 1 (if Nat.eqb p 0 then n else (n + p - 1) / p).

(* itertools partition_map *)
Fixpoint partition_map {A L R : Type} (f : A -> L + R) (l : list A) : list L * list R :=
  match l with
  | [] => ([], [])
  | x :: r => let (ls, rs) := partition_map f r in
              match f x with
              | inl a => (a :: ls, rs)
              | inr b => (ls, b :: rs)
              end
  end.

Inductive persistence := PersistInMemory | DiscardFromMemory.

Section Run.
  Context {N : Num} {query response : Type}.
  (* apply_input_plugins: Ok(expanded queries) | Err(error response, request attached by the plugin ops) *)
  Variable plugins : query -> list query + response.
  (* InputJsonExtensions::get_query_weight_estimate: Ok(None) absent, Ok(Some w), Err ill-typed *)
  Variable weight : query -> res (option N).
  (* input_plugin_ops::package_error(q, e) for an unreadable weight *)
  Variable weight_error : query -> response.
  (* run_single_query: SearchApp::run + apply_output_processing; infallible (Ok(output) always) *)
  Variable single : query -> response.
  (* ResponseSink::write_response(&mut response): [fmt] is what formatting does to the response
     in place (identity for the None and JSON sinks, csv errors for CSV), [sink_ok] whether the
     write of that response succeeds (I/O) *)
  Variable fmt : response -> response.
  Variable sink_ok : response -> bool.

  (* ---- step 3: apply_load_balancing_policy ---- *)
  (* bins.iter().enumerate().min_by_key(|(_, w)| OrderedFloat(w)): reduce keeps the earlier
     element unless it is strictly greater.  NaN totals are unreachable (weights are finite
     JSON numbers; inf + finite never gives NaN), so OrderedFloat's order is [ltb]. *)
  Fixpoint min_bin_from (best_i : nat) (best_w : N) (i : nat) (rest : list N) : nat :=
    match rest with
    | [] => best_i
    | w :: r => if ltb w best_w then min_bin_from i w (S i) r
                else min_bin_from best_i best_w (S i) r
    end.
  Definition min_bin (bins : list N) : option nat :=
    match bins with
    | [] => None
    | w :: r => Some (min_bin_from 0 w 1 r)
    end.

  Fixpoint lb_go (qs : list query) (default : N) (totals : list N) (bins : list (list query))
    : res (list (list query)) :=
    match qs with
    | [] => Ok bins
    | q :: r =>
        do wo <- weight q;                                          (* get_query_weight_estimate()? *)
        let w := match wo with Some w => w | None => default end in (* .unwrap_or(default) *)
        match min_bin totals with
        | None => Err "InternalError"%string                         (* min_bin of empty slice *)
        | Some b => lb_go r default (update totals b (fun t => add t w))
                          (update bins b (fun l => l ++ [q]))
        end
    end.
  Definition balance (qs : list query) (p : nat) (default : N) : res (list (list query)) :=
    match qs with
    | [] => Ok []
    | _ => lb_go qs default (repeat zero p) (repeat [] p)
    end.

  (* ---- steps 1, 2 ---- *)
  Definition input_stage (p_cfg : nat) (batch : list query) : list query * list response :=
    let parts := map (partition_map plugins) (chunks (chunk_size (List.length batch) p_cfg) batch) in
    let (nested_ok, nested_err) := split parts in                   (* unzip *)
    (concat (concat nested_ok), concat nested_err).

  Definition weight_stage (qs : list query) : list query * list response :=
    partition_map (fun q => match weight q with
                            | Ok _ => inl q
                            | _ => inr (weight_error q)
                            end) qs.

  (* ---- steps 4-6 ---- *)
  Definition resp (q : query) : response := fmt (single q).

  Record outcome := { returned : list response; written : list response }.

  (* [errors]: the pre-search error responses, already written and rewritten by the sink.
     written: the sink lines in the canonical schedule "bin after bin"; any real schedule is a
     [Merge] of the per-bin sequences *)
  Definition run_bins (pol : persistence) (bins : list (list query)) (errors : list response)
    : res outcome :=
    match pol with
    | PersistInMemory =>
        (* collect::<Result<Vec<_>,_>> per bin and over bins: one failed write fails the call *)
        if forallb (forallb (fun q => sink_ok (single q))) bins
        then let rs := concat (map (map resp) bins) in
             Ok {| returned := rs ++ errors; written := errors ++ rs |}
        else Err "sink"%string
    | DiscardFromMemory =>
        (* the fold ignores its accumulator: a failed write is dropped silently *)
        Ok {| returned := errors;
              written := errors ++ concat (map (fun b => map fmt (filter sink_ok (map single b))) bins) |}
    end.

  Definition run (pol : persistence) (p_cfg p_run : nat) (batch : list query) : res outcome :=
    let (processed0, plugin_errors) := input_stage p_cfg batch in
    let (processed, weight_errors) := weight_stage processed0 in
    do bins <- balance processed p_run one;
    let errors := plugin_errors ++ weight_errors in
    (* for error_response in error_inputs.iter_mut() { response_writer.write_response(..)? } *)
    if forallb sink_ok errors then
      let errors' := map fmt errors in
      match bins with
      | [] => Ok {| returned := errors'; written := errors' |}      (* is_empty(): early return *)
      | _ => run_bins pol bins errors'
      end
    else Err "sink"%string.

  (* everything the caller can observe for one batch: the returned vector, or the sink when
     successful responses are not kept in memory *)
  Definition responses (pol : persistence) (o : outcome) : list response :=
    match pol with
    | PersistInMemory => returned o
    | DiscardFromMemory => written o
    end.

  (* ---- the specification: what each query answers on its own ---- *)
  Definition answer1 (c : query) : response :=
    match weight c with Ok _ => resp c | _ => fmt (weight_error c) end.
  Definition answer (q : query) : list response :=
    match plugins q with
    | inl cs => map answer1 cs
    | inr e => [fmt e]
    end.
  (* number of queries after grid-search expansion (a query rejected by the input plugins
     counts once: it is answered by one error response) *)
  Definition expanded (q : query) : nat :=
    match plugins q with inl cs => List.length cs | inr _ => 1 end.
End Run.

(* ---- apply_input_plugins (compass_app.rs) over input_plugin_ops::json_array_op ----
   The query state is a JSON array, initially [query].  Every plugin in turn is applied to every
   element in place; an element that became an array is spliced in (json_array_flatten_in_place);
   the FIRST element on which a plugin fails ends the whole call with one error response
   (package_error of that element) -- the other elements, good or not, are lost
   (K_child_error_drops_siblings).  At the end every element must be a JSON object
   (json_array_flatten), else one invariant error naming the last offending element.
   Before all that, a query that is not a JSON object is rejected with its own error response. *)
Section InputPlugins.
  Context {query response : Type}.
  (* one InputPlugin::process on one element: the element(s) it became, or the packaged error *)
  Definition plugin := query -> list query + response.

  Fixpoint stage_all (pl : plugin) (l : list query) : list query + response :=
    match l with
    | [] => inl []
    | q :: r => match pl q with
                | inr e => inr e
                | inl out => match stage_all pl r with
                             | inr e => inr e
                             | inl rest => inl (out ++ rest)
                             end
                end
    end.
  Fixpoint apply_stages (stages : list plugin) (l : list query) : list query + response :=
    match stages with
    | [] => inl l
    | pl :: rest => match stage_all pl l with
                    | inr e => inr e
                    | inl l' => apply_stages rest l'
                    end
    end.

  Variable is_object : query -> bool.
  Variable invariant_error : query -> response.
  Fixpoint last_non_object (l : list query) (acc : option query) : option query :=
    match l with
    | [] => acc
    | q :: r => last_non_object r (if is_object q then acc else Some q)
    end.
  Definition finish (l : list query) : list query + response :=
    match last_non_object l None with
    | Some bad => inr (invariant_error bad)
    | None => inl l
    end.
  (* the plugin loop and the final flatten, for one element *)
  Definition apply_core (stages : list plugin) (q : query) : list query + response :=
    match apply_stages stages [q] with
    | inr e => inr e
    | inl l => finish l
    end.
  Variable not_object_error : query -> response.    (* package_error(query, "query is not a JSON object") *)
  Definition apply_input_plugins (stages : list plugin) (q : query) : list query + response :=
    if is_object q then apply_core stages q else inr (not_object_error q).
End InputPlugins.

(* ---- the specification when the first plugin expands a query (grid_search) and the later
   ones work on each expanded query: every expanded query is answered on its own ---- *)
Section Ideal.
  Context {N : Num} {query response : Type}.
  Variable grid : @plugin query response.
  Variable later : list (@plugin query response).
  Variable is_object : query -> bool.
  Variable invariant_error : query -> response.
  Variable weight : query -> res (option N).
  Variable weight_error : query -> response.
  Variable single : query -> response.
  Variable fmt : response -> response.

  Variable not_object_error : query -> response.

  Definition answer_child (c : query) : list response :=
    match apply_core is_object invariant_error later c with
    | inl cs => map (answer1 weight weight_error single fmt) cs
    | inr e => [fmt e]
    end.
  Definition answer_ideal (q : query) : list response :=
    if is_object q then
      match grid q with
      | inr e => [fmt e]
      | inl kids => flat_map answer_child kids
      end
    else [fmt (not_object_error q)].
  (* number of queries after expansion: every child the later plugins accept counts for what
     it became (one query, for plugins that do not expand), a rejected one counts once *)
  Definition expanded_ideal (q : query) : nat :=
    if is_object q then
      match grid q with
      | inr _ => 1
      | inl kids => list_sum (map (fun c => match apply_core is_object invariant_error later c with
                                            | inl cs => List.length cs
                                            | inr _ => 1
                                            end) kids)
      end
    else 1.
  (* the class of K_child_error_drops_siblings: the expansion has at least two children and one
     of them is rejected after the expansion (by a later plugin or by the final object check) *)
  Definition K (q : query) : Prop :=
    is_object q = true
    /\ exists kids, grid q = inl kids /\ 2 <= List.length kids
                    /\ exists c e, In c kids /\ apply_core is_object invariant_error later c = inr e.
End Ideal.

(* any interleaving of sequences (threads writing whole lines under the sink's mutex) *)
Inductive Merge {A : Type} : list (list A) -> list A -> Prop :=
| Merge_nil : forall ls, Forall (fun l => l = []) ls -> Merge ls []
| Merge_step : forall pre x l post out,
    Merge (pre ++ l :: post) out -> Merge (pre ++ (x :: l) :: post) (x :: out).

(* a sublist in the original relative order *)
Inductive subseq {A : Type} : list A -> list A -> Prop :=
| subseq_nil : subseq [] []
| subseq_keep : forall x s l, subseq s l -> subseq (x :: s) (x :: l)
| subseq_skip : forall x s l, subseq s l -> subseq s (x :: l).

(* ---- shared mutable state (D-CACHE): a per-query step that threads a state ---- *)
Section Stateful.
  Context {S query response : Type}.
  Variable step : S -> query -> response * S.
  Fixpoint run_seq (s : S) (qs : list query) : list response * S :=
    match qs with
    | [] => ([], s)
    | q :: r => let (a, s') := step s q in
                let (rs, s'') := run_seq s' r in (a :: rs, s'')
    end.
End Stateful.

(* FloatCachePolicy as PredictionModelRecord::predict uses it: key = inputs rounded to a
   precision; a hit returns the stored value (that of the FIRST input with this key). *)
Section Cache.
  Variable key : nat -> nat.            (* to_precision *)
  Variable f : nat -> nat.              (* the underlying prediction *)
  Definition cache := list (nat * nat).
  Fixpoint cget (c : cache) (k : nat) : option nat :=
    match c with [] => None | (k', v) :: r => if Nat.eqb k' k then Some v else cget r k end.
  Definition predict (c : cache) (x : nat) : nat * cache :=
    match cget c (key x) with
    | Some v => (v, c)
    | None => (f x, (key x, f x) :: c)
    end.
End Cache.

End Batch.
