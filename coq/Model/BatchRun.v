(* Runner used by the C06 correspondence streams.  Queries and responses are identified by
   integers; the harness supplies, for every query of a case, what the real component
   functions answered (input-plugin expansion, weight reading, per-query response id) and the
   model composes them exactly as CompassApp::run does.  Weights are binary64 (FN). *)
From Coq Require Import String.
From Coq Require Import ZArith List Bool Floats.
From RC Require Import Base.Show Base.Res Base.Num Model.Batch.
Import ListNotations.
Open Scope string_scope.

(* query_weight_estimate of one query: absent, a number, unreadable *)
Inductive wspec := WNone | WSome (f : float) | WErr.
Definition w_res (w : wspec) : res (option FN) :=
  match w with
  | WNone => Ok None
  | WSome f => Ok (Some f)
  | WErr => Err "weight"
  end.

Fixpoint zlookup {A} (l : list (Z * A)) (k : Z) : option A :=
  match l with
  | [] => None
  | (k', v) :: r => if Z.eqb k' k then Some v else zlookup r k
  end.

Fixpoint zinsert (x : Z) (l : list Z) : list Z :=
  match l with
  | [] => [x]
  | y :: r => if Z.leb x y then x :: l else y :: zinsert x r
  end.
Definition zsort (l : list Z) : list Z := fold_right zinsert [] l.
Fixpoint zlist_eqb (a b : list Z) : bool :=
  match a, b with
  | [], [] => true
  | x :: r, y :: s => Z.eqb x y && zlist_eqb r s
  | _, _ => false
  end.

Definition show_bins (bins : list (list Z)) : string := show_list (show_list show_Z) bins.

(* ------------------------------------------------------------------ stream lb:
   apply_load_balancing_policy called directly; query i has weight spec (nth i ws) *)
Definition enumerate_z {A} (l : list A) : list (Z * A) :=
  combine (map Z.of_nat (seq 0 (List.length l))) l.

Definition lb_weight (tbl : list (Z * wspec)) (q : Z) : res (option FN) :=
  match zlookup tbl q with Some w => w_res w | None => Ok None end.

Definition lb_model (p : nat) (ws : list wspec) (default : float) : res (list (list Z)) :=
  let tbl := enumerate_z ws in
  @Batch.balance FN Z (lb_weight tbl) (map fst tbl) p default.

Definition lb_line (id : Z) (p : nat) (ws : list wspec) (default : float) : string :=
  line "M" id (show_res show_bins (lb_model p ws default)).

(* specification of the same call, evaluated on the implementation's output: Err exactly when
   the code must fail; otherwise [p] bins, every index 0..n-1 in exactly one bin, every bin in
   increasing index order (relative order kept) *)
Fixpoint increasing (l : list Z) : bool :=
  match l with
  | x :: ((y :: _) as r) => Z.ltb x y && increasing r
  | _ => true
  end.
Definition is_werr (w : wspec) : bool := match w with WErr => true | _ => false end.
Definition lb_expected_err (p : nat) (ws : list wspec) : option string :=
  match ws with
  | [] => None
  | w0 :: _ =>
      if Nat.eqb p 0 then Some (if is_werr w0 then "weight" else "InternalError")
      else if existsb is_werr ws then Some "weight" else None
  end.
Definition lb_spec_line (id : Z) (p : nat) (ws : list wspec) (impl : res (list (list Z))) : string :=
  line "S" id
    (match lb_expected_err p ws, impl with
     | Some c, _ => "Err " ++ c
     | None, Ok bins =>
         let n := List.length ws in
         let shape := match n with 0 => Nat.eqb (List.length bins) 0 | _ => Nat.eqb (List.length bins) p end in
         let part := zlist_eqb (zsort (concat bins)) (map Z.of_nat (seq 0 n)) in
         let ord := forallb increasing bins in
         if shape && part && ord then "Ok " ++ show_bins bins
         else "REJECT shape=" ++ show_bool shape ++ " partition=" ++ show_bool part
              ++ " order=" ++ show_bool ord
     | None, _ => "REJECT expected Ok"
     end).

(* ------------------------------------------------------------------ stream batch:
   CompassApp::run.  Table: query id -> what apply_input_plugins returned for it:
   an error response id, or the expanded queries (child id, weight spec, response id of that
   child: run_single_query's response, or the weight error response when the spec is WErr) *)
Inductive pres := PErr (rid : Z) | PKids (kids : list (Z * (wspec * Z))).

Definition all_kids (tbl : list (Z * pres)) : list (Z * (wspec * Z)) :=
  flat_map (fun e => match snd e with PKids ks => ks | PErr _ => [] end) tbl.

Definition b_plugins (tbl : list (Z * pres)) (q : Z) : list Z + Z :=
  match zlookup tbl q with
  | Some (PKids ks) => inl (map fst ks)
  | Some (PErr r) => inr r
  | None => inr (-1)%Z
  end.
Definition b_weight (kids : list (Z * (wspec * Z))) (c : Z) : res (option FN) :=
  match zlookup kids c with Some (w, _) => w_res w | None => Err "weight" end.
Definition b_resp (kids : list (Z * (wspec * Z))) (c : Z) : Z :=
  match zlookup kids c with Some (_, r) => r | None => (-1)%Z end.

Definition pol_of (discard : bool) : Batch.persistence :=
  if discard then Batch.DiscardFromMemory else Batch.PersistInMemory.

Definition b_run (discard : bool) (p_cfg p_run : nat) (tbl : list (Z * pres)) (order : list Z)
  : res (@Batch.outcome Z) :=
  let kids := all_kids tbl in
  @Batch.run FN Z Z (b_plugins tbl) (b_weight kids) (b_resp kids) (b_resp kids)
             (fun r => r) (fun _ => true) (pol_of discard) p_cfg p_run order.

Definition show_outcome (sink : bool) (o : @Batch.outcome Z) : string :=
  "ret=" ++ show_list show_Z (Batch.returned o)
  ++ " wr=" ++ (if sink then show_list show_Z (zsort (Batch.written o)) else "-").

(* [flags]: verdicts of the harness's request-echo and expansion-count oracles, copied verbatim
   (they are not model output; the S line states what they must be) *)
Definition batch_line (id : Z) (discard sink : bool) (p_cfg p_run : nat) (tbl : list (Z * pres))
           (order : list Z) (flags : string) : string :=
  line "M" id (match b_run discard p_cfg p_run tbl order with
               | Ok o => "Ok " ++ show_outcome sink o ++ flags
               | r => show_res (show_outcome sink) r
               end).

(* the bins the model forms (printed next to the implementation's log in a replay) *)
Definition batch_bins (p_cfg p_run : nat) (tbl : list (Z * pres)) (order : list Z) : string :=
  let kids := all_kids tbl in
  let '(processed0, _) := @Batch.input_stage Z Z (b_plugins tbl) p_cfg order in
  let '(processed, _) := @Batch.weight_stage FN Z Z (b_weight kids) (b_resp kids) processed0 in
  show_res show_bins (@Batch.balance FN Z (b_weight kids) processed p_run PrimFloat.one).

(* the property, evaluated on the implementation's output: the call succeeds and the multiset
   of everything it answered (returned vector, plus the sink under the discard policy) is the
   multiset of the answers of the queries taken one by one ([alone]: response ids of
   CompassApp::run on [q] alone with parallelism 1, supplied by the harness); every response
   carries the request it answers and there is one response per expanded query (flags).
   Parallelism 0 is outside the property (1..#cores). *)
Definition batch_spec_line (id : Z) (discard sink : bool) (p_run : nat) (alone : list (Z * list Z))
           (order : list Z) (impl_ret impl_wr : list Z) (impl_ok : bool) : string :=
  line "S" id
    (if Nat.eqb p_run 0 then "unspecified" else
     let expected := zsort (flat_map (fun q => match zlookup alone q with Some l => l | None => [(-1)%Z] end) order) in
     let got := zsort (if discard then impl_ret ++ impl_wr else impl_ret) in
     if impl_ok && zlist_eqb got expected
     then "Ok ret=" ++ show_list show_Z impl_ret
          ++ " wr=" ++ (if sink then show_list show_Z (zsort impl_wr) else "-") ++ " echo=T count=T"
     else "REJECT expected multiset " ++ show_list show_Z expected).
