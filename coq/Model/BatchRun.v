(* Runner used by the C06 correspondence streams.  Queries and responses are identified by
   integers; the harness supplies, for every query of a case, what the real component
   functions answered (input-plugin expansion, weight reading, per-query response id) and the
   model composes them exactly as CompassApp::run does.  Weights are binary64 (FN). *)
From Coq Require Import String.
From Coq Require Import ZArith List Bool Floats.
From RC Require Import Base.Show Base.Res Base.Num Model.Batch.
Import ListNotations.
Open Scope string_scope.

(* query_weight_estimate of one query: absent, a number, unreadable *)
Inductive wspec := WNone | WSome (f : float) | WErr.
Definition w_res (w : wspec) : res (option FN) :=
  match w with
  | WNone => Ok None
  | WSome f => Ok (Some f)
  | WErr => Err "weight"
  end.

Fixpoint zlookup {A} (l : list (Z * A)) (k : Z) : option A :=
  match l with
  | [] => None
  | (k', v) :: r => if Z.eqb k' k then Some v else zlookup r k
  end.

Fixpoint zinsert (x : Z) (l : list Z) : list Z :=
  match l with
  | [] => [x]
  | y :: r => if Z.leb x y then x :: l else y :: zinsert x r
  end.
Definition zsort (l : list Z) : list Z := fold_right zinsert [] l.
Fixpoint zlist_eqb (a b : list Z) : bool :=
  match a, b with
  | [], [] => true
  | x :: r, y :: s => Z.eqb x y && zlist_eqb r s
  | _, _ => false
  end.

Definition show_bins (bins : list (list Z)) : string := show_list (show_list show_Z) bins.

(* ------------------------------------------------------------------ stream lb:
   apply_load_balancing_policy called directly; query i has weight spec (nth i ws) *)
Definition enumerate_z {A} (l : list A) : list (Z * A) :=
  combine (map Z.of_nat (seq 0 (List.length l))) l.

Definition lb_weight (tbl : list (Z * wspec)) (q : Z) : res (option FN) :=
  match zlookup tbl q with Some w => w_res w | None => Ok None end.

Definition lb_model (p : nat) (ws : list wspec) (default : float) : res (list (list Z)) :=
  let tbl := enumerate_z ws in
  @Batch.balance FN Z (lb_weight tbl) (map fst tbl) p default.

Definition lb_line (id : Z) (p : nat) (ws : list wspec) (default : float) : string :=
  line "M" id (show_res show_bins (lb_model p ws default)).

(* specification of the same call, evaluated on the implementation's output: Err exactly when
   the code must fail; otherwise [p] bins, every index 0..n-1 in exactly one bin, every bin in
   increasing index order (relative order kept) *)
Fixpoint increasing (l : list Z) : bool :=
  match l with
  | x :: ((y :: _) as r) => Z.ltb x y && increasing r
  | _ => true
  end.
Definition is_werr (w : wspec) : bool := match w with WErr => true | _ => false end.
Definition lb_expected_err (p : nat) (ws : list wspec) : option string :=
  match ws with
  | [] => None
  | w0 :: _ =>
      if Nat.eqb p 0 then Some (if is_werr w0 then "weight" else "InternalError")
      else if existsb is_werr ws then Some "weight" else None
  end.
Definition lb_spec_line (id : Z) (p : nat) (ws : list wspec) (impl : res (list (list Z))) : string :=
  line "S" id
    (match lb_expected_err p ws, impl with
     | Some c, _ => "Err " ++ c
     | None, Ok bins =>
         let n := List.length ws in
         let shape := match n with 0 => Nat.eqb (List.length bins) 0 | _ => Nat.eqb (List.length bins) p end in
         let part := zlist_eqb (zsort (concat bins)) (map Z.of_nat (seq 0 n)) in
         let ord := forallb increasing bins in
         if shape && part && ord then "Ok " ++ show_bins bins
         else "REJECT shape=" ++ show_bool shape ++ " partition=" ++ show_bool part
              ++ " order=" ++ show_bool ord
     | None, _ => "REJECT expected Ok"
     end).

(* ------------------------------------------------------------------ stream batch:
   CompassApp::run.  Every JSON value that occurs as a query or as an element of the plugin
   state has an integer id.  Tables, all obtained from the REAL component functions:
     stages  : for plugin k, element id -> what InputPlugin::process made of it (the ids of the
               element(s) it became, or the id of the packaged error response)
     nonobj  : element ids that are not JSON objects -> (not-an-object error response id,
               invariant error response id)
     kids    : fully processed element id -> (weight spec, response id: run_single_query's
               response, or the weight error response when the spec is WErr) *)
Inductive sres := SOk (l : list Z) | SErr (rid : Z).
Record tables := {
  t_stages : list (list (Z * sres));
  t_nonobj : list (Z * (Z * Z));
  t_kids : list (Z * (wspec * Z)) }.

Definition b_plugin (t : list (Z * sres)) : @Batch.plugin Z Z :=
  fun e => match zlookup t e with
           | Some (SOk l) => inl l
           | Some (SErr r) => inr r
           | None => inr (-1)%Z
           end.
Definition b_is_object (t : tables) (e : Z) : bool :=
  match zlookup (t_nonobj t) e with Some _ => false | None => true end.
Definition b_not_object_error (t : tables) (e : Z) : Z :=
  match zlookup (t_nonobj t) e with Some (r, _) => r | None => (-3)%Z end.
Definition b_invariant_error (t : tables) (e : Z) : Z :=
  match zlookup (t_nonobj t) e with Some (_, r) => r | None => (-2)%Z end.
Definition b_plugins (t : tables) : Z -> list Z + Z :=
  Batch.apply_input_plugins (b_is_object t) (b_invariant_error t) (b_not_object_error t)
                            (map b_plugin (t_stages t)).
Definition b_weight (kids : list (Z * (wspec * Z))) (c : Z) : res (option FN) :=
  match zlookup kids c with Some (w, _) => w_res w | None => Err "weight" end.
Definition b_resp (kids : list (Z * (wspec * Z))) (c : Z) : Z :=
  match zlookup kids c with Some (_, r) => r | None => (-1)%Z end.

Definition pol_of (discard : bool) : Batch.persistence :=
  if discard then Batch.DiscardFromMemory else Batch.PersistInMemory.

(* [fmtmap]: what the sink's format_response makes of a response in place (a CSV mapping with
   non-optional paths records its errors in the response); empty = nothing is rewritten *)
Definition b_fmt (fmtmap : list (Z * Z)) (r : Z) : Z :=
  match zlookup fmtmap r with Some x => x | None => r end.

Definition b_run_fmt (fmtmap : list (Z * Z)) (discard : bool) (p_cfg p_run : nat) (t : tables) (order : list Z)
  : res (@Batch.outcome Z) :=
  @Batch.run FN Z Z (b_plugins t) (b_weight (t_kids t)) (b_resp (t_kids t)) (b_resp (t_kids t))
             (b_fmt fmtmap) (fun _ => true) (pol_of discard) p_cfg p_run order.
Definition b_run := b_run_fmt [].

(* [rowmap]: for a sink whose records are not the responses themselves (CSV), the id of the
   record the REAL ResponseOutputFormat::format_response makes of each response; empty = the
   records are the responses (JSON sinks) *)
Definition map_rows (rowmap : list (Z * Z)) (l : list Z) : list Z :=
  match rowmap with
  | [] => l
  | _ => map (fun r => match zlookup rowmap r with Some x => x | None => (-7)%Z end) l
  end.

Definition show_outcome (sink : bool) (rowmap : list (Z * Z)) (o : @Batch.outcome Z) : string :=
  "ret=" ++ show_list show_Z (Batch.returned o)
  ++ " wr=" ++ (if sink then show_list show_Z (zsort (map_rows rowmap (Batch.written o))) else "-").

(* [flags]: verdicts of the harness's request-echo and single-response oracles, copied verbatim
   (they are not model output; the S line states what they must be) *)
Definition batch_line (id : Z) (discard sink : bool) (p_cfg p_run : nat) (t : tables)
           (order : list Z) (flags : string) (rowmap fmtmap : list (Z * Z)) : string :=
  line "M" id (match b_run_fmt fmtmap discard p_cfg p_run t order with
               | Ok o => "Ok " ++ show_outcome sink rowmap o ++ flags
               | r => show_res (show_outcome sink rowmap) r
               end).

(* the bins the model forms (printed next to the implementation's log in a replay) *)
Definition batch_bins (p_cfg p_run : nat) (t : tables) (order : list Z) : string :=
  let kids := t_kids t in
  let '(processed0, _) := @Batch.input_stage Z Z (b_plugins t) p_cfg order in
  let '(processed, _) := @Batch.weight_stage FN Z Z (b_weight kids) (b_resp kids) processed0 in
  show_res show_bins (@Batch.balance FN Z (b_weight kids) processed p_run PrimFloat.one).

(* the property, evaluated on the implementation's output: the call succeeds; the returned
   vector (persist policy) and the sink content (when there is a sink) are, as multisets, the
   answers of the queries taken one by one ([alone]: response ids of CompassApp::run on [q]
   alone with parallelism 1, supplied by the harness); every response carries the request it
   answers and a query without a grid section has exactly one response (flags).
   Parallelism 0 is outside the property (1..#cores). *)
Definition batch_spec_line (id : Z) (discard sink : bool) (p_run : nat) (alone : list (Z * list Z))
           (order : list Z) (impl_ret impl_wr : list Z) (impl_ok : bool) (rowmap fmtmap : list (Z * Z)) : string :=
  line "S" id
    (if Nat.eqb p_run 0 then "unspecified" else
     let expected := zsort (flat_map (fun q => match zlookup alone q with Some l => l | None => [(-1)%Z] end) order) in
     let ret_ok := if discard then true else zlist_eqb (zsort impl_ret) (zsort (map (b_fmt fmtmap) expected)) in
     let wr_ok := if sink then zlist_eqb (zsort impl_wr) (zsort (map_rows rowmap expected)) else true in
     if impl_ok && ret_ok && wr_ok
     then "Ok ret=" ++ show_list show_Z impl_ret
          ++ " wr=" ++ (if sink then show_list show_Z (zsort impl_wr) else "-") ++ " echo=T single=T"
     else "REJECT expected multiset " ++ show_list show_Z expected
          ++ (match rowmap with [] => "" | _ => " = sink records " ++ show_list show_Z (zsort (map_rows rowmap expected)) end)).

(* ---- expansion cases: one query alone.  M: the faithful model; S: every expanded query
   answered on its own (Batch.answer_ideal) -- they differ exactly in the class
   K_child_error_drops_siblings *)
Definition show_answers (l : list Z) : string :=
  "n=" ++ show_nat (List.length l) ++ " ids=" ++ show_list show_Z (zsort l).
Definition expansion_line (id : Z) (t : tables) (q : Z) : string :=
  line "M" id (match b_run false 1 1 t [q] with
               | Ok o => "Ok " ++ show_answers (Batch.returned o)
               | r => show_res (fun _ => "") r
               end).
Definition expansion_spec_line (id : Z) (t : tables) (q : Z) : string :=
  line "S" id
    ("Ok " ++ show_answers
       (match map b_plugin (t_stages t) with
        | [] => @Batch.answer FN Z Z (b_plugins t) (b_weight (t_kids t)) (b_resp (t_kids t))
                              (b_resp (t_kids t)) (fun r => r) q
        | grid :: later =>
            @Batch.answer_ideal FN Z Z grid later (b_is_object t) (b_invariant_error t)
                                (b_weight (t_kids t)) (b_resp (t_kids t)) (b_resp (t_kids t))
                                (fun r => r) (b_not_object_error t) q
        end)).
