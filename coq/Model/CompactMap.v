(* Executable model of routee-compass-core/src/util/compact_ordered_hash_map.rs
   (CompactOrderedHashMap<K,V>).  Definitions only; proofs are in Proofs/CompactMap.v.

   The NEntries variant wraps a std HashMap<K, IndexedEntry<V>>.  A HashMap is modelled as an
   association list with unique keys; every function below that reads it is written so that
   its result does not depend on the list order whenever the stored indices are unique
   (HashMap iteration order is unspecified in Rust). *)
From Coq Require Import List Arith Bool.
Import ListNotations.

Module CM.
Section CompactMap.
  Context {K V : Type} (keqb : K -> K -> bool).

  Definition hmap := list (K * (V * nat)).     (* key -> (value, index) *)

  Inductive cmap :=
  | One (k1 : K) (v1 : V)
  | Two (k1 k2 : K) (v1 v2 : V)
  | Three (k1 k2 k3 : K) (v1 v2 v3 : V)
  | Four (k1 k2 k3 k4 : K) (v1 v2 v3 v4 : V)
  | NE (m : hmap).

  (* ---- std HashMap operations used by the code ---- *)
  Fixpoint hget (m : hmap) (k : K) : option (V * nat) :=
    match m with
    | [] => None
    | (k', e) :: r => if keqb k' k then Some e else hget r k
    end.
  Fixpoint hins (m : hmap) (k : K) (e : V * nat) : hmap :=
    match m with
    | [] => [(k, e)]
    | (k', e') :: r => if keqb k' k then (k', e) :: r else (k', e') :: hins r k e
    end.
  Fixpoint hfind_index (m : hmap) (i : nat) : option (K * V) :=
    match m with
    | [] => None
    | (k, (v, j)) :: r => if Nat.eqb j i then Some (k, v) else hfind_index r i
    end.

  Definition empty : cmap := NE [].

  Definition len (c : cmap) : nat :=
    match c with
    | One _ _ => 1 | Two _ _ _ _ => 2 | Three _ _ _ _ _ _ => 3 | Four _ _ _ _ _ _ _ _ => 4
    | NE m => length m
    end.

  Fixpoint mem (k : K) (l : list K) : bool :=
    match l with [] => false | x :: r => keqb x k || mem k r end.
  Fixpoint nodupb (l : list K) : bool :=
    match l with [] => true | x :: r => negb (mem x r) && nodupb r end.

  (* HashMap built by collecting (k, IndexedEntry{v, index = position}) pairs: a later
     duplicate key replaces value and index. *)
  Fixpoint collect_indexed (entries : list (K * V)) (i : nat) (acc : hmap) : hmap :=
    match entries with
    | [] => acc
    | (k, v) :: r => collect_indexed r (S i) (hins acc k (v, i))
    end.

  Definition new (entries : list (K * V)) : cmap :=
    match entries with
    | [] => empty
    | [(k1, v1)] => One k1 v1
    | [(k1, v1); (k2, v2)] =>
        if nodupb [k1; k2] then Two k1 k2 v1 v2 else NE (collect_indexed entries 0 [])
    | [(k1, v1); (k2, v2); (k3, v3)] =>
        if nodupb [k1; k2; k3] then Three k1 k2 k3 v1 v2 v3 else NE (collect_indexed entries 0 [])
    | [(k1, v1); (k2, v2); (k3, v3); (k4, v4)] =>
        if nodupb [k1; k2; k3; k4] then Four k1 k2 k3 k4 v1 v2 v3 v4
        else NE (collect_indexed entries 0 [])
    | _ => NE (collect_indexed entries 0 [])
    end.

  Definition get (c : cmap) (k : K) : option V :=
    match c with
    | One k1 v1 => if keqb k1 k then Some v1 else None
    | Two k1 k2 v1 v2 => if keqb k1 k then Some v1 else if keqb k2 k then Some v2 else None
    | Three k1 k2 k3 v1 v2 v3 =>
        if keqb k1 k then Some v1 else if keqb k2 k then Some v2
        else if keqb k3 k then Some v3 else None
    | Four k1 k2 k3 k4 v1 v2 v3 v4 =>
        if keqb k1 k then Some v1 else if keqb k2 k then Some v2
        else if keqb k3 k then Some v3 else if keqb k4 k then Some v4 else None
    | NE m => option_map fst (hget m k)
    end.

  Definition contains_key (c : cmap) (k : K) : bool :=
    match get c k with Some _ => true | None => false end.

  (* insert: new map and the previous value at the key *)
  Definition insert (c : cmap) (k : K) (v : V) : cmap * option V :=
    match c with
    | NE [] => (One k v, None)
    | One k1 v1 =>
        if keqb k1 k then (One k1 v, Some v1) else (Two k1 k v1 v, None)
    | Two k1 k2 v1 v2 =>
        if keqb k1 k then (Two k1 k2 v v2, Some v1)
        else if keqb k2 k then (Two k1 k2 v1 v, Some v2)
        else (Three k1 k2 k v1 v2 v, None)
    | Three k1 k2 k3 v1 v2 v3 =>
        if keqb k1 k then (Three k1 k2 k3 v v2 v3, Some v1)
        else if keqb k2 k then (Three k1 k2 k3 v1 v v3, Some v2)
        else if keqb k3 k then (Three k1 k2 k3 v1 v2 v, Some v3)
        else (Four k1 k2 k3 k v1 v2 v3 v, None)
    | Four k1 k2 k3 k4 v1 v2 v3 v4 =>
        if keqb k1 k then (Four k1 k2 k3 k4 v v2 v3 v4, Some v1)
        else if keqb k2 k then (Four k1 k2 k3 k4 v1 v v3 v4, Some v2)
        else if keqb k3 k then (Four k1 k2 k3 k4 v1 v2 v v4, Some v3)
        else if keqb k4 k then (Four k1 k2 k3 k4 v1 v2 v3 v, Some v4)
        else (NE (hins (hins (hins (hins (hins [] k1 (v1, 0)) k2 (v2, 1)) k3 (v3, 2)) k4 (v4, 3))
                       k (v, 4)), None)
    | NE m =>
        (* index of an existing key is kept, a new key gets the next free index *)
        let index := match hget m k with Some (_, i) => i | None => length m end in
        (NE (hins m k (v, index)), option_map fst (hget m k))
    end.

  Definition get_pair (c : cmap) (i : nat) : option (K * V) :=
    match c with
    | One k1 v1 => match i with 0 => Some (k1, v1) | _ => None end
    | Two k1 k2 v1 v2 => match i with 0 => Some (k1, v1) | 1 => Some (k2, v2) | _ => None end
    | Three k1 k2 k3 v1 v2 v3 =>
        match i with 0 => Some (k1, v1) | 1 => Some (k2, v2) | 2 => Some (k3, v3) | _ => None end
    | Four k1 k2 k3 k4 v1 v2 v3 v4 =>
        match i with
        | 0 => Some (k1, v1) | 1 => Some (k2, v2) | 2 => Some (k3, v3) | 3 => Some (k4, v4)
        | _ => None end
    | NE m => if Nat.ltb (length m) i then None else hfind_index m i
    end.

  Definition get_index (c : cmap) (k : K) : option nat :=
    match c with
    | One k1 _ => if keqb k k1 then Some 0 else None
    | Two k1 k2 _ _ => if keqb k k1 then Some 0 else if keqb k k2 then Some 1 else None
    | Three k1 k2 k3 _ _ _ =>
        if keqb k k1 then Some 0 else if keqb k k2 then Some 1 else if keqb k k3 then Some 2 else None
    | Four k1 k2 k3 k4 _ _ _ _ =>
        if keqb k k1 then Some 0 else if keqb k k2 then Some 1 else if keqb k k3 then Some 2
        else if keqb k k4 then Some 3 else None
    | NE m => option_map snd (hget m k)
    end.

  (* CompactOrderedHashMapIter: index runs from 0 while index < len and get_pair answers *)
  Fixpoint iter_from (c : cmap) (i fuel : nat) : list (K * V) :=
    match fuel with
    | 0 => []
    | S f => match get_pair c i with
             | Some p => p :: iter_from c (S i) f
             | None => []
             end
    end.
  Definition iter (c : cmap) : list (K * V) := iter_from c 0 (len c).

  (* keys(): the specialised variants list their keys, NEntries sorts by stored index
     (stable insertion sort; with unique indices the result is order independent) *)
  Fixpoint insert_sorted (e : K * nat) (l : list (K * nat)) : list (K * nat) :=
    match l with
    | [] => [e]
    | x :: r => if Nat.leb (snd x) (snd e) then x :: insert_sorted e r else e :: x :: r
    end.
  Definition sort_by_index (m : hmap) : list K :=
    map fst (fold_left (fun acc kv => insert_sorted (fst kv, snd (snd kv)) acc) m []).
  Definition keys (c : cmap) : list K :=
    match c with
    | One k1 _ => [k1] | Two k1 k2 _ _ => [k1; k2] | Three k1 k2 k3 _ _ _ => [k1; k2; k3]
    | Four k1 k2 k3 k4 _ _ _ _ => [k1; k2; k3; k4]
    | NE m => sort_by_index m
    end.

  (* to_vec(): iter().enumerate() *)
  Fixpoint enumerate_from {A} (i : nat) (l : list A) : list (nat * A) :=
    match l with [] => [] | x :: r => (i, x) :: enumerate_from (S i) r end.
  Definition to_vec (c : cmap) : list (K * (V * nat)) :=
    map (fun p => (fst (snd p), (snd (snd p), fst p))) (enumerate_from 0 (iter c)).

  (* FromIterator: fold insert from empty *)
  Definition from_iter (l : list (K * V)) : cmap :=
    fold_left (fun c kv => fst (insert c (fst kv) (snd kv))) l empty.

  (* ---- the specification: an insertion-ordered association list ---- *)
  Definition spec := list (K * V).
  Fixpoint s_get (s : spec) (k : K) : option V :=
    match s with [] => None | (k', v) :: r => if keqb k' k then Some v else s_get r k end.
  Fixpoint s_ins (s : spec) (k : K) (v : V) : spec :=
    match s with
    | [] => [(k, v)]
    | (k', v') :: r => if keqb k' k then (k', v) :: r else (k', v') :: s_ins r k v
    end.
  Fixpoint s_index (s : spec) (k : K) : option nat :=
    match s with
    | [] => None
    | (k', _) :: r => if keqb k' k then Some 0 else option_map S (s_index r k)
    end.
End CompactMap.
Arguments cmap : clear implicits.
Arguments hmap : clear implicits.
Arguments spec : clear implicits.
End CM.
