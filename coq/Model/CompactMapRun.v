(* Runner used by the C11 correspondence stream: executes an operation sequence on the
   container model and on the association-list specification and prints every observable
   after every operation.  Keys and values are Z. *)
From Coq Require Import ZArith List String Bool.
From RC Require Import Base.Show Model.CompactMap.
Import ListNotations.
Open Scope string_scope.

Inductive ctor := CEmpty | CNew (l : list (Z * Z)) | CFromIter (l : list (Z * Z)).
Inductive op := OInsert (k v : Z).

Definition show_kv (p : Z * Z) : string := show_Z (fst p) ++ ":" ++ show_Z (snd p).
Definition show_kvi (p : Z * (Z * nat)) : string :=
  show_Z (fst p) ++ ":" ++ show_Z (fst (snd p)) ++ "@" ++ show_nat (snd (snd p)).

(* keys probed by get / get_index / contains_key after every operation *)
Definition probe_keys : list Z := [0;1;2;3;4;5;6;7;8;9;10;11;12]%Z.

Definition obs_cm (c : CM.cmap Z Z) : string :=
  "len=" ++ show_nat (CM.len c)
  ++ " iter=" ++ show_list show_kv (CM.iter c)
  ++ " keys=" ++ show_list show_Z (CM.keys c)
  ++ " vec=" ++ show_list show_kvi (CM.to_vec c)
  ++ " get=" ++ show_list (show_option show_Z) (map (CM.get Z.eqb c) probe_keys)
  ++ " idx=" ++ show_list (show_option show_nat) (map (CM.get_index Z.eqb c) probe_keys)
  ++ " pair=" ++ show_list (show_option show_kv) (map (CM.get_pair c) (seq 0 (CM.len c + 2))).

Definition init_cm (c : ctor) : CM.cmap Z Z :=
  match c with
  | CEmpty => CM.empty
  | CNew l => CM.new Z.eqb l
  | CFromIter l => CM.from_iter Z.eqb l
  end.

Fixpoint run_cm (c : CM.cmap Z Z) (ops : list op) : list string :=
  match ops with
  | [] => []
  | OInsert k v :: r =>
      let '(c', old) := CM.insert Z.eqb c k v in
      ("ret=" ++ show_option show_Z old ++ " " ++ obs_cm c') :: run_cm c' r
  end.
Definition line_cm (id : Z) (c : ctor) (ops : list op) : string :=
  line "M" id (join " | " (obs_cm (init_cm c) :: run_cm (init_cm c) ops)).

(* the same observables computed from the specification (an insertion-ordered list) *)
Definition enumerate {A} (l : list A) : list (nat * A) := CM.enumerate_from 0 l.
Definition obs_spec (s : CM.spec Z Z) : string :=
  "len=" ++ show_nat (List.length s)
  ++ " iter=" ++ show_list show_kv s
  ++ " keys=" ++ show_list show_Z (map fst s)
  ++ " vec=" ++ show_list show_kvi (map (fun p => (fst (snd p), (snd (snd p), fst p))) (enumerate s))
  ++ " get=" ++ show_list (show_option show_Z) (map (CM.s_get Z.eqb s) probe_keys)
  ++ " idx=" ++ show_list (show_option show_nat) (map (CM.s_index Z.eqb s) probe_keys)
  ++ " pair=" ++ show_list (show_option show_kv) (map (nth_error s) (seq 0 (List.length s + 2))).

Definition s_of_list (l : list (Z * Z)) : CM.spec Z Z :=
  fold_left (fun s kv => CM.s_ins Z.eqb s (fst kv) (snd kv)) l [].
(* `new` is specified only for duplicate-free input (a *set* of features); with duplicates
   the spec side prints "unspecified" and the comparison of that case is model-only. *)
Definition init_spec (c : ctor) : option (CM.spec Z Z) :=
  match c with
  | CEmpty => Some []
  | CNew l => if CM.nodupb Z.eqb (map fst l) then Some l else None
  | CFromIter l => Some (s_of_list l)
  end.
Fixpoint run_spec (s : CM.spec Z Z) (ops : list op) : list string :=
  match ops with
  | [] => []
  | OInsert k v :: r =>
      let s' := CM.s_ins Z.eqb s k v in
      ("ret=" ++ show_option show_Z (CM.s_get Z.eqb s k) ++ " " ++ obs_spec s') :: run_spec s' r
  end.
Definition line_spec (id : Z) (c : ctor) (ops : list op) : string :=
  line "S" id (match init_spec c with
               | Some s => join " | " (obs_spec s :: run_spec s ops)
               | None => "unspecified"
               end).

(* ---- family `huge`: n distinct keys a*j+b (j = 0..n-1) inserted in order, then some of them overwritten.
   By the refinement theorems (Props/C11.v: c11_every_op_sequence, c11_observers, for every length) the container
   represents the list of the n keys in insertion order, so: len = n, get_index (key j) = j, the indices are n distinct
   numbers, iteration has n items in insertion order.  The harness reports these summary facts of the implementation;
   this is the closed-form expectation (the same for the model and for the specification). *)
Fixpoint samples_from (fuel : nat) (j step n : Z) : list Z :=
  match fuel with
  | O => []
  | S f => if Z.ltb j n then j :: samples_from f (j + step)%Z step n else []
  end.
Definition huge_samples (n : Z) : list Z :=
  (samples_from 64 0 4096 n ++ (if Z.ltb 0 n then [(n - 1)%Z] else []))%list.
Definition huge_expect (n : Z) : string :=
  "len=" ++ show_Z n ++ " idx=" ++ show_list (fun j => "Some(" ++ show_Z j ++ ")") (huge_samples n)
  ++ " distinct_indices=" ++ show_Z n ++ " iter_len=" ++ show_Z n ++ " keys_len=" ++ show_Z n
  ++ " iter_in_insertion_order=T keys_in_insertion_order=T to_vec_indices_ascending=T values_ok=T".
Definition line_huge (tag : string) (id n : Z) : string := line tag id (huge_expect n).
