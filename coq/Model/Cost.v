(* Cost model of routee-compass-core (property C07).  Faithful transcription, definitions only.

     model/unit/cost.rs                      Cost::{ZERO, ONE, MIN_COST}, enforce_strictly_positive,
                                             enforce_non_negative  (constants and comparison operators are
                                             NOT written here: they come from Gen/CostConsts.v, regenerated
                                             from the Rust source by translator/tr_cost.py on every run)
     model/cost/vehicle/vehicle_cost_rate.rs VehicleCostRate::map_value            -> map_value
     model/cost/network/network_cost_rate.rs NetworkCostRate::{traversal_cost, access_cost}
                                                                                   -> n_traversal, n_access
     model/cost/cost_aggregation.rs          CostAggregation::agg_iter             -> aggregate
     model/cost/cost_ops.rs                  calculate_vehicle_costs, calculate_network_traversal_costs,
                                             calculate_network_access_costs        -> calc_vehicle, calc_net_traversal,
                                                                                      calc_net_access
     model/cost/cost_model.rs                CostModel::{new, traversal_cost, edge_cost, access_cost,
                                             cost_estimate}                        -> new, traversal_cost, edge_cost,
                                                                                      access_cost, cost_estimate
     app/compass/config/cost_model/          CostModelService::build (query overrides configuration)
                                                                                   -> service_build
     model/cost/network/network_cost_rate_builder.rs  NetworkCostRateBuilder::build   -> nbuild
     algorithm/search/edge_traversal.rs      EdgeTraversal::{forward_traversal, reverse_traversal, total_cost}
                                                                                   -> edge_traversal, total_cost

   Everything numeric is generic in [N : Num] (explicit first argument): [QN] in theorems, [FN] for bit-exact
   execution next to the Rust code.  The ORDER of the floating-point operations is the order of the Rust code:
     per feature   delta = next - prev;  cost = map_value(delta) * weight      (cost_ops.rs)
     Sum           sum = ZERO; sum = sum + cost   (left to right, state-model order)
     Mul           ZERO when there is no feature, else product = ONE; product = product * cost
     Combined      vehicle: fold (Cost::new(state)) (fun acc f => f.map_value acc);  network: fold ZERO (+)
     traversal_cost  esp (vehicle + network)            access_cost  esp (vehicle + network_access)
     edge_cost       esp ((vehicle + network) + network_access)       cost_estimate  enn vehicle
     EdgeTraversal   access = ZERO + access_cost;  traversal = total - access;  total_cost() = esp (access + traversal)

   A state vector shorter than the state model gives Err StateIndexOutOfBounds (the only failure the vectors
   built by CostModel::new allow: weights, vehicle rates and network rates always have one entry per feature).
   HashMap lookups (names -> weight/rate, edge id -> surcharge) are association lists with unique keys.
   Edges are represented by their EdgeId (the only field the cost model reads).                                   *)
From Coq Require Import ZArith List String Bool.
From RC Require Import Base.Num Base.Res Gen.CostConsts.
Import ListNotations.

Module Cost.
Import CostConsts.

(* rate shapes; the number type is a parameter so that a case read as floats can be re-read as rationals *)
Inductive vrate (A : Type) : Type :=
| VZero | VRaw | VFactor (f : A) | VOffset (o : A) | VCombined (l : list (vrate A)).
Arguments VZero {A}. Arguments VRaw {A}. Arguments VFactor {A} f. Arguments VOffset {A} o.
Arguments VCombined {A} l.

Inductive nrate (A : Type) : Type :=
| NZero | NEdge (l : list (Z * A)) | NEdgeEdge (l : list ((Z * Z) * A)) | NCombined (l : list (nrate A)).
Arguments NZero {A}. Arguments NEdge {A} l. Arguments NEdgeEdge {A} l. Arguments NCombined {A} l.

Inductive agg : Set := ASum | AMul.
Inductive direction : Set := Forward | Reverse.

Record feat (A : Type) : Type := { fw : A; fv : vrate A; fn : nrate A }.
Arguments fw {A} f. Arguments fv {A} f. Arguments fn {A} f. Arguments Build_feat {A} fw fv fn.

Record cost_model (A : Type) : Type := { cm_feats : list (feat A); cm_agg : agg }.
Arguments cm_feats {A} c. Arguments cm_agg {A} c. Arguments Build_cost_model {A} cm_feats cm_agg.

Definition pair_eqb (a b : Z * Z) : bool := Z.eqb (fst a) (fst b) && Z.eqb (snd a) (snd b).

Definition assoc {K A} (keqb : K -> K -> bool) (m : list (K * A)) (k : K) : option A :=
  match find (fun kv => keqb (fst kv) k) m with Some kv => Some (snd kv) | None => None end.

(* NetworkCostRateBuilder (model/cost/network/network_cost_rate_builder.rs): network rates backed by CSV files.
     traversal_lookup  rows (edge_id, cost)              -> EdgeLookup, rows collected into a HashMap (a later row of
     access_lookup     rows (source, destination, cost)  -> EdgeEdgeLookup   the same file replaces an earlier one)
     combined          members built in order            -> Combined(members), nothing merged
   [None] stands for a file that cannot be read (Err BuildError). *)
Inductive nbuilder (A : Type) : Type :=
| BTraversal (rows : option (list (Z * A)))
| BAccess (rows : option (list ((Z * Z) * A)))
| BCombined (l : list (nbuilder A)).
Arguments BTraversal {A} rows. Arguments BAccess {A} rows. Arguments BCombined {A} l.

Fixpoint nbuild {A} (b : nbuilder A) : res (nrate A) :=
  match b with
  | BTraversal (Some rows) => Ok (NEdge (rev rows))
  | BAccess (Some rows) => Ok (NEdgeEdge (rev rows))
  | BTraversal None | BAccess None => Err "BuildError"%string
  | BCombined l =>
      do rs <- (fix go (l : list (nbuilder A)) : res (list (nrate A)) :=
                  match l with
                  | [] => Ok []
                  | b' :: l' => do r <- nbuild b'; do rs <- go l'; Ok (r :: rs)
                  end) l;
      Ok (NCombined rs)
  end.

Section Model.
  Variable N : Num.

  Definition of_lit (p : Z * Z) : N := lit (fst p) (snd p).
  Definition cost_zero : N := of_lit ZERO.          (* Cost::ZERO *)
  Definition cost_one : N := of_lit ONE.            (* Cost::ONE *)
  Definition min_cost : N := of_lit MIN_COST.       (* Cost::MIN_COST *)

  (* `cost <= bound` / `cost < bound` on OrderedFloat: NaN is neither.  Operator, bound (Cost::ZERO in the
     unchanged source) and substitute of both clamps are read from the source by the translator. *)
  Definition cmp_bound (c : cmp) (x b : N) : bool :=
    match c with CLe => leb x b | CLt => ltb x b end.
  Definition cmp_zero (c : cmp) (x : N) : bool := cmp_bound c x cost_zero.
  Definition enforce_strictly_positive (x : N) : N :=
    if cmp_bound ESP_CMP x (of_lit ESP_BOUND) then of_lit ESP_SUBST else x.
  Definition enforce_non_negative (x : N) : N :=
    if cmp_bound ENN_CMP x (of_lit ENN_BOUND) then of_lit ENN_SUBST else x.

  (* VehicleCostRate::map_value *)
  Fixpoint map_value (r : vrate N) (x : N) : N :=
    match r with
    | VZero => cost_zero
    | VRaw => x
    | VFactor f => mul x f
    | VOffset o => add x o
    | VCombined l =>
        (fix go (l : list (vrate N)) (acc : N) : N :=
           match l with [] => acc | r' :: l' => go l' (map_value r' acc) end) l x
    end.

  Definition lookup_edge (l : list (Z * N)) (e : Z) : N :=
    match assoc Z.eqb l e with Some c => c | None => cost_zero end.
  Definition lookup_pair (l : list ((Z * Z) * N)) (pe : Z * Z) : N :=
    match assoc pair_eqb l pe with Some c => c | None => cost_zero end.

  (* NetworkCostRate::traversal_cost *)
  Fixpoint n_traversal (r : nrate N) (e : Z) : N :=
    match r with
    | NZero => cost_zero
    | NEdgeEdge _ => cost_zero
    | NEdge l => lookup_edge l e
    | NCombined rs =>
        (fix go (rs : list (nrate N)) (acc : N) : N :=
           match rs with [] => acc | r' :: rs' => go rs' (add acc (n_traversal r' e)) end) rs cost_zero
    end.
  (* NetworkCostRate::access_cost *)
  Fixpoint n_access (r : nrate N) (pe : Z * Z) : N :=
    match r with
    | NZero => cost_zero
    | NEdge _ => cost_zero
    | NEdgeEdge l => lookup_pair l pe
    | NCombined rs =>
        (fix go (rs : list (nrate N)) (acc : N) : N :=
           match rs with [] => acc | r' :: rs' => go rs' (add acc (n_access r' pe)) end) rs cost_zero
    end.

  (* CostAggregation::agg_iter on the per-feature costs, in state-model order *)
  Definition aggregate (a : agg) (cs : list N) : N :=
    match a with
    | ASum => fold_left add cs cost_zero
    | AMul => match cs with [] => cost_zero | _ :: _ => fold_left mul cs cost_one end
    end.

  (* the `indices.iter().map(...)` of cost_ops.rs: feature i reads slot i of both state vectors *)
  Fixpoint per_feature (term : feat N -> N -> N -> N) (fs : list (feat N)) (p n : list N) : res (list N) :=
    match fs with
    | [] => Ok []
    | f :: fs' =>
        match p, n with
        | a :: p', b :: n' => do r <- per_feature term fs' p' n'; Ok (term f a b :: r)
        | _, _ => Err "StateIndexOutOfBounds"%string
        end
    end.

  Definition vehicle_term (f : feat N) (a b : N) : N := mul (map_value (fv f) (sub b a)) (fw f).
  Definition net_traversal_term (e : Z) (f : feat N) (a b : N) : N := mul (n_traversal (fn f) e) (fw f).
  Definition net_access_term (pe : Z * Z) (f : feat N) (a b : N) : N := mul (n_access (fn f) pe) (fw f).

  Definition calc (term : feat N -> N -> N -> N) (cm : cost_model N) (p n : list N) : res N :=
    do cs <- per_feature term (cm_feats cm) p n; Ok (aggregate (cm_agg cm) cs).
  Definition calc_vehicle := calc vehicle_term.
  Definition calc_net_traversal (e : Z) := calc (net_traversal_term e).
  Definition calc_net_access (pe : Z * Z) := calc (net_access_term pe).

  (* CostModel::traversal_cost *)
  Definition traversal_cost (cm : cost_model N) (e : Z) (p n : list N) : res N :=
    do v <- calc_vehicle cm p n;
    do t <- calc_net_traversal e cm p n;
    Ok (enforce_strictly_positive (add v t)).
  (* CostModel::edge_cost *)
  Definition edge_cost (cm : cost_model N) (access : option (Z * Z)) (e : Z) (p n : list N) : res N :=
    do v <- calc_vehicle cm p n;
    do t <- calc_net_traversal e cm p n;
    do a <- match access with None => Ok cost_zero | Some pe => calc_net_access pe cm p n end;
    Ok (enforce_strictly_positive (add (add v t) a)).
  (* CostModel::access_cost *)
  Definition access_cost (cm : cost_model N) (pe : Z * Z) (p n : list N) : res N :=
    do v <- calc_vehicle cm p n;
    do a <- calc_net_access pe cm p n;
    Ok (enforce_strictly_positive (add v a)).
  (* CostModel::cost_estimate *)
  Definition cost_estimate (cm : cost_model N) (p n : list N) : res N :=
    do v <- calc_vehicle cm p n;
    Ok (enforce_non_negative v).

  (* CostModel::new: one (weight, vehicle rate, network rate) per state-model feature, in state-model order,
     defaults 0.0 / Zero / Zero; rejected when the weights sum to zero *)
  Definition new (weights : list (string * N)) (vrates : list (string * vrate N))
             (nrates : list (string * nrate N)) (a : agg) (names : list string) : res (cost_model N) :=
    let fs := map (fun nm =>
                     Build_feat (match assoc String.eqb weights nm with Some w => w | None => zero end)
                                (match assoc String.eqb vrates nm with Some r => r | None => VZero end)
                                (match assoc String.eqb nrates nm with Some r => r | None => NZero end)) names in
    if eqb (fold_left add (map fw fs) zero) zero then Err "InvalidCostVariables"%string
    else Ok (Build_cost_model fs a).

  (* CostModelService::build: weights / vehicle rates / aggregation of the query replace the configured ones;
     network rates always come from the configuration *)
  Definition service_build (cfg_w : list (string * N)) (cfg_v : list (string * vrate N))
             (cfg_n : list (string * nrate N)) (cfg_a : agg) (ignore_unknown : bool)
             (q_w : option (list (string * N))) (q_v : option (list (string * vrate N))) (q_a : option agg)
             (names : list string) : res (cost_model N) :=
    let w := match q_w with Some w => w | None => cfg_w end in
    let known := filter (fun nm => match assoc String.eqb w nm with Some _ => true | None => false end) names in
    if negb (Nat.eqb (List.length w) (List.length known)) && negb ignore_unknown
    then Err "UserConfigurationError"%string
    else match new w (match q_v with Some v => v | None => cfg_v end) cfg_n
                   (match q_a with Some a => a | None => cfg_a end) names with
         | Ok cm => Ok cm
         | _ => Err "UserConfigurationError"%string
         end.

  (* EdgeTraversal::forward_traversal / reverse_traversal.
       this   the edge being traversed           other  the edge it is reached from (forward: previous edge,
                                                        reverse: next edge), if any
       p      state before                       sa     state after the access model ran (read only when other <> None)
       st     state after the traversal model ran
     result: (access_cost, traversal_cost) of the EdgeTraversal *)
  Definition edge_pair (this : Z) (other : option Z) (d : direction) : option (Z * Z) :=
    match other with
    | None => None
    | Some o => Some (match d with Forward => (o, this) | Reverse => (this, o) end)
    end.
  Definition edge_traversal (cm : cost_model N) (this : Z) (other : option Z) (d : direction)
             (p sa st : list N) : res (N * N) :=
    do access <- match edge_pair this other d with
                 | None => Ok cost_zero
                 | Some pe => do ac <- access_cost cm pe p sa; Ok (add cost_zero ac)
                 end;
    do total <- edge_cost cm (edge_pair this other d) this p st;
    Ok (access, sub total access).
  (* EdgeTraversal::total_cost: the floor is enforced on the sum of the two shares as well *)
  Definition total_cost (et : N * N) : N := enforce_strictly_positive (add (fst et) (snd et)).
End Model.

Arguments cost_zero N : assert. Arguments cost_one N : assert. Arguments min_cost N : assert.
End Cost.
