(* Runner of the C07 correspondence stream `cost`.
   M lines: the model of Model/Cost.v instantiated with FN (binary64), printed bit-exactly.
   S lines: the specification of Model/CostSpec.v (exact rationals) applied to the IMPLEMENTATION's outputs,
            which the harness embeds in the term; when every output is accepted the S line re-prints those
            outputs in the format of the I line (so I = S), otherwise it prints REJECT and the failing observables.
   What the judge checks on the implementation's output (property C07):
     - a cost is returned exactly when both state vectors cover the state model;
     - every returned number is finite;
     - traversal_cost, access_cost, edge_cost and EdgeTraversal::total_cost() are strictly positive,
       cost_estimate is non-negative, the access share is non-negative;
     - each entry point equals the exact rational value of the specification (sum or product over the features of
       weight * rated state change plus weighted surcharges, floored / clipped) within a relative 1e-9 band whose
       scale is the same expression evaluated with absolute values (the forward-error scale of any binary64
       evaluation order);
     - access share + traversal share = the edge total returned by edge_cost, within the same band, and
       total_cost() is that total (or the floor, when the total is below the resolution of the two stored shares). *)
From Coq Require Import ZArith QArith Qabs List String Bool Floats.
From RC Require Import Base.Show Base.Res Base.Num Model.Cost Model.CostSpec.
Import ListNotations.
Open Scope string_scope.

Module CostRun.
Import Cost.

(* ---------- one case ---------- *)
Record case (A : Type) : Type := {
  c_names : list string;                       (* state model, in order *)
  c_glue : bool;                               (* true: CostModelBuilder + CostModelService::build; false: CostModel::new *)
  c_w : list (string * A); c_v : list (string * vrate A); c_n : list (string * nrate A); c_agg : agg;
  c_ignore : bool;                             (* ignore_unknown_user_provided_weights *)
  c_qw : option (list (string * A)); c_qv : option (list (string * vrate A)); c_qa : option agg;
  c_this : Z; c_other : Z; c_has_other : bool; (* edge traversed; the edge it is reached from / leads to *)
  c_p : list A; c_sa : list A; c_st : list A   (* state before; after the access model; after the traversal model *)
}.
Arguments c_names {A} c. Arguments c_glue {A} c. Arguments c_w {A} c. Arguments c_v {A} c. Arguments c_n {A} c.
Arguments c_agg {A} c. Arguments c_ignore {A} c. Arguments c_qw {A} c. Arguments c_qv {A} c. Arguments c_qa {A} c.
Arguments c_this {A} c. Arguments c_other {A} c. Arguments c_has_other {A} c.
Arguments c_p {A} c. Arguments c_sa {A} c. Arguments c_st {A} c.
Arguments Build_case {A}.

(* what is observed: six entry-point results and the two EdgeTraversal triples (access, traversal, total_cost()) *)
Record outs (A : Type) : Type := {
  o_tc : res A; o_est : res A;
  o_acf : res A; o_ecf : res A;      (* access_cost / edge_cost for the forward pair (other, this) *)
  o_acr : res A; o_ecr : res A;      (* ... for the reverse pair (this, other) *)
  o_fwd : res (A * A * A); o_rev : res (A * A * A)
}.
Arguments o_tc {A} o. Arguments o_est {A} o. Arguments o_acf {A} o. Arguments o_ecf {A} o.
Arguments o_acr {A} o. Arguments o_ecr {A} o. Arguments o_fwd {A} o. Arguments o_rev {A} o.
Arguments Build_outs {A}.

Definition opt_other {A} (c : case A) : option Z := if c_has_other c then Some (c_other c) else None.

Section Run.
  Variable N : Num.
  Definition build (c : case N) : res (cost_model N) :=
    if c_glue c
    then service_build N (c_w c) (c_v c) (c_n c) (c_agg c) (c_ignore c) (c_qw c) (c_qv c) (c_qa c) (c_names c)
    else new N (c_w c) (c_v c) (c_n c) (c_agg c) (c_names c).
  Definition triple (r : res (N * N)) : res (N * N * N) :=
    rmap (fun et => (fst et, snd et, total_cost N et)) r.
  Definition run (c : case N) : res (outs N) :=
    do cm <- build c;
    let pf := (c_other c, c_this c) in
    let pr := (c_this c, c_other c) in
    Ok (Build_outs
          (traversal_cost N cm (c_this c) (c_p c) (c_st c))
          (cost_estimate N cm (c_p c) (c_st c))
          (access_cost N cm pf (c_p c) (c_sa c))
          (edge_cost N cm (if c_has_other c then Some pf else None) (c_this c) (c_p c) (c_st c))
          (access_cost N cm pr (c_p c) (c_sa c))
          (edge_cost N cm (if c_has_other c then Some pr else None) (c_this c) (c_p c) (c_st c))
          (triple (edge_traversal N cm (c_this c) (opt_other c) Forward (c_p c) (c_sa c) (c_st c)))
          (triple (edge_traversal N cm (c_this c) (opt_other c) Reverse (c_p c) (c_sa c) (c_st c)))).
End Run.

(* ---------- printing (the harness prints the implementation's results in exactly this format) ---------- *)
Definition show_triple (t : float * float * float) : string :=
  "(" ++ show_float (fst (fst t)) ++ "," ++ show_float (snd (fst t)) ++ "," ++ show_float (snd t) ++ ")".
Definition show_outs (r : res (outs float)) : string :=
  match r with
  | Ok o =>
      "new=Ok tc=" ++ show_res show_float (o_tc o) ++ " est=" ++ show_res show_float (o_est o)
      ++ " acf=" ++ show_res show_float (o_acf o) ++ " ecf=" ++ show_res show_float (o_ecf o)
      ++ " acr=" ++ show_res show_float (o_acr o) ++ " ecr=" ++ show_res show_float (o_ecr o)
      ++ " fwd=" ++ show_res show_triple (o_fwd o) ++ " rev=" ++ show_res show_triple (o_rev o)
  | Err c => "new=Err " ++ c
  | Panic _ => "new=Panic"
  | OutOfFuel => "new=Hang"
  end.

Definition line_m (id : Z) (c : case float) : string := line "M" id (show_outs (run FN c)).

(* ---------- exact reading of a case ---------- *)
Definition F2Q (f : float) : Q :=
  match Prim2SF f with
  | S754_finite s m e =>
      let z := if s then Zneg m else Zpos m in
      match e with
      | Z0 => inject_Z z
      | Zpos p => inject_Z (z * 2 ^ Zpos p)
      | Zneg p => z # (2 ^ p)%positive
      end
  | _ => 0%Q
  end.
Definition finiteb (f : float) : bool :=
  match Prim2SF f with S754_finite _ _ _ | S754_zero _ => true | _ => false end.

Section MapRates.
  Context {A B : Type} (g : A -> B).
  Fixpoint vmap (r : vrate A) : vrate B :=
    match r with
    | VZero => VZero | VRaw => VRaw | VFactor f => VFactor (g f) | VOffset o => VOffset (g o)
    | VCombined l => VCombined (map vmap l)
    end.
  Fixpoint nmap (r : nrate A) : nrate B :=
    match r with
    | NZero => NZero
    | NEdge l => NEdge (map (fun kv => (fst kv, g (snd kv))) l)
    | NEdgeEdge l => NEdgeEdge (map (fun kv => (fst kv, g (snd kv))) l)
    | NCombined l => NCombined (map nmap l)
    end.
  Definition amap {K C D} (h : C -> D) (m : list (K * C)) : list (K * D) := map (fun kv => (fst kv, h (snd kv))) m.
  Definition case_map (c : case A) : case B :=
    Build_case (c_names c) (c_glue c) (amap g (c_w c)) (amap vmap (c_v c)) (amap nmap (c_n c)) (c_agg c) (c_ignore c)
               (option_map (amap g) (c_qw c)) (option_map (amap vmap) (c_qv c)) (c_qa c)
               (c_this c) (c_other c) (c_has_other c) (map g (c_p c)) (map g (c_sa c)) (map g (c_st c)).
End MapRates.

Section Folds.
  Context {A : Type} (g : A -> bool).
  Fixpoint vall (r : vrate A) : bool :=
    match r with
    | VFactor f => g f | VOffset o => g o | VCombined l => forallb vall l | _ => true
    end.
  Fixpoint nall (r : nrate A) : bool :=
    match r with
    | NEdge l => forallb (fun kv => g (snd kv)) l
    | NEdgeEdge l => forallb (fun kv => g (snd kv)) l
    | NCombined l => forallb nall l
    | NZero => true
    end.
  Definition case_all (c : case A) : bool :=
    forallb (fun kv => g (snd kv)) (c_w c) && forallb (fun kv => vall (snd kv)) (c_v c)
    && forallb (fun kv => nall (snd kv)) (c_n c)
    && match c_qw c with Some w => forallb (fun kv => g (snd kv)) w | None => true end
    && match c_qv c with Some v => forallb (fun kv => vall (snd kv)) v | None => true end
    && forallb g (c_p c) && forallb g (c_sa c) && forallb g (c_st c).
End Folds.

(* ---------- the judge (exact rationals) ---------- *)
Module Judge.
  Import CostSpec.
  Local Open Scope Q_scope.

  Definition eps : Q := 1 # 1000000000.

  (* the features the configuration denotes (defaults 0 / Zero / Zero; the query replaces weights, vehicle rates
     and aggregation) -- written without the zero-sum rejection of CostModel::new *)
  Definition eff_w (c : case Q) := match c_glue c, c_qw c with true, Some w => w | _, _ => c_w c end.
  Definition eff_v (c : case Q) := match c_glue c, c_qv c with true, Some v => v | _, _ => c_v c end.
  Definition eff_a (c : case Q) := match c_glue c, c_qa c with true, Some a => a | _, _ => c_agg c end.
  Definition feats (c : case Q) : list (feat Q) :=
    map (fun nm => Build_feat (match assoc String.eqb (eff_w c) nm with Some w => w | None => 0 end)
                              (match assoc String.eqb (eff_v c) nm with Some r => r | None => VZero end)
                              (match assoc String.eqb (c_n c) nm with Some r => r | None => NZero end)) (c_names c).
  Definition unknown_weights (c : case Q) : bool :=
    negb (forallb (fun kv => existsb (String.eqb (fst kv)) (c_names c)) (eff_w c)).

  Definition abs_feat (f : feat Q) : feat Q :=
    Build_feat (Qabs (fw f)) (vmap Qabs (fv f)) (nmap Qabs (fn f)).
  (* the same expression on absolute values: an upper bound of every intermediate of any evaluation order *)
  Definition veh_mag a fs p n : Q :=
    agg_spec a (map (fun r : feat Q * Q * Q => let '(f, x, y) := r in fw f * rated (fv f) (Qabs (y - x)))
                    (rows (map abs_feat fs) p n)).
  Definition edge_mag a fs e p n : Q := edge_total a (map abs_feat fs) e p n.
  Definition turn_mag a fs pe p n : Q := turn_total a (map abs_feat fs) pe p n.

  Definition covers (fs : list (feat Q)) (p n : list Q) : bool :=
    Nat.leb (List.length fs) (List.length p) && Nat.leb (List.length fs) (List.length n).

  Definition near (tol x y : Q) : bool := Qle_bool (Qabs (x - y)) tol.
  (* value v against: exact uncapped value x, clamp (floor_pos / clip0), substitute s *)
  Definition matches (clamp : Q -> Q) (s : Q) (mag x v : Q) : bool :=
    let tol := eps * (mag + MIN) in
    near tol v (clamp x) || (Qle_bool (Qabs x) tol && (near tol v s || near tol v x)).

  Inductive kind := Positive | NonNegative.
  (* one entry point: expected Err exactly when the vectors do not cover the state model *)
  Definition judge1 (k : kind) (ok : bool) (mag x : Q) (r : res float) : bool :=
    match r with
    | Ok v =>
        ok && finiteb v
        && match k with
           | Positive => negb (Qle_bool (F2Q v) 0) && matches floor_pos MIN mag x (F2Q v)
           | NonNegative => Qle_bool 0 (F2Q v) && matches clip0 0 mag x (F2Q v)
           end
    | Err cls => negb ok && String.eqb cls "StateIndexOutOfBounds"
    | _ => false
    end.

  (* EdgeTraversal against the implementation's own access_cost / edge_cost for the same pair *)
  Definition judge_split (has_other : bool) (ac ec : res float) (t : res (float * float * float)) : bool :=
    match t with
    | Ok (a, tr, tot) =>
        finiteb a && finiteb tr && finiteb tot
        && match ec with
           | Ok e =>
               let qa := F2Q a in let qe := F2Q e in
               let tol := eps * (Qabs qa + Qabs qa + Qabs qe) in
               negb (Qle_bool (F2Q tot) 0)                         (* total_cost() strictly positive *)
               && (near tol (F2Q tot) qe                           (* = the floored total of the edge, or the *)
                   || (Qle_bool qe tol                             (* floor when that total is below the     *)
                       && near (eps * MIN) (F2Q tot) MIN))         (* resolution of the stored shares        *)
               && near tol (qa + F2Q tr) qe                        (* the two shares sum to it *)
               && (if has_other
                   then match ac with Ok x => Qeq_bool qa (F2Q x) && negb (Qle_bool qa 0) | _ => false end
                   else Qeq_bool qa 0)
           | _ => false
           end
    | Err cls =>
        match ec, (if has_other then ac else ec) with
        | Ok _, Ok _ => false
        | _, _ => String.eqb cls "StateIndexOutOfBounds"
        end
    | _ => false
    end.

  Definition judge (c : case Q) (r : res (outs float)) : list string :=
    let fs := feats c in
    let a := eff_a c in
    match r with
    | Err cls =>
        (* construction rejected: only when the weights sum to zero (up to rounding), or unknown weights are not ignored *)
        let ws := map fw fs in
        if String.eqb cls "InvalidCostVariables" || String.eqb cls "UserConfigurationError"
        then if Qle_bool (Qabs (Qsum ws)) (eps * Qsum (map Qabs ws))
                || (c_glue c && negb (c_ignore c) && unknown_weights c)
             then [] else ["new"]
        else ["new"]
    | Ok o =>
        let p := c_p c in let sa := c_sa c in let st := c_st c in
        let this := c_this c in
        let pf := (c_other c, this) in let pr := (this, c_other c) in
        let okt := covers fs p st in let oka := covers fs p sa in
        let vt := veh_total a fs p st in let vtm := veh_mag a fs p st in
        let va := veh_total a fs p sa in let vam := veh_mag a fs p sa in
        let et := edge_total a fs this p st in let etm := edge_mag a fs this p st in
        let tn pe (s : list Q) := turn_total a fs (Some pe) p s in
        let tnm pe (s : list Q) := turn_mag a fs (Some pe) p s in
        let opt pe := if c_has_other c then tn pe st else 0 in
        let optm pe := if c_has_other c then tnm pe st else 0 in
        (if judge1 Positive okt (vtm + etm) (vt + et) (o_tc o) then [] else ["tc"])
        ++ (if judge1 NonNegative okt vtm vt (o_est o) then [] else ["est"])
        ++ (if judge1 Positive oka (vam + tnm pf sa) (va + tn pf sa) (o_acf o) then [] else ["acf"])
        ++ (if judge1 Positive okt (vtm + etm + optm pf) (vt + et + opt pf) (o_ecf o) then [] else ["ecf"])
        ++ (if judge1 Positive oka (vam + tnm pr sa) (va + tn pr sa) (o_acr o) then [] else ["acr"])
        ++ (if judge1 Positive okt (vtm + etm + optm pr) (vt + et + opt pr) (o_ecr o) then [] else ["ecr"])
        ++ (if judge_split (c_has_other c) (o_acf o) (o_ecf o) (o_fwd o) then [] else ["fwd"])
        ++ (if judge_split (c_has_other c) (o_acr o) (o_ecr o) (o_rev o) then [] else ["rev"])
    | _ => ["new"]
    end.
End Judge.

(* ================= stream `seq`: call SEQUENCES on ONE CostModel instance =================
   The cost model is a function of its arguments: every call of a sequence must return what a fresh model returns
   for the same arguments, whatever was asked before (no memory between calls).  M runs the (pure) model call by
   call, S judges every call for its own arguments. *)
Inductive call : Set :=
| CAccess (pe : Z * Z)                   (* access_cost(prev, next, p, sa) *)
| CTrav (e : Z)                          (* traversal_cost(e, p, st) *)
| CEdge (pe : option (Z * Z)) (e : Z)    (* edge_cost(pe, e, p, st) *)
| CEst.                                  (* cost_estimate(p, st) *)

Definition run_call (N : Num) (cm : cost_model N) (c : case N) (k : call) : res N :=
  match k with
  | CAccess pe => access_cost N cm pe (c_p c) (c_sa c)
  | CTrav e => traversal_cost N cm e (c_p c) (c_st c)
  | CEdge pe e => edge_cost N cm pe e (c_p c) (c_st c)
  | CEst => cost_estimate N cm (c_p c) (c_st c)
  end.
Definition run_seq (N : Num) (c : case N) (ks : list call) : res (list (res N)) :=
  do cm <- build N c; Ok (map (run_call N cm c) ks).
Definition show_seq (r : res (list (res float))) : string :=
  match r with
  | Ok l => "new=Ok " ++ show_list (show_res show_float) l
  | Err c => "new=Err " ++ c
  | Panic _ => "new=Panic"
  | OutOfFuel => "new=Hang"
  end.
Definition line_mseq (id : Z) (c : case float) (ks : list call) : string := line "M" id (show_seq (run_seq FN c ks)).

Module JudgeSeq.
  Import CostSpec Judge.
  Local Open Scope Q_scope.
  Definition judge_call (c : case Q) (k : call) (r : res float) : bool :=
    let fs := feats c in let a := eff_a c in
    let p := c_p c in let sa := c_sa c in let st := c_st c in
    let okt := covers fs p st in let oka := covers fs p sa in
    let vt := veh_total a fs p st in let vtm := veh_mag a fs p st in
    match k with
    | CAccess pe =>
        judge1 Positive oka (veh_mag a fs p sa + turn_mag a fs (Some pe) p sa)
               (veh_total a fs p sa + turn_total a fs (Some pe) p sa) r
    | CTrav e => judge1 Positive okt (vtm + edge_mag a fs e p st) (vt + edge_total a fs e p st) r
    | CEdge pe e =>
        judge1 Positive okt (vtm + edge_mag a fs e p st + turn_mag a fs pe p st)
               (vt + edge_total a fs e p st + turn_total a fs pe p st) r
    | CEst => judge1 NonNegative okt vtm vt r
    end.
  Fixpoint judge_calls (c : case Q) (i : nat) (ks : list call) (rs : list (res float)) : list string :=
    match ks, rs with
    | [], [] => []
    | k :: ks', r :: rs' =>
        (if judge_call c k r then [] else ["call" ++ show_nat i]) ++ judge_calls c (S i) ks' rs'
    | _, _ => ["length"]
    end.
  Definition judge_seq (c : case Q) (ks : list call) (r : res (list (res float))) : list string :=
    match r with
    | Ok rs => judge_calls c 0 ks rs
    | Err cls => judge c (Err cls)
    | _ => ["new"]
    end.
End JudgeSeq.
Definition line_sseq (id : Z) (c : case float) (ks : list call) (r : res (list (res float))) : string :=
  line "S" id
    (if case_all finiteb c
     then match JudgeSeq.judge_seq (case_map F2Q c) ks r with
          | [] => show_seq r
          | bad => "REJECT " ++ join "," bad
          end
     else "unspecified").

(* ================= stream `svc`: query SEQUENCES on ONE CostModelService =================
   CostModelService::build is a function of (configuration, query, state model): every query of a sequence must get the
   cost model a fresh service would give it -- its OWN weights / vehicle_rates / cost_aggregation overrides.  Observed per
   query: traversal_cost(this, p, st) and edge_cost((other, this), this, p, st) of the model built for it. *)
Definition query (A : Type) : Type := (option (list (string * A)) * option (list (string * vrate A)) * option agg)%type.
Definition with_query {A} (c : case A) (q : query A) : case A :=
  Build_case (c_names c) true (c_w c) (c_v c) (c_n c) (c_agg c) (c_ignore c) (fst (fst q)) (snd (fst q)) (snd q)
             (c_this c) (c_other c) (c_has_other c) (c_p c) (c_sa c) (c_st c).
Definition run_query (N : Num) (c : case N) (q : query N) : res (res N * res N) :=
  let c' := with_query c q in
  do cm <- build N c';
  Ok (traversal_cost N cm (c_this c) (c_p c) (c_st c),
      edge_cost N cm (Some (c_other c, c_this c)) (c_this c) (c_p c) (c_st c)).
Definition show_rq (r : res (res float * res float)) : string :=
  show_res (fun x => "(" ++ show_res show_float (fst x) ++ ";" ++ show_res show_float (snd x) ++ ")") r.
Definition show_svc (r : res (list (res (res float * res float)))) : string :=
  match r with
  | Ok l => "svc=Ok " ++ show_list show_rq l
  | Err c => "svc=Err " ++ c
  | Panic _ => "svc=Panic"
  | OutOfFuel => "svc=Hang"
  end.
Definition line_msvc (id : Z) (c : case float) (qs : list (query float)) : string :=
  line "M" id (show_svc (Ok (map (run_query FN c) qs))).

Module JudgeSvc.
  Import CostSpec Judge.
  Local Open Scope Q_scope.
  Definition judge_q (c : case Q) (r : res (res float * res float)) : bool :=
    match r with
    | Err cls => match judge c (Err cls) with [] => true | _ => false end
    | Ok (tc, ec) =>
        let fs := feats c in let a := eff_a c in
        let p := c_p c in let st := c_st c in let this := c_this c in
        let pf := Some (c_other c, this) in
        let okt := covers fs p st in
        let vt := veh_total a fs p st in let vtm := veh_mag a fs p st in
        let et := edge_total a fs this p st in let etm := edge_mag a fs this p st in
        judge1 Positive okt (vtm + etm) (vt + et) tc
        && judge1 Positive okt (vtm + etm + turn_mag a fs pf p st) (vt + et + turn_total a fs pf p st) ec
    | _ => false
    end.
  Fixpoint judge_qs (c : case Q) (i : nat) (qs : list (query Q)) (rs : list (res (res float * res float))) : list string :=
    match qs, rs with
    | [], [] => []
    | q :: qs', r :: rs' =>
        (if judge_q (with_query c q) r then [] else ["query" ++ show_nat i]) ++ judge_qs c (S i) qs' rs'
    | _, _ => ["length"]
    end.
End JudgeSvc.
Definition query_map {A B} (g : A -> B) (q : query A) : query B :=
  (option_map (amap g) (fst (fst q)), option_map (amap (vmap g)) (snd (fst q)), snd q).
Definition line_ssvc (id : Z) (c : case float) (qs : list (query float)) (r : res (list (res (res float * res float)))) : string :=
  line "S" id
    (if forallb (fun q => case_all finiteb (with_query c q)) qs && case_all finiteb c
     then match r with
          | Ok rs => match JudgeSvc.judge_qs (case_map F2Q c) 0 (map (query_map F2Q) qs) rs with
                     | [] => show_svc r
                     | bad => "REJECT " ++ join "," bad
                     end
          | _ => "REJECT service"
          end
     else "unspecified").

(* ================= stream `builder`: network rates read from CSV files by NetworkCostRateBuilder =================
   The harness writes the tables of the case to CSV files, builds the REAL builder, and observes on the returned
   rate: traversal_cost for every probed edge, access_cost for every probed pair, and CostModel::edge_cost of a
   one-feature model (weight w, raw rate, state change d) for every probed pair.  S: each surcharge is the SUM over
   all configured tables (Model/CostSpec.v builder_edge_fee / builder_turn_fee), the charge is floored w*d + w*fees. *)
Record bcase (A : Type) : Type := {
  b_builder : nbuilder A; b_edges : list Z; b_pairs : list (Z * Z); b_w : A; b_d : A }.
Arguments b_builder {A} b. Arguments b_edges {A} b. Arguments b_pairs {A} b. Arguments b_w {A} b. Arguments b_d {A} b.
Arguments Build_bcase {A}.
Definition bouts (A : Type) : Type := (list A * list A * list (res A))%type.

Definition run_builder (N : Num) (c : bcase N) : res (bouts N) :=
  do r <- nbuild (b_builder c);
  let cm := Build_cost_model [Build_feat (b_w c) VRaw r] ASum in
  Ok (map (n_traversal N r) (b_edges c), map (n_access N r) (b_pairs c),
      map (fun pe => edge_cost N cm (Some pe) (snd pe) [zero] [b_d c]) (b_pairs c)).
Definition show_bouts (r : res (bouts float)) : string :=
  match r with
  | Ok (t, a, e) => "build=Ok t=" ++ show_list show_float t ++ " a=" ++ show_list show_float a
                    ++ " ec=" ++ show_list (show_res show_float) e
  | Err c => "build=Err " ++ c
  | Panic _ => "build=Panic"
  | OutOfFuel => "build=Hang"
  end.
Definition line_mb (id : Z) (c : bcase float) : string := line "M" id (show_bouts (run_builder FN c)).

Section MapBuilder.
  Context {A B : Type} (g : A -> B).
  Fixpoint bmap (b : nbuilder A) : nbuilder B :=
    match b with
    | BTraversal rows => BTraversal (option_map (map (fun kv => (fst kv, g (snd kv)))) rows)
    | BAccess rows => BAccess (option_map (map (fun kv => (fst kv, g (snd kv)))) rows)
    | BCombined l => BCombined (map bmap l)
    end.
End MapBuilder.
Fixpoint ball {A} (g : A -> bool) (b : nbuilder A) : bool :=
  match b with
  | BTraversal (Some rows) => forallb (fun kv => g (snd kv)) rows
  | BAccess (Some rows) => forallb (fun kv => g (snd kv)) rows
  | BCombined l => forallb (ball g) l
  | _ => true
  end.
Fixpoint breadable {A} (b : nbuilder A) : bool :=
  match b with
  | BTraversal None | BAccess None => false
  | BCombined l => forallb breadable l
  | _ => true
  end.

Module JudgeBuilder.
  Import CostSpec Judge.
  Local Open Scope Q_scope.
  Fixpoint all2 {X Y} (f : X -> Y -> bool) (xs : list X) (ys : list Y) : bool :=
    match xs, ys with
    | [], [] => true
    | x :: xs', y :: ys' => f x y && all2 f xs' ys'
    | _, _ => false
    end.
  Definition judge_b (c : bcase Q) (r : res (bouts float)) : list string :=
    let b := b_builder c in let ab := bmap Qabs b in
    match r with
    | Err cls => if negb (breadable b) && String.eqb cls "BuildError" then [] else ["build"]
    | Ok (t, a, e) =>
        if negb (breadable b) then ["build"] else
        (if all2 (fun k v => finiteb v && near (eps * builder_edge_fee ab k) (F2Q v) (builder_edge_fee b k)) (b_edges c) t
         then [] else ["t"])
        ++ (if all2 (fun k v => finiteb v && near (eps * builder_turn_fee ab k) (F2Q v) (builder_turn_fee b k)) (b_pairs c) a
            then [] else ["a"])
        ++ (if all2 (fun k v =>
                       let fee := builder_edge_fee b (snd k) + builder_turn_fee b k in
                       let feem := builder_edge_fee ab (snd k) + builder_turn_fee ab k in
                       judge1 Positive true (Qabs (b_w c) * (Qabs (b_d c) + feem)) (b_w c * b_d c + b_w c * fee) v)
                    (b_pairs c) e
            then [] else ["ec"])
    | _ => ["build"]
    end.
End JudgeBuilder.
Definition line_sb (id : Z) (c : bcase float) (r : res (bouts float)) : string :=
  line "S" id
    (if ball finiteb (b_builder c) && finiteb (b_w c) && finiteb (b_d c)
     then match JudgeBuilder.judge_b (Build_bcase (bmap F2Q (b_builder c)) (b_edges c) (b_pairs c) (F2Q (b_w c)) (F2Q (b_d c))) r with
          | [] => show_bouts r
          | bad => "REJECT " ++ join "," bad
          end
     else "unspecified").

Definition line_s (id : Z) (c : case float) (r : res (outs float)) : string :=
  line "S" id
    (if case_all finiteb c
     then match Judge.judge (case_map F2Q c) r with
          | [] => show_outs r
          | bad => "REJECT " ++ join "," bad
          end
     else "unspecified").
End CostRun.
