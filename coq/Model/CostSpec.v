(* SPECIFICATION side of property C07, in exact rationals, written independently of the executable model
   (Model/Cost.v): plain sums and products over the features, rates as affine maps, surcharges as sums of
   the configured table hits.  Definitions only.  Proofs/Cost.v proves that the model read in Q computes
   exactly these values; Model/CostRun.v evaluates them on the implementation's output. *)
From Coq Require Import ZArith QArith List Bool.
From RC Require Import Base.Num Model.Cost.
Import ListNotations.

Module CostSpec.
Import Cost.
Local Open Scope Q_scope.

(* the floor, the value Cost::MIN_COST has in the source (Gen/CostConsts.v) *)
Definition MIN : Q := Cost.min_cost QN.

Definition Qsum (l : list Q) : Q := fold_right Qplus 0 l.
Definition Qprod (l : list Q) : Q := fold_right Qmult 1 l.

(* a vehicle rate is an affine map x |-> slope * x + intercept; Combined composes left to right *)
Fixpoint affine (r : vrate Q) : Q * Q :=
  match r with
  | VZero => (0, 0)
  | VRaw => (1, 0)
  | VFactor f => (f, 0)
  | VOffset o => (1, o)
  | VCombined l =>
      (fix go (l : list (vrate Q)) (acc : Q * Q) : Q * Q :=
         match l with
         | [] => acc
         | r' :: l' => go l' (fst acc * fst (affine r'), snd acc * fst (affine r') + snd (affine r'))
         end) l (1, 0)
  end.
(* "rated state change" of a feature *)
Definition rated (r : vrate Q) (d : Q) : Q := fst (affine r) * d + snd (affine r).

(* per-edge surcharge configured for edge e: every EdgeLookup hit, through any nesting of Combined *)
Fixpoint edge_fee (r : nrate Q) (e : Z) : Q :=
  match r with
  | NEdge l => match assoc Z.eqb l e with Some c => c | None => 0 end
  | NCombined rs => Qsum (map (fun r' => edge_fee r' e) rs)
  | _ => 0
  end.
(* per-turn surcharge configured for the edge pair pe: every EdgeEdgeLookup hit *)
Fixpoint turn_fee (r : nrate Q) (pe : Z * Z) : Q :=
  match r with
  | NEdgeEdge l => match assoc pair_eqb l pe with Some c => c | None => 0 end
  | NCombined rs => Qsum (map (fun r' => turn_fee r' pe) rs)
  | _ => 0
  end.
Definition turn_fee_opt (r : nrate Q) (pe : option (Z * Z)) : Q :=
  match pe with None => 0 | Some pe => turn_fee r pe end.

(* CSV-backed tables (NetworkCostRateBuilder): the value a table gives a key is that of its LAST row with the key,
   0 when no row has it; a combined configuration charges the SUM over all its tables, at any nesting *)
Definition last_row {K} (keqb : K -> K -> bool) (rows : list (K * Q)) (k : K) : option Q :=
  fold_left (fun acc kv => if keqb (fst kv) k then Some (snd kv) else acc) rows None.
Definition table_value {K} (keqb : K -> K -> bool) (rows : list (K * Q)) (k : K) : Q :=
  match last_row keqb rows k with Some c => c | None => 0 end.
Fixpoint builder_edge_fee (b : nbuilder Q) (e : Z) : Q :=
  match b with
  | BTraversal (Some rows) => table_value Z.eqb rows e
  | BCombined l => Qsum (map (fun b' => builder_edge_fee b' e) l)
  | _ => 0
  end.
Fixpoint builder_turn_fee (b : nbuilder Q) (pe : Z * Z) : Q :=
  match b with
  | BAccess (Some rows) => table_value pair_eqb rows pe
  | BCombined l => Qsum (map (fun b' => builder_turn_fee b' pe) l)
  | _ => 0
  end.

(* feature i with slot i of the previous and of the next state vector *)
Fixpoint rows {A} (fs : list (feat A)) (p n : list A) : list (feat A * A * A) :=
  match fs, p, n with
  | f :: fs', a :: p', b :: n' => (f, a, b) :: rows fs' p' n'
  | _, _, _ => []
  end.

Definition veh_term (r : feat Q * Q * Q) : Q := let '(f, a, b) := r in fw f * rated (fv f) (b - a).
Definition edge_term (e : Z) (r : feat Q * Q * Q) : Q := let '(f, _, _) := r in fw f * edge_fee (fn f) e.
Definition turn_term (pe : Z * Z) (r : feat Q * Q * Q) : Q := let '(f, _, _) := r in fw f * turn_fee (fn f) pe.

Definition agg_spec (a : agg) (l : list Q) : Q :=
  match a with
  | ASum => Qsum l
  | AMul => match l with [] => 0 | _ :: _ => Qprod l end
  end.

Definition veh_total (a : agg) fs p n : Q := agg_spec a (map veh_term (rows fs p n)).
Definition edge_total (a : agg) fs (e : Z) p n : Q := agg_spec a (map (edge_term e) (rows fs p n)).
Definition turn_total (a : agg) fs (pe : option (Z * Z)) p n : Q :=
  match pe with None => 0 | Some pe => agg_spec a (map (turn_term pe) (rows fs p n)) end.

(* what the edge is charged before flooring *)
Definition raw_total (a : agg) fs (pe : option (Z * Z)) (e : Z) p n : Q :=
  veh_total a fs p n + edge_total a fs e p n + turn_total a fs pe p n.

(* strictly positive: the value itself when positive, the floor otherwise *)
Definition floor_pos (x : Q) : Q := if Qle_bool x 0 then MIN else x.
(* non-negative: clip at zero *)
Definition clip0 (x : Q) : Q := if Qle_bool 0 x then x else 0.

Definition charge (a : agg) fs pe e p n : Q := floor_pos (raw_total a fs pe e p n).

(* the sentence of the property for sum aggregation, as one sum over the features *)
Definition sum_form fs (pe : option (Z * Z)) (e : Z) p n : Q :=
  Qsum (map (fun r : feat Q * Q * Q => let '(f, a, b) := r in
               fw f * rated (fv f) (b - a) + fw f * (edge_fee (fn f) e + turn_fee_opt (fn f) pe))
            (rows fs p n)).

(* weights replaced, rates kept *)
Fixpoint reweight (ws : list Q) (fs : list (feat Q)) : list (feat Q) :=
  match ws, fs with
  | w :: ws', f :: fs' => Build_feat w (fv f) (fn f) :: reweight ws' fs'
  | _, _ => []
  end.
Fixpoint lincomb (a : Q) (u : list Q) (b : Q) (v : list Q) : list Q :=
  match u, v with
  | x :: u', y :: v' => (a * x + b * y) :: lincomb a u' b v'
  | _, _ => []
  end.
End CostSpec.
