(* Runner of the end-to-end streams (harness/src/bin/e2e.rs): the EXISTING verified checkers and specifications,
   evaluated on facts extracted from the JSON response of a real CompassApp (CompassApp::run on a generated
   configuration + network).  Nothing is proved or re-defined here; every verdict is a call into

     app_walk  (C01)  SR.check_outcome  = SearchSpec.check_route / check_eroute / check_tree / check_etree
                      (sound + complete: Proofs/SearchCheck.v) against the network the files describe
     app_sums  (C03)  TR.judge (Model/TraversalRun.v: closed-form sums of Model/TraversalSpec.v in exact rationals)
                      and TR.run FN (the binary64 traversal model, M line) on the path the application returned
     app_reach (C05)  RR.judge (Model/ReachRun.v: Reach.reachb / pwalkb / reach_set / Bellman-Ford, Proofs/ReachSet.v)

     app_frontier (C04) FrontierRun.check_outcome (raw-table judge of Model/FrontierSpec.v: no tree / route edge
                      inadmissible by the files, no restricted consecutive pair in travel order) + the builder/service
                      model Frontier.build for the class of the response (M line)
     app_limits (C10) TerminationRun.TR.check_case on the limits READ FROM THE CONFIGURATION (TR.configured); the
                      counters of a limited run are those of the unlimited run up to the first test the configured
                      limit fails (limited = prefix of unlimited: Proofs/Termination*.v)
     app_ksp    (C13) KspRun.KR.check_case (Model/KspSpec.v over exact rationals)

   S lines print the text the harness expects for an accepted response and REJECT(..) otherwise, so that I = S exactly
   when the application's answer meets the property.  Definitions only. *)
From Coq Require Import ZArith NArith QArith List Arith Bool String Floats.
From RC Require Import Base.Show Base.Res Base.Num Base.Json Model.Search Model.SearchSpec Model.SearchRun Model.Reach
  Model.ReachRun Model.Units Model.StateOps Model.Traversal Model.Cost Model.TraversalRun.
(* the runners of C04 / C10 / C13 are only named, never imported (two of them are called TR; stdpp notations stay out) *)
From RC Require Model.Frontier Model.FrontierSpec Model.FrontierRun Model.Termination Model.TerminationRun
  Model.Ksp Model.KspSpec Model.KspRun.
Import ListNotations.
Local Open Scope string_scope.

Module E2E.
Module FrM := RC.Model.Frontier.Frontier.
Module FRun := RC.Model.FrontierRun.FrontierRun.
Module TMm := RC.Model.Termination.TM.
Module TMR := RC.Model.TerminationRun.TR.
Module KspM := RC.Model.Ksp.Ksp.
Module KRm := RC.Model.KspRun.KR.

(* ------------------------------------------------------------------ the network and the query, as SR sees them *)
Definition mk_world (n : nat) (edges : list (nat * nat)) (cost : list Q) (forbid : list nat) (init : Q) : SR.world QN :=
  SR.mkW QN n edges cost [] [] forbid [] [] [] SR.TUnlimited init.
(* the application always searches forward; the algorithm does not matter to the checkers *)
Definition mk_query (edge_oriented : bool) (s : nat) (t : option nat) : SR.query QN :=
  SR.mkQ QN (SR.ADijkstra QN) Search.Forward (if edge_oriented then SR.OEdge else SR.OVertex) s t None.

Fixpoint all_some {A} (l : list (option A)) : option (list A) :=
  match l with
  | [] => Some []
  | None :: _ => None
  | Some x :: r => match all_some r with Some r' => Some (x :: r') | None => None end
  end.

(* ------------------------------------------------------------------ app_walk *)
(* a tree entry of the response: (terminal_vertex when the output format shows it, edge id).  The key vertex of a
   branch is not part of either output format: in a forward search it is the far end of the branch's edge. *)
Definition branch_triple (g : Search.graph) (b : option nat * nat) : option SearchSpec.triple :=
  match Search.get_edge g (snd b) with
  | Some ed => Some (Search.edst ed, match fst b with Some p => p | None => Search.esrc ed end, snd b)
  | None => None
  end.

Definition sum_len {A} (l : list (list A)) : nat := fold_left (fun a x => (a + List.length x)%nat) l 0%nat.

(* None = accepted *)
Definition walk_verdict (n : nat) (edges : list (nat * nat)) (eo : bool) (s : nat) (t : option nat)
           (status : string) (trees : list (list (option nat * nat))) (routes : list (list nat))
           (counts : option (nat * option nat)) : option string :=
  let w := mk_world n edges [] [] 0%Q in
  let g := SR.graph_of QN w in
  match all_some (map (fun tr => all_some (map (branch_triple g) tr)) trees) with
  | None => Some "a tree edge is not in the network"
  | Some tts =>
      let o := SR.mkO QN status 0
                 (map (map (fun x : SearchSpec.triple => let '(v, p, e) := x in (v, p, e, 0%Q, 0%Q, 0%Q))) tts)
                 (map (map (fun e => (e, 0%Q, 0%Q, 0%Q))) routes) in
      match SR.check_outcome QN w (mk_query eo s t) o with
      | Some why => Some why
      | None =>
          (* the summary plugin's counters describe the same route and tree *)
          match counts with
          | Some (re, ts) =>
              if negb (String.eqb status "Ok") then None
              else if negb (Nat.eqb re (sum_len routes)) then Some "route_edges is not the length of the route"
              else match ts with
                   | Some k => if Nat.eqb k (sum_len trees) then None
                               else Some "tree_size_count is not the size of the tree"
                   | None => None      (* the configuration does not render the tree *)
                   end
          | None => None
          end
      end
  end.

Definition line_walk (id : Z) (n : nat) (edges : list (nat * nat)) (eo : bool) (s : nat) (t : option nat)
           (status : string) (trees : list (list (option nat * nat))) (routes : list (list nat))
           (counts : option (nat * option nat)) (text : string) : string :=
  line "S" id (match walk_verdict n edges eo s t status trees routes counts with
               | None => text
               | Some why => "REJECT(" ++ why ++ ") " ++ status
               end).

(* ------------------------------------------------------------------ app_reach *)
(* [lens]: edge lengths (exact), the cost the distance configuration minimises; [forbid]: the edges whose road class
   the query does not allow; [init]: the declared initial distance.  Labels are only looked at for destination-less
   queries (there the harness configures the distance model in meters, so the labels are exact sums). *)
Definition line_reach (id : Z) (n : nat) (edges : list (nat * nat)) (lens : list Q) (forbid : list nat) (init : Q)
           (eo : bool) (s : nat) (t : option nat)
           (status : string) (trees : list (list (nat * Q))) (routes : list (list nat)) (text : string) : string :=
  RR.line_S id (mk_world n edges lens forbid init) (mk_query eo s t) status trees routes text.

(* ------------------------------------------------------------------ app_sums *)
Definition sums_case (mk : TR.case_gen) (path : list nat) : TR.case_gen :=
  fun A c => let k := mk A c in
             TR.Build_case_t (TR.c_nv k) (TR.c_edges k) (TR.c_features k) (TR.c_user k) (TR.c_tm k) (TR.c_am k)
                             (TR.c_cost k) (TR.OForward path) true.

(* route.cost (CostModel::serialize_cost on the last state): one entry per state feature = vehicle rate applied to
   the feature's value, plus their sum in feature order *)
Definition cost_entries (N : Num) (c : TR.case_t N) (summary : list (string * N)) : list (string * N) :=
  match TR.build N c with
  | Ok (inst, _) =>
      let v := TR.cc_v (TR.c_cost c) in
      let ents := flat_map (fun nm => match Cost.assoc String.eqb summary nm with
                                      | Some x => [(nm, Cost.map_value N (match Cost.assoc String.eqb v nm with
                                                                          | Some r => r | None => Cost.VZero end) x)]
                                      | None => []
                                      end) (map fst (Traversal.i_sm inst)) in
      ents ++ [("total_cost", fold_left (fun a e => add a (snd e)) ents zero)]
  | _ => []
  end.
Definition show_cost (l : list (string * float)) : string :=
  "{" ++ join "," (map (fun kv => fst kv ++ ":" ++ show_float (snd kv)) (sort_by_key l)) ++ "}".

(* route.cost_model (CostModel::serialize_cost_info): the cost model in force for THIS query, from the configuration and
   the query's own weights / vehicle_rates / cost_aggregation (never from an earlier query of the same application):
   per feature (sorted by name) weight and vehicle rate, then the aggregation *)
Definition show_vrate (r : Cost.vrate float) : string :=
  match r with
  | Cost.VZero => "zero"
  | Cost.VRaw => "raw"
  | Cost.VFactor f => "factor(" ++ show_float f ++ ")"
  | Cost.VOffset o => "offset(" ++ show_float o ++ ")"
  | Cost.VCombined _ => "combined"
  end.
Definition echo_text (c : TR.case_t float) : string :=
  match TR.build FN c with
  | Ok (inst, cm) =>
      join ";" (map snd (sort_by_key
                           (map (fun nf => (fst nf, fst nf ++ ":w=" ++ show_float (Cost.fw (snd nf)) ++ ",v=" ++ show_vrate (Cost.fv (snd nf))))
                                (combine (map fst (Traversal.i_sm inst)) (Cost.cm_feats cm)))))
      ++ ";agg=" ++ match Cost.cm_agg cm with Cost.ASum => "sum" | Cost.AMul => "mul" end
  | _ => "none"
  end.

(* M: the binary64 model walks the returned path from the declared initial state; summary and cost from ITS last state *)
Definition line_sums_M (id : Z) (mk : TR.case_gen) (path : list nat) : string :=
  let c := sums_case mk path float (fun x => x) in
  let o := TR.run FN c in
  line "M" id (TR.show_outcome show_float o ++ " cost=" ++
               match o with
               | TR.ORoutes _ _ (Ok s) => show_cost (cost_entries FN c s)
               | _ => "None"
               end ++ " echo=" ++ echo_text c).

(* S: the exact-rational judge on the application's records, summary; route.cost against the application's own summary *)
Definition line_sums_S (id : Z) (mk : TR.case_gen) (path : list nat) (impl_init : list float)
           (records : list (Traversal.etrav float)) (totals : list float)
           (summary : list (string * float)) (cost : list (string * float)) : string :=
  let g := sums_case mk path in
  let verdict := TR.judge (g Q TR.qf) impl_init (TR.ORoutes [("route", Ok records)] [totals] (Ok summary)) in
  let expected := cost_entries FN (g float (fun x => x)) summary in
  line "S" id (verdict ++ " cost=" ++
               (if String.eqb (show_cost expected) (show_cost cost) then show_cost cost
                else "REJECT(route.cost is not the rated last state and its sum)")
               ++ " echo=" ++ echo_text (g float (fun x => x))).

(* responses with several routes (k-shortest paths) and / or the zero-cost end edges of an edge-oriented query:
   [op] is TR.OMulti <paths> or TR.OEdge origin destination <inner paths>; EVERY route is re-walked / judged on ITS
   OWN edges, every traversal_summary and cost against ITS OWN last state *)
Definition sums_case_op (mk : TR.case_gen) (op : TR.op) : TR.case_gen :=
  fun A c => let k := mk A c in
             TR.Build_case_t (TR.c_nv k) (TR.c_edges k) (TR.c_features k) (TR.c_user k) (TR.c_tm k) (TR.c_am k)
                             (TR.c_cost k) op true.
Definition line_sums_multi_M (id : Z) (mk : TR.case_gen) (op : TR.op) : string :=
  let c := sums_case_op mk op float (fun x => x) in
  let o := TR.run FN c in
  line "M" id (TR.show_outcome show_float o ++ " costs=" ++
               match o with
               | TR.OMultiRoutes _ _ ss =>
                   show_list (fun s => match s with Ok kv => show_cost (cost_entries FN c kv) | _ => "None" end) ss
                   ++ " echo=" ++ join "|" (map (fun _ => echo_text c) ss)
               | _ => "None"
               end).
Definition line_sums_multi_S (id : Z) (mk : TR.case_gen) (op : TR.op) (impl_init : list float)
           (routes : list (list (Traversal.etrav float) * list float * list (string * float) * list (string * float)))
  : string :=
  let g := sums_case_op mk op in
  let names := map (fun k => "r" ++ show_nat k) (seq 0 (List.length routes)) in
  let verdict := TR.judge (g Q TR.qf) impl_init
                          (TR.OMultiRoutes (map (fun nr => (fst nr, Ok (fst (fst (fst (snd nr)))))) (combine names routes))
                                           (map (fun r => snd (fst (fst r))) routes)
                                           (map (fun r => Ok (snd (fst r))) routes)) in
  line "S" id (verdict ++ " costs=" ++
               show_list (fun r => let summary := snd (fst r) in
                                   let cost := snd r in
                                   if String.eqb (show_cost (cost_entries FN (g float (fun x => x)) summary)) (show_cost cost)
                                   then show_cost cost
                                   else "REJECT(route.cost is not the rated last state of this route and its sum)") routes
               ++ " echo=" ++ join "|" (map (fun _ => echo_text (g float (fun x => x))) routes)).

(* a query without a route (error response): nothing to judge for this property; both lines repeat the status *)
Definition line_echo (tag : string) (id : Z) (text : string) : string := line tag id text.

(* ------------------------------------------------------------------ app_frontier (C04) *)
(* [c]: the raw tables the harness wrote to the files of the [frontier] section; [qjson]: the query as sent.
   None = accepted.  The reasons are FrontierRun.check_outcome's (edge, turn, query-edge, query-turn). *)
Definition frontier_verdict (n : nat) (edges : list (nat * nat)) (eo : bool) (s : nat) (t : option nat)
           (c : FrM.config FN) (qjson : json) (status : string)
           (trees : list (list (option nat * nat))) (routes : list (list nat)) : option string :=
  let w := SR.mkW FN n edges [] [] [] [] [] [] [] SR.TUnlimited PrimFloat.zero in
  let g := SR.graph_of FN w in
  match all_some (map (fun tr => all_some (map (branch_triple g) tr)) trees) with
  | None => Some "a tree edge is not in the network"
  | Some tts =>
      let z := PrimFloat.zero in
      let o := SR.mkO FN status 0
                 (map (map (fun x : SearchSpec.triple => let '(v, p, e) := x in (v, p, e, z, z, z))) tts)
                 (map (map (fun e => (e, z, z, z))) routes) in
      let q := SR.mkQ FN (SR.ADijkstra FN) Search.Forward (if eo then SR.OEdge else SR.OVertex) s t None in
      FRun.check_outcome c qjson None 0 q o
  end.
(* the application's searches cannot re-open a vertex (Dijkstra / default A-star over a consistent estimate): the
   model's run is not consulted, a restricted pair inside a route is reported as it is *)
Definition line_frontier (id : Z) (n : nat) (edges : list (nat * nat)) (eo : bool) (s : nat) (t : option nat)
           (c : FrM.config FN) (qjson : json) (status : string)
           (trees : list (list (option nat * nat))) (routes : list (list nat)) (text : string) : string :=
  line "S" id (match frontier_verdict n edges eo s t c qjson status trees routes with
               | None => text
               | Some why => "REJECT(" ++ why ++ ";reopen=?) " ++ status
               end).
(* M: the class of the response against the model of the builders and services (Model/Frontier.v): a query the
   services accept is answered (route or no path), a query they refuse is answered with an error *)
Definition line_frontier_M (id : Z) (c : FrM.config FN) (qjson : json) (status : string) (text : string) : string :=
  let answered := String.eqb status "Ok" || String.eqb status "nopath" in
  line "M" id (match FrM.build FN (fun f => f) false c qjson None with
               | Ok _ => if answered then text
                         else "MODEL(the frontier services accept this query) " ++ status
               | Err _ => if String.eqb status "err" then text
                          else "MODEL(the frontier services refuse this query) " ++ status
               | _ => "MODEL(crash)"
               end).

(* ------------------------------------------------------------------ app_limits (C10) *)
Definition mk_obs (status msg : string) (iters : nat) (trees : list (list (nat * nat * nat)))
           (routes : list (list nat)) (digest : Z) : TMR.obs :=
  TMR.mkObs status msg iters trees routes digest [].

Fixpoint first_fire (t : TMm.term) (ck : TMm.clock) (tr : list (nat * nat)) (i : nat) : option nat :=
  match tr with
  | [] => None
  | p :: r => if TMm.fires t ck (fst p) (snd p) then Some i else first_fire t ck r (S i)
  end.
(* the counters a run under limit [t] must have shown to the limit test, given the unlimited run's counters [unl_tr]
   (the search is deterministic and consults the limit only through that test): a run that reports termination
   stopped at the first test [t] fails (when there is none it made every test, and the judge refuses it); any other
   run made every test of the unlimited run.  The application searches on worker threads where hook H2 cannot
   record, so the limited runs' own counters are not observed. *)
Definition limits_trace (t : TMm.term) (unl_tr : list (nat * nat)) (status : string) : list (nat * nat) :=
  if String.eqb status "terminated" then
    match first_fire t (TMm.clock_of_script []) unl_tr 0 with
    | Some j => firstn (S j) unl_tr
    | None => unl_tr
    end
  else unl_tr.

Fixpoint limits_entries (unl_tr : list (nat * nat)) (cs : list (json * TMR.obs)) : option (list (TMR.entry * TMR.obs)) :=
  match cs with
  | [] => Some []
  | (j, o) :: r =>
      match TMR.configured 50 j, limits_entries unl_tr r with
      | Some t, Some es => Some (((t, []), TMR.with_trace o (limits_trace t unl_tr (TMR.ob_status o))) :: es)
      | _, _ => None
      end
  end.

(* [cs]: the [termination] section of every application of the sweep (as JSON) with what that application answered;
   [unl]: the answer of the application without a limit, [unl_tr]: the unlimited run's counters.  The limits are read
   off the configuration by TR.configured, the clock never advances (query_runtime budgets are generous). *)
Definition limits_verdict (n : nat) (edges : list (nat * nat)) (eo ksp : bool) (unl : TMR.obs)
           (unl_tr : list (nat * nat)) (cs : list (json * TMR.obs)) : option string :=
  let g := SR.graph_of QN (mk_world n edges [] [] 0%Q) in
  let u := TMR.with_trace unl unl_tr in
  if String.eqb (TMR.ob_status unl) "terminated" then Some "the application without a limit reports termination"
  else
  match limits_entries unl_tr cs with
  | None => Some "a configuration of the sweep is not a limit the property reads"
  | Some es =>
      if ksp then TMR.check_case false (TMR.max_degree g) u es
      else TMR.check_case (negb eo) (TMm.deg_bound Search.Forward g) u es
  end.
Definition line_limits (id : Z) (n : nat) (edges : list (nat * nat)) (eo ksp : bool) (unl : TMR.obs)
           (unl_tr : list (nat * nat)) (cs : list (json * TMR.obs)) (text : string) : string :=
  line "S" id (match limits_verdict n edges eo ksp unl unl_tr cs with
               | None => text
               | Some why => "REJECT(" ++ why ++ " -- the term shown is the CONFIGURED one)"
               end).

(* ------------------------------------------------------------------ app_ksp (C13) *)
Definition line_ksp (id : Z) (w : SR.world FN) (q : KRm.kq FN) (simq : KspM.simfn Q) (pi : list (option float))
           (optimal : bool) (o : SR.outcome FN) (aa : nat) (text : string) : string :=
  line "S" id (match KRm.check_case w q simq pi optimal o aa with
               | None => text
               | Some why => "REJECT(" ++ why ++ ") " ++ SR.o_status FN o
               end).

End E2E.
