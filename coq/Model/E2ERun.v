(* Runner of the end-to-end streams (harness/src/bin/e2e.rs): the EXISTING verified checkers and specifications,
   evaluated on facts extracted from the JSON response of a real CompassApp (CompassApp::run on a generated
   configuration + network).  Nothing is proved or re-defined here; every verdict is a call into

     app_walk  (C01)  SR.check_outcome  = SearchSpec.check_route / check_eroute / check_tree / check_etree
                      (sound + complete: Proofs/SearchCheck.v) against the network the files describe
     app_sums  (C03)  TR.judge (Model/TraversalRun.v: closed-form sums of Model/TraversalSpec.v in exact rationals)
                      and TR.run FN (the binary64 traversal model, M line) on the path the application returned
     app_reach (C05)  RR.judge (Model/ReachRun.v: Reach.reachb / pwalkb / reach_set / Bellman-Ford, Proofs/ReachSet.v)

   S lines print the text the harness expects for an accepted response and REJECT(..) otherwise, so that I = S exactly
   when the application's answer meets the property.  Definitions only. *)
From Coq Require Import ZArith QArith List Arith Bool String Floats.
From RC Require Import Base.Show Base.Res Base.Num Base.Json Model.Search Model.SearchSpec Model.SearchRun Model.Reach
  Model.ReachRun Model.Units Model.StateOps Model.Traversal Model.Cost Model.TraversalRun.
Import ListNotations.
Local Open Scope string_scope.

Module E2E.

(* ------------------------------------------------------------------ the network and the query, as SR sees them *)
Definition mk_world (n : nat) (edges : list (nat * nat)) (cost : list Q) (forbid : list nat) (init : Q) : SR.world QN :=
  SR.mkW QN n edges cost [] [] forbid [] [] [] SR.TUnlimited init.
(* the application always searches forward; the algorithm does not matter to the checkers *)
Definition mk_query (edge_oriented : bool) (s : nat) (t : option nat) : SR.query QN :=
  SR.mkQ QN (SR.ADijkstra QN) Search.Forward (if edge_oriented then SR.OEdge else SR.OVertex) s t None.

Fixpoint all_some {A} (l : list (option A)) : option (list A) :=
  match l with
  | [] => Some []
  | None :: _ => None
  | Some x :: r => match all_some r with Some r' => Some (x :: r') | None => None end
  end.

(* ------------------------------------------------------------------ app_walk *)
(* a tree entry of the response: (terminal_vertex when the output format shows it, edge id).  The key vertex of a
   branch is not part of either output format: in a forward search it is the far end of the branch's edge. *)
Definition branch_triple (g : Search.graph) (b : option nat * nat) : option SearchSpec.triple :=
  match Search.get_edge g (snd b) with
  | Some ed => Some (Search.edst ed, match fst b with Some p => p | None => Search.esrc ed end, snd b)
  | None => None
  end.

Definition sum_len {A} (l : list (list A)) : nat := fold_left (fun a x => (a + List.length x)%nat) l 0%nat.

(* None = accepted *)
Definition walk_verdict (n : nat) (edges : list (nat * nat)) (eo : bool) (s : nat) (t : option nat)
           (status : string) (trees : list (list (option nat * nat))) (routes : list (list nat))
           (counts : option (nat * option nat)) : option string :=
  let w := mk_world n edges [] [] 0%Q in
  let g := SR.graph_of QN w in
  match all_some (map (fun tr => all_some (map (branch_triple g) tr)) trees) with
  | None => Some "a tree edge is not in the network"
  | Some tts =>
      let o := SR.mkO QN status 0
                 (map (map (fun x : SearchSpec.triple => let '(v, p, e) := x in (v, p, e, 0%Q, 0%Q, 0%Q))) tts)
                 (map (map (fun e => (e, 0%Q, 0%Q, 0%Q))) routes) in
      match SR.check_outcome QN w (mk_query eo s t) o with
      | Some why => Some why
      | None =>
          (* the summary plugin's counters describe the same route and tree *)
          match counts with
          | Some (re, ts) =>
              if negb (String.eqb status "Ok") then None
              else if negb (Nat.eqb re (sum_len routes)) then Some "route_edges is not the length of the route"
              else match ts with
                   | Some k => if Nat.eqb k (sum_len trees) then None
                               else Some "tree_size_count is not the size of the tree"
                   | None => None      (* the configuration does not render the tree *)
                   end
          | None => None
          end
      end
  end.

Definition line_walk (id : Z) (n : nat) (edges : list (nat * nat)) (eo : bool) (s : nat) (t : option nat)
           (status : string) (trees : list (list (option nat * nat))) (routes : list (list nat))
           (counts : option (nat * option nat)) (text : string) : string :=
  line "S" id (match walk_verdict n edges eo s t status trees routes counts with
               | None => text
               | Some why => "REJECT(" ++ why ++ ") " ++ status
               end).

(* ------------------------------------------------------------------ app_reach *)
(* [lens]: edge lengths (exact), the cost the distance configuration minimises; [forbid]: the edges whose road class
   the query does not allow; [init]: the declared initial distance.  Labels are only looked at for destination-less
   queries (there the harness configures the distance model in meters, so the labels are exact sums). *)
Definition line_reach (id : Z) (n : nat) (edges : list (nat * nat)) (lens : list Q) (forbid : list nat) (init : Q)
           (eo : bool) (s : nat) (t : option nat)
           (status : string) (trees : list (list (nat * Q))) (routes : list (list nat)) (text : string) : string :=
  RR.line_S id (mk_world n edges lens forbid init) (mk_query eo s t) status trees routes text.

(* ------------------------------------------------------------------ app_sums *)
Definition sums_case (mk : TR.case_gen) (path : list nat) : TR.case_gen :=
  fun A c => let k := mk A c in
             TR.Build_case_t (TR.c_nv k) (TR.c_edges k) (TR.c_features k) (TR.c_user k) (TR.c_tm k) (TR.c_am k)
                             (TR.c_cost k) (TR.OForward path) true.

(* route.cost (CostModel::serialize_cost on the last state): one entry per state feature = vehicle rate applied to
   the feature's value, plus their sum in feature order *)
Definition cost_entries (N : Num) (c : TR.case_t N) (summary : list (string * N)) : list (string * N) :=
  match TR.build N c with
  | Ok (inst, _) =>
      let v := TR.cc_v (TR.c_cost c) in
      let ents := flat_map (fun nm => match Cost.assoc String.eqb summary nm with
                                      | Some x => [(nm, Cost.map_value N (match Cost.assoc String.eqb v nm with
                                                                          | Some r => r | None => Cost.VZero end) x)]
                                      | None => []
                                      end) (map fst (Traversal.i_sm inst)) in
      ents ++ [("total_cost", fold_left (fun a e => add a (snd e)) ents zero)]
  | _ => []
  end.
Definition show_cost (l : list (string * float)) : string :=
  "{" ++ join "," (map (fun kv => fst kv ++ ":" ++ show_float (snd kv)) (sort_by_key l)) ++ "}".

(* M: the binary64 model walks the returned path from the declared initial state; summary and cost from ITS last state *)
Definition line_sums_M (id : Z) (mk : TR.case_gen) (path : list nat) : string :=
  let c := sums_case mk path float (fun x => x) in
  let o := TR.run FN c in
  line "M" id (TR.show_outcome show_float o ++ " cost=" ++
               match o with
               | TR.ORoutes _ _ (Ok s) => show_cost (cost_entries FN c s)
               | _ => "None"
               end).

(* S: the exact-rational judge on the application's records, summary; route.cost against the application's own summary *)
Definition line_sums_S (id : Z) (mk : TR.case_gen) (path : list nat) (impl_init : list float)
           (records : list (Traversal.etrav float)) (totals : list float)
           (summary : list (string * float)) (cost : list (string * float)) : string :=
  let g := sums_case mk path in
  let verdict := TR.judge (g Q TR.qf) impl_init (TR.ORoutes [("route", Ok records)] [totals] (Ok summary)) in
  let expected := cost_entries FN (g float (fun x => x)) summary in
  line "S" id (verdict ++ " cost=" ++
               (if String.eqb (show_cost expected) (show_cost cost) then show_cost cost
                else "REJECT(route.cost is not the rated last state and its sum)")).

(* a query without a route (error response): nothing to judge for this property; both lines repeat the status *)
Definition line_echo (tag : string) (id : Z) (text : string) : string := line tag id text.

End E2E.
