(* EnergyTraversalModel (routee-compass-powertrain/src/routee/energy_traversal_model.rs) over the
   vehicle models of Model/Vehicle.v, and the time model it wraps in this repository,
   SpeedTraversalModel (routee-compass-core/src/model/traversal/default/speed_traversal_model.rs).
   Faithful transcription, definitions only, generic in [N : Num].

   The wrapped time model is a PARAMETER of [traverse_edge] / [estimate_traversal] (any function
   edge -> state -> state model -> result); [speed_traverse] / [speed_estimate] are the concrete
   speed-table model.  The great-circle distance of estimate_traversal is an input ([hav_m], in
   meters: haversine is f32 trigonometry, not modelled; coord_distance converts it from meters). *)
From Coq Require Import ZArith QArith String List Bool.
From RC Require Import Base.Num Base.Res Model.Units Model.Vehicle.
Import ListNotations.

Module EnergyTraversal.
Import Units Vehicle.
Local Open Scope string_scope.

Section E.
  Variable N : Num.
  Notation state := (state N).
  Notation smodel := (smodel N).
  Notation vehicle := (vehicle N).
  Notation caches := (caches N).

  (* network::Edge: id and length in meters (BASE_DISTANCE_UNIT) *)
  Record edge := { e_id : nat; e_dist : N }.

  (* ------------------------------------------------------------------ SpeedTraversalEngine / Model *)
  Record engine := {
    en_speeds : list N; en_su : speed_unit; en_tu : time_unit; en_du : dist_unit;
    en_max : N }.

  (* get_max_speed: fold with `if acc_max > row {acc_max} else {row}` from Speed::ZERO *)
  Definition get_max_speed (t : list N) : res N :=
    let m := fold_left (fun acc row => if ltb row acc then acc else row) t zero in
    match t with
    | [] => Err e_build
    | _ => if eqb m zero then Err e_build else Ok m
    end.

  Definition speed_features (en : engine) : smodel :=
    [(n_time, FTime (en_tu en) zero); (n_distance, FDistance (en_du en) zero)].

  Definition get_speed (t : list N) (id : nat) : res N :=
    match nth_error t id with Some s => Ok s | None => Err e_failure end.

  Definition res_units_time (r : res N) : res N :=
    match r with Err _ => Err e_units_time | x => x end.

  (* SpeedTraversalModel::traverse_edge *)
  Definition speed_traverse (en : engine) (e : edge) (st : state) (sm : smodel) : res state :=
    let distance := convert_distance N base_distance_unit (en_du en) (e_dist e) in
    do speed <- get_speed (en_speeds en) (e_id e);
    do edge_time <- res_units_time (create_time N speed (en_su en) distance (en_du en) (en_tu en));
    do st1 <- add_time N sm st n_time edge_time (en_tu en);
    add_distance N sm st1 n_distance distance (en_du en).

  (* SpeedTraversalModel::estimate_traversal; hav_m = haversine distance in meters *)
  Definition speed_estimate (en : engine) (hav_m : N) (st : state) (sm : smodel) : res state :=
    let distance := convert_distance N Meters (en_du en) hav_m in
    if eqb distance zero then Ok st
    else
      do t <- res_units_time (create_time N (en_max en) (en_su en) distance (en_du en) (en_tu en));
      do st1 <- add_time N sm st n_time t (en_tu en);
      add_distance N sm st1 n_distance distance (en_du en).

  (* ------------------------------------------------------------------ EnergyModelService *)
  Record service := {
    sv_su : speed_unit;                 (* time_model_speed_unit *)
    sv_grades : option (list N);        (* grade_table *)
    sv_gu : grade_unit;                 (* grade_table_grade_unit *)
    sv_tu : time_unit;                  (* output time unit (unused by traverse_edge) *)
    sv_du : dist_unit }.                (* output distance unit *)

  (* energy_model_ops::get_grade *)
  Definition get_grade (t : option (list N)) (id : nat) : res N :=
    match t with
    | None => Ok zero
    | Some gt => match nth_error gt id with Some g => Ok g | None => Err e_failure end
    end.

  (* EnergyTraversalModel::state_features *)
  Definition state_features (v : vehicle) (tm_features : smodel) : smodel :=
    List.app (Vehicle.state_features N v) tm_features.

  (* EnergyTraversalModel::traverse_edge *)
  Definition traverse_edge (tm : edge -> state -> smodel -> res state) (sv : service) (v : vehicle)
      (e : edge) (st : state) (sm : smodel) (cc : caches) : res (state * caches) :=
    let distance := convert_distance N base_distance_unit (sv_du sv) (e_dist e) in
    let prev := st in
    do st1 <- tm e st sm;
    do prev_time <- get_time N sm prev n_time (speed_time_unit (sv_su sv));
    do current_time <- get_time N sm st1 n_time (speed_time_unit (sv_su sv));
    let time_delta := sub current_time prev_time in
    do grade <- get_grade (sv_grades sv) (e_id e);
    let distance_in_time_model_unit :=
      convert_distance N base_distance_unit (speed_distance_unit (sv_su sv)) (e_dist e) in
    let speed := div distance_in_time_model_unit time_delta in       (* Speed::from((Distance, Time)) *)
    consume_energy N v speed (sv_su sv) grade (sv_gu sv) distance (sv_du sv) st1 sm cc.

  (* EnergyTraversalModel::estimate_traversal *)
  Definition estimate_traversal (tm_est : N -> state -> smodel -> res state) (sv : service) (v : vehicle)
      (hav_m : N) (st : state) (sm : smodel) : res state :=
    let distance := convert_distance N Meters (sv_du sv) hav_m in
    if eqb distance zero then Ok st
    else
      do st1 <- tm_est hav_m st sm;
      best_case_energy_state N v distance (sv_du sv) st1 sm.

  (* a route: the edges in order; the result after every edge (as the search accumulates it) *)
  Fixpoint run_edges (tm : edge -> state -> smodel -> res state) (sv : service) (v : vehicle)
      (es : list edge) (st : state) (sm : smodel) (cc : caches) : list (res state) :=
    match es with
    | [] => []
    | e :: r =>
        match traverse_edge tm sv v e st sm cc with
        | Ok (st', cc') => Ok st' :: run_edges tm sv v r st' sm cc'
        | Err c => [Err c]
        | Panic w => [Panic w]
        | OutOfFuel => [OutOfFuel]
        end
    end.

  (* final state of a route, when every edge succeeds *)
  Fixpoint route_state (tm : edge -> state -> smodel -> res state) (sv : service) (v : vehicle)
      (es : list edge) (st : state) (sm : smodel) (cc : caches) : res (state * caches) :=
    match es with
    | [] => Ok (st, cc)
    | e :: r =>
        do p <- traverse_edge tm sv v e st sm cc;
        route_state tm sv v r (fst p) sm (snd p)
    end.
End E.

Arguments Build_edge {N}. Arguments e_id {N}. Arguments e_dist {N}.
Arguments Build_engine {N}. Arguments en_speeds {N}. Arguments en_su {N}. Arguments en_tu {N}. Arguments en_du {N}.
Arguments en_max {N}.
Arguments Build_service {N}. Arguments sv_su {N}. Arguments sv_grades {N}. Arguments sv_gu {N}. Arguments sv_tu {N}.
Arguments sv_du {N}.

End EnergyTraversal.
