(* Executable model of every concrete FrontierModel of routee-compass (property C04).

   Faithful transcription, definitions only (lemmas live in Proofs/Frontier*.v):
     routee-compass-core/src/model/frontier/frontier_model.rs              trait default  -> NoRestriction
     routee-compass-core/src/algorithm/search/util/edge_cut_frontier_model.rs             -> EdgeCut
     routee-compass/src/app/compass/config/frontier_model/
       road_class/{road_class_model,road_class_parser,road_class_service}.rs              -> RoadClass, read_query
       turn_restrictions/{turn_restriction_model,turn_restriction_service}.rs             -> Turn
       vehicle_restrictions/{vehicle_restriction,vehicle_restriction_model,
                             vehicle_parameters,vehicle_restriction_row,
                             vehicle_restriction_builder,vehicle_restriction_service}.rs  -> Vehicle, valid,
                                                                                             from_query, to_restriction
       combined/{combined_model,combined_service}.rs                                      -> Combined
   Unit conversion is Model/Units.v (property C09); numbers are generic in [N : Num]: [FN] executes
   bit for bit next to the Rust code, [QN] is what the theorems are about.

   Three layers, as in the Rust code:
     config  --build_service-->  service  --build_model(query JSON)-->  fmodel  --valid_frontier(edge, prev)--> res bool
   Edge ids index the per-edge tables; the traversal state is ignored by every concrete model (the
   [St] argument of Search.v's [frontier] is dropped by [as_frontier]). *)
From Coq Require Import ZArith QArith String List Bool Floats Arith.
From RC Require Import Base.Num Base.Res Base.Json Model.Units.
Import ListNotations.

Module Frontier.
Import Units.
Local Open Scope string_scope.

Definition err_build : string := "build".         (* FrontierModelError::BuildError *)
Definition err_frontier : string := "frontier".   (* FrontierModelError::FrontierModelError *)

Section Numeric.
  Variable N : Num.
  (* how a JSON float literal enters the number type: identity for FN, exact value for QN *)
  Variable of_float : float -> N.

  (* `a <= b` on Weight / Distance: Ord of OrderedFloat<f64> (NaN is the greatest value and equal to itself);
     with rationals the second disjunct is always false *)
  Definition ord_le (a b : N) : bool := leb a b || negb (eqb b b).

  (* ---- vehicle_restriction.rs ---- *)
  Inductive restriction :=
  | MaximumTotalWeight (w : N) (u : weight_unit)
  | MaximumWeightPerAxle (w : N) (u : weight_unit)
  | MaximumLength (d : N) (u : dist_unit)
  | MaximumWidth (d : N) (u : dist_unit)
  | MaximumHeight (d : N) (u : dist_unit)
  | MaximumTrailerLength (d : N) (u : dist_unit).

  (* vehicle_parameters.rs *)
  Record vparams := mkVP {
    vp_height : N * dist_unit;
    vp_width : N * dist_unit;
    vp_total_length : N * dist_unit;
    vp_trailer_length : N * dist_unit;
    vp_total_weight : N * weight_unit;
    vp_axles : nat                       (* u8 *)
  }.

  (* VehicleRestriction::valid *)
  Definition valid (r : restriction) (vp : vparams) : bool :=
    match r with
    | MaximumTotalWeight rw ru =>
        let '(vw, vu) := vp_total_weight vp in
        ord_le (convert_weight N vu ru vw) rw
    | MaximumWeightPerAxle rw ru =>
        let '(vw, vu) := vp_total_weight vp in
        let w := convert_weight N vu ru vw in
        let per_axle := div w (of_Z (Z.of_nat (vp_axles vp))) in
        ord_le per_axle rw
    | MaximumLength rd ru =>
        let '(vd, vu) := vp_total_length vp in
        ord_le (convert_distance N vu ru vd) rd
    | MaximumWidth rd ru =>
        let '(vd, vu) := vp_width vp in
        ord_le (convert_distance N vu ru vd) rd
    | MaximumHeight rd ru =>
        let '(vd, vu) := vp_height vp in
        ord_le (convert_distance N vu ru vd) rd
    | MaximumTrailerLength rd ru =>
        let '(vd, vu) := vp_trailer_length vp in
        ord_le (convert_distance N vu ru vd) rd
    end.

  (* ---- the per-query models ---- *)
  Inductive fmodel :=
  | NoRestriction
    (* RoadClassFrontierModel: service.road_class_lookup (one u8 per edge), road_classes *)
  | RoadClass (lookup : list nat) (allowed : option (list nat))
    (* VehicleRestrictionFrontierModel: lookup edge -> restrictions, as the (edge, restriction) rows in file
       order (HashMap<EdgeId, Vec<_>>: the Vec of an edge keeps the file order of its rows) *)
  | Vehicle (rows : list (nat * restriction)) (vp : vparams)
    (* TurnRestrictionFrontierModel: set of (prev_edge_id, next_edge_id) *)
  | Turn (pairs : list (nat * nat))
    (* EdgeCutFrontierModel *)
  | EdgeCut (cut : list nat) (underlying : fmodel)
    (* CombinedFrontierModel *)
  | Combined (inner : list fmodel).

  Definition pair_in (p e : nat) (pairs : list (nat * nat)) : bool :=
    existsb (fun pr => Nat.eqb (fst pr) p && Nat.eqb (snd pr) e) pairs.
  Definition restrictions_of (rows : list (nat * restriction)) (e : nat) : list restriction :=
    map snd (filter (fun r => Nat.eqb (fst r) e) rows).

  (* FrontierModel::valid_frontier(edge, state, previous_edge, state_model) *)
  Fixpoint valid_frontier (m : fmodel) (e : nat) (prev : option nat) : res bool :=
    match m with
    | NoRestriction => Ok true
    | RoadClass lookup allowed =>
        match allowed with
        | None => Ok true
        | Some classes =>
            match nth_error lookup e with
            | None => Err err_frontier          (* edge id missing from frontier model file *)
            | Some c => Ok (existsb (Nat.eqb c) classes)
            end
        end
    | Vehicle rows vp =>
        (* for restriction in ...: if !restriction.valid(..) { return Ok(false) }; Ok(true) *)
        Ok (forallb (fun r => valid r vp) (restrictions_of rows e))
    | Turn pairs =>
        match prev with
        | None => Ok true
        | Some p => if pair_in p e pairs then Ok false else Ok true
        end
    | EdgeCut cut under =>
        if existsb (Nat.eqb e) cut then Ok false else valid_frontier under e prev
    | Combined inner =>
        (fix go (l : list fmodel) : res bool :=
           match l with
           | [] => Ok true
           | m' :: r => do ok <- valid_frontier m' e prev; if ok then go r else Ok false
           end) inner
    end.

  (* the argument Search.v's loop takes *)
  Definition as_frontier {St : Type} (m : fmodel) : nat -> St -> option nat -> res bool :=
    fun e _ prev => valid_frontier m e prev.

  (* ---- road_class_parser.rs: RoadClassParser::read_query ---- *)
  (* serde_json::from_value::<HashSet<u8>>: an array whose elements are all integers in 0..=255 *)
  Definition as_u8 (j : json) : option nat :=
    match j with
    | JInt z => if (0 <=? z)%Z && (z <=? 255)%Z then Some (Z.to_nat z) else None
    | _ => None
    end.
  Fixpoint all_some {A B} (f : A -> option B) (l : list A) : option (list B) :=
    match l with
    | [] => Some []
    | a :: r => match f a, all_some f r with Some b, Some bs => Some (b :: bs) | _, _ => None end
    end.
  Definition as_u8_set (j : json) : option (list nat) :=
    match j with JArr l => all_some as_u8 l | _ => None end.
  Definition as_string_set (j : json) : option (list string) :=
    match j with JArr l => all_some as_str l | _ => None end.
  Fixpoint mapping_get (m : list (string * nat)) (k : string) : option nat :=
    match m with
    | [] => None
    | (k', v) :: r => if String.eqb k' k then Some v else mapping_get r k
    end.
  Definition read_query (mapping : list (string * nat)) (query : json) : res (option (list nat)) :=
    match jget query "road_classes" with
    | None => Ok None
    | Some value =>
        match as_u8_set value with
        | Some rc => Ok (Some rc)
        | None =>
            match mapping with
            | [] => Err err_build                (* no mapping of string to integer *)
            | _ =>
                match as_string_set value with
                | None => Err err_build
                | Some strings =>
                    match all_some (mapping_get mapping) strings with
                    | None => Err err_build      (* could not find road class mapping for incoming value *)
                    | Some ints => Ok (Some ints)
                    end
                end
            end
        end
    end.

  (* ---- vehicle_parameters.rs: VehicleParameters::from_query ---- *)
  Definition jnum (j : json) : option N :=
    match j with
    | JInt z => Some (of_Z z)            (* serde: visit_i64/visit_u64 -> `as f64` *)
    | JFloat f => Some (of_float f)
    | _ => None
    end.
  (* serde_json::from_value::<(Distance, DistanceUnit)>: a 2-element array [number, "unit"] *)
  Definition as_quantity {U} (of_show : string -> option U) (j : json) : option (N * U) :=
    match j with
    | JArr [x; JStr s] =>
        match jnum x, of_show s with
        | Some v, Some u => Some (v, u)
        | _, _ => None
        end
    | _ => None
    end.
  Definition get_quantity {U} (of_show : string -> option U) (vps : json) (key : string) : res (N * U) :=
    match jget vps key with
    | None => Err err_build
    | Some j => match as_quantity of_show j with Some q => Ok q | None => Err err_build end
    end.
  Definition from_query (query : json) : res vparams :=
    match jget query "vehicle_parameters" with
    | None => Err err_build
    | Some vps =>
        do height <- get_quantity dist_of_show vps "height";
        do width <- get_quantity dist_of_show vps "width";
        do total_length <- get_quantity dist_of_show vps "total_length";
        do trailer_length <- get_quantity dist_of_show vps "trailer_length";
        do total_weight <- get_quantity weight_of_show vps "total_weight";
        match jget vps "number_of_axles" with
        | None => Err err_build
        | Some (JInt z) =>
            (* Value::as_u64 then `as u8` (truncation) *)
            if (0 <=? z)%Z then Ok (mkVP height width total_length trailer_length total_weight (Z.to_nat (z mod 256)))
            else Err err_build
        | Some _ => Err err_build
        end
    end.

  (* ---- vehicle_restriction_row.rs: RestrictionRow::to_restriction ----
     json!({name: (value, unit)}) deserialised as the externally tagged enum VehicleRestriction *)
  Definition to_restriction (name : string) (value : N) (unit : string) : res restriction :=
    let weight (c : N -> weight_unit -> restriction) :=
      match weight_of_show unit with Some u => Ok (c value u) | None => Err err_build end in
    let dist (c : N -> dist_unit -> restriction) :=
      match dist_of_show unit with Some u => Ok (c value u) | None => Err err_build end in
    if String.eqb name "maximum_total_weight" then weight MaximumTotalWeight
    else if String.eqb name "maximum_weight_per_axle" then weight MaximumWeightPerAxle
    else if String.eqb name "maximum_length" then dist MaximumLength
    else if String.eqb name "maximum_width" then dist MaximumWidth
    else if String.eqb name "maximum_height" then dist MaximumHeight
    else if String.eqb name "maximum_trailer_length" then dist MaximumTrailerLength
    else Err err_build.

  (* ---- configuration (what the files hold) -> service -> model ---- *)
  Inductive config :=
  | CNoRestriction
  | CRoadClass (lookup : list nat) (mapping : list (string * nat))
    (* rows of the vehicle restriction CSV: edge_id, restriction_name, restriction_value, restriction_unit *)
  | CVehicle (rows : list (nat * string * N * string))
  | CTurn (pairs : list (nat * nat))
  | CCombined (inner : list config).

  Inductive service :=
  | SNoRestriction
  | SRoadClass (lookup : list nat) (mapping : list (string * nat))
  | SVehicle (rows : list (nat * restriction))
  | STurn (pairs : list (nat * nat))
  | SCombined (inner : list service).

  Fixpoint res_all {A B} (f : A -> res B) (l : list A) : res (list B) :=
    match l with
    | [] => Ok []
    | a :: r => do b <- f a; do bs <- res_all f r; Ok (b :: bs)
    end.

  (* vehicle_restriction_lookup_from_file: the first undecodable row fails the build *)
  Definition build_rows (rows : list (nat * string * N * string)) : res (list (nat * restriction)) :=
    res_all (fun row => let '(e, name, value, unit) := row in
                        do r <- to_restriction name value unit; Ok (e, r)) rows.

  Definition is_combined (c : config) : bool := match c with CCombined _ => true | _ => false end.

  (* FrontierModelBuilder::build.  CombinedBuilder builds the inner services in order, first error wins.
     [nested]: CompassAppBuilder registers the CombinedBuilder with the four base builders only, so a
     "combined" entry inside a combined model is an unknown model name (a build error) when the service is
     built from a configuration ([nested = false]); services composed directly in code
     (CombinedFrontierService { inner_services }) nest freely ([nested = true]). *)
  Fixpoint build_service (nested : bool) (c : config) : res service :=
    match c with
    | CNoRestriction => Ok SNoRestriction
    | CRoadClass lookup mapping => Ok (SRoadClass lookup mapping)
    | CVehicle rows => do rs <- build_rows rows; Ok (SVehicle rs)
    | CTurn pairs => Ok (STurn pairs)
    | CCombined inner =>
        do ss <- (fix go (l : list config) : res (list service) :=
                    match l with
                    | [] => Ok []
                    | c' :: r =>
                        if negb nested && is_combined c' then Err err_build
                        else do s <- build_service nested c'; do ss <- go r; Ok (s :: ss)
                    end) inner;
        Ok (SCombined ss)
    end.

  (* FrontierModelService::build(query) *)
  Fixpoint build_model (s : service) (query : json) : res fmodel :=
    match s with
    | SNoRestriction => Ok NoRestriction
    | SRoadClass lookup mapping => do rc <- read_query mapping query; Ok (RoadClass lookup rc)
    | SVehicle rows => do vp <- from_query query; Ok (Vehicle rows vp)
    | STurn pairs => Ok (Turn pairs)
    | SCombined inner =>
        do ms <- (fix go (l : list service) : res (list fmodel) :=
                    match l with
                    | [] => Ok []
                    | s' :: r => do m <- build_model s' query; do ms <- go r; Ok (m :: ms)
                    end) inner;
        Ok (Combined ms)
    end.

  (* builder, service and (optionally) the edge-cut wrapper a KSP spur search puts on top *)
  Definition build (nested : bool) (c : config) (query : json) (cut : option (list nat)) : res fmodel :=
    do s <- build_service nested c;
    do m <- build_model s query;
    Ok (match cut with None => m | Some es => EdgeCut es m end).

  (* ---- structure predicates used by the theorems ---- *)
  (* models that never look at the previous edge: everything except Turn *)
  Fixpoint edge_local (m : fmodel) : bool :=
    match m with
    | NoRestriction | RoadClass _ _ | Vehicle _ _ => true
    | Turn _ => false
    | EdgeCut _ under => edge_local under
    | Combined inner => forallb edge_local inner
    end.
End Numeric.

Arguments NoRestriction {N}.
Arguments RoadClass {N} lookup allowed.
Arguments Turn {N} pairs.
Arguments CNoRestriction {N}.
Arguments CRoadClass {N} lookup mapping.
Arguments CTurn {N} pairs.
Arguments SNoRestriction {N}.
Arguments SRoadClass {N} lookup mapping.
Arguments STurn {N} pairs.

(* exact rational value of a binary64 (NaN and infinities, which no case of the harness feeds to QN, read as 0) *)
Definition Q_of_float (f : float) : Q :=
  match Prim2SF f with
  | S754_finite s m e =>
      let z := if s then Zneg m else Zpos m in
      match e with
      | Z0 => inject_Z z
      | Zpos p => inject_Z (z * 2 ^ Zpos p)
      | Zneg p => z # (2 ^ p)%positive
      end
  | _ => 0%Q
  end.

End Frontier.
