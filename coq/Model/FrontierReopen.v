(* Definitions for the search-level part of property C04 (no proofs here).

   [no_reopen] is a predicate ON A RUN of the search loop of Model/Search.v: it replays the loop and tests that,
   once a vertex has been popped and expanded, no later relaxation replaces the EDGE of its tree entry (the
   vertex being expanded is frozen from the moment it is popped).  It is executable, so the correspondence
   stream evaluates it on the model's run of every case, and the theorem turn_never_leaks_no_reopen takes
   [no_reopen ... = true] as its hypothesis.

   [Witness]: the 5-vertex network of DESIGN.md section 5 (D-REOPEN) as an instance of Model/Search.v. *)
From Coq Require Import List Arith Bool String.
From stdpp Require Import gmap.
From Coq Require Import ZArith QArith.
From RC Require Import Base.Num Base.Res Model.Units Model.Frontier Model.Search.
Import ListNotations.

Module FrontierReopen.
Import Search.
Local Open Scope nat_scope.

Section Reopen.
  Context {C St : Type}.
  Variable clt : C -> C -> bool.
  Variable cadd : C -> C -> C.
  Variable czero : C.
  Variable cfloor : C -> C.
  Variable g : graph.
  Variable frontier : nat -> St -> option nat -> res bool.
  Variable traverse : dir -> nat -> option nat -> St -> res (C * C * St).
  Variable estimate : nat -> nat -> St -> res C.
  Variable init_state : res St.
  Variable terminate : nat -> nat -> option string.

  Notation sstate := (sstate C St).
  Notation branch := (branch C St).

  (* the edge of the tree entry of u (what get_last_traversed_edge_id reads) *)
  Definition ledge (tr : gmap nat branch) (u : nat) : option nat :=
    match tr !! u with Some b => Some (et_edge (b_et b)) | None => None end.
  Definition opt_nat_eqb (a b : option nat) : bool :=
    match a, b with
    | Some x, Some y => Nat.eqb x y
    | None, None => true
    | _, _ => false
    end.
  Definition same_ledges (frozen : list nat) (t t' : gmap nat branch) : bool :=
    forallb (fun u => opt_nat_eqb (ledge t u) (ledge t' u)) frozen.

  (* the `for edge_id in incident edges` loop, testing after every relaxation *)
  Fixpoint relax_all_frozen (frozen : list nat) (d : dir) (target : option nat) (cur : St) (last : option nat)
           (s : sstate) (es : list nat) : bool :=
    match es with
    | [] => true
    | eid :: r =>
        match relax clt cadd czero cfloor g frontier traverse estimate d target cur last s eid with
        | Ok s' => same_ledges frozen (s_tree s) (s_tree s') && relax_all_frozen frozen d target cur last s' r
        | _ => true
        end
    end.

  (* what [step] has in hand when it starts relaxing: popped vertex, last edge, current state, state after pop *)
  Definition step_ctx (d : dir) (source : nat) (target : option nat) (init : St) (s : sstate)
    : option (nat * option nat * St * sstate) :=
    match terminate (size (s_tree s)) (s_iters s) with
    | Some _ => None
    | None =>
        match pq_pop clt (s_pq s) with
        | None => None
        | Some (v, _, q') =>
            let s1 := mkS q' (s_g s) (s_tree s) (s_iters s) in
            if (match target with Some t => Nat.eqb v t | None => false end) then None
            else if Nat.eqb v source then Some (v, None, init, s1)
            else match s_tree s !! v with
                 | Some b => Some (v, Some (et_edge (b_et b)), et_state (b_et b), s1)
                 | None => None
                 end
        end
    end.

  Fixpoint no_reopen_loop (fuel : nat) (d : dir) (source : nat) (target : option nat) (init : St)
           (expanded : list nat) (s : sstate) : bool :=
    match fuel with
    | 0 => true
    | S f =>
        match step_ctx d source target init s,
              step clt cadd czero cfloor g frontier traverse estimate terminate d source target init s with
        | Some (v, last, cur, s1), Ok (inl s') =>
            relax_all_frozen (v :: expanded) d target cur last s1 (incident d g v)
            && no_reopen_loop f d source target init (v :: expanded) s'
        | _, _ => true
        end
    end.

  (* the run of run_a_star / run_vertex_oriented with the same arguments never re-opens a vertex *)
  Definition no_reopen (fuel : nat) (d : dir) (source : nat) (target : option nat) : bool :=
    match init_state with
    | Ok init =>
        match (match target with None => Ok czero | Some t => estimate source t init end) with
        | Ok h0 => no_reopen_loop fuel d source target init [] (mkS [(source, h0)] {[source := czero]} ∅ 0)
        | _ => true
        end
    | _ => true
    end.
End Reopen.

(* ---- the classes of the known findings of property C04, as booleans ---- *)
(* K_reopen: the run re-opens a vertex *)
Definition K_reopen {C St : Type} clt cadd czero cfloor g frontier traverse estimate init_state terminate
           (fuel : nat) (d : dir) (source : nat) (target : option nat) : bool :=
  negb (@no_reopen C St clt cadd czero cfloor g frontier traverse estimate init_state terminate fuel d source target).
(* K_reverse_turn: a reverse search (the frontier model is shown the pair (later edge, earlier edge)) *)
Definition K_reverse_turn (d : dir) : bool := match d with Reverse => true | Forward => false end.
(* K_query_edges: the edge is the edge-oriented query's own origin or destination edge *)
Definition K_query_edge (source : nat) (target : option nat) (e : nat) : bool :=
  Nat.eqb e source || match target with Some t => Nat.eqb e t | None => false end.
(* routes are read in travel order: a reverse search lists its route from the destination backwards *)
Definition travel {A} (d : dir) (r : list A) : list A := match d with Forward => r | Reverse => rev r end.

(* ------------------------------------------------------------------------------------------------
   D-REOPEN: vertices s=0 u=1 w=2 v=3 t=4; edges e0 s->u (10), e1 s->w (1), e2 w->u (1), e3 u->v (1),
   e4 v->t (100); the turn (e2, e3) is restricted; the estimate is inconsistent (h(w) = 50, 0 elsewhere), so
   A-star expands u (label 10, through e0) before w, labels v through e3 after the legal turn (e0, e3), then
   reaches u again through e2 with the better label 2.  The re-opened u refuses e3 now, but v keeps its entry. *)
Module Witness.
  Definition graph5 : graph :=
    mkGraph 5 [mkEdge 0 1; mkEdge 0 2; mkEdge 2 1; mkEdge 1 3; mkEdge 3 4].
  Definition cost (e : nat) : nat := nth e [10; 1; 1; 1; 100] 0.
  Definition restricted (p e : nat) : bool := Nat.eqb p 2 && Nat.eqb e 3.
  (* TurnRestrictionFrontierModel with the single pair (e2, e3) *)
  Definition frontier (e : nat) (st : nat) (prev : option nat) : res bool :=
    match prev with Some p => Ok (negb (restricted p e)) | None => Ok true end.
  (* state = distance travelled; access cost 0, traversal cost = edge cost *)
  Definition traverse (d : dir) (e : nat) (prev : option nat) (st : nat) : res (nat * nat * nat) :=
    Ok (0, cost e, st + cost e).
  Definition estimate (v t : nat) (st : nat) : res nat := Ok (if Nat.eqb v 2 then 50 else 0).
  Definition init_state : res nat := Ok 0.
  Definition terminate (size iters : nat) : option string := None.

  Definition run :=
    run_vertex_oriented Nat.ltb Nat.add 0 (fun c => c) graph5 frontier traverse estimate init_state terminate 100 Forward 0 (Some 4).
  Definition route_edges : res (list (list nat)) :=
    rmap (fun r => map (map (@et_edge nat nat)) (r_routes r)) run.
  Definition reopens : bool :=
    negb (no_reopen Nat.ltb Nat.add 0 (fun c => c) graph5 frontier traverse estimate init_state terminate 100 Forward 0 (Some 4)).
  (* the same query under Dijkstra (estimate 0): no route at all, although e0 e3 e4 is legal *)
  Definition run_dijkstra :=
    run_vertex_oriented Nat.ltb Nat.add 0 (fun c => c) graph5 frontier traverse (fun _ _ _ => Ok 0) init_state terminate 100 Forward 0 (Some 4).
End Witness.

(* ------------------------------------------------------------------------------------------------
   The chain 0 -e0-> 1 -e1-> 2 -e2-> 3 -e3-> 4 under Dijkstra (estimate 0), unit costs.
   WitnessQueryEdges: the frontier model refuses e0 (and nothing else); the edge-oriented query from e0 to e3
     returns the route e0 e1 e2 e3.
   WitnessReverseTurn: the turn e1 -> e2 is restricted; the reverse search from 4 to 0 never re-opens a vertex and
     returns e3 e2 e1 e0, i.e. drives e1 then e2. *)
Module Chain.
  Definition graph5 : graph := mkGraph 5 [mkEdge 0 1; mkEdge 1 2; mkEdge 2 3; mkEdge 3 4].
  Definition traverse (d : dir) (e : nat) (prev : option nat) (st : nat) : res (nat * nat * nat) := Ok (0, 1, st + 1).
  Definition estimate (v t : nat) (st : nat) : res nat := Ok 0.
  Definition init_state : res nat := Ok 0.
  Definition terminate (size iters : nat) : option string := None.
End Chain.
Module WitnessQueryEdges.
  Import Chain.
  Definition ok (e : nat) : bool := negb (Nat.eqb e 0).
  Definition frontier (e : nat) (st : nat) (prev : option nat) : res bool := Ok (ok e).
  Definition run :=
    run_edge_oriented 0 graph5 traverse init_state Forward
      (run_vertex_oriented Nat.ltb Nat.add 0 (fun c => c) graph5 frontier traverse estimate init_state terminate 100 Forward)
      0 (Some 3).
  Definition route_edges : res (list (list nat)) := rmap (fun r => map (map (@et_edge nat nat)) (r_routes r)) run.
End WitnessQueryEdges.
Module WitnessReverseTurn.
  Import Chain.
  Definition restricted (p e : nat) : bool := Nat.eqb p 1 && Nat.eqb e 2.
  Definition frontier (e : nat) (st : nat) (prev : option nat) : res bool :=
    match prev with Some p => Ok (negb (restricted p e)) | None => Ok true end.
  Definition run :=
    run_vertex_oriented Nat.ltb Nat.add 0 (fun c => c) graph5 frontier traverse estimate init_state terminate 100 Reverse 4 (Some 0).
  Definition route_edges : res (list (list nat)) := rmap (fun r => map (map (@et_edge nat nat)) (r_routes r)) run.
  Definition reopens : bool :=
    K_reopen Nat.ltb Nat.add 0 (fun c => c) graph5 frontier traverse estimate init_state terminate 100 Reverse 4 (Some 0).
End WitnessReverseTurn.

(* ------------------------------------------------------------------------------------------------
   Non-vacuity instance: class, vehicle, cut and turn restrictions active at once, concrete models of
   Model/Frontier.v over exact rationals.  Vertices 0..3, edges
     e0 0->3 (class 1, the query allows class 0 only)      e1 0->1
     e2 1->3 (maximum height 4 m; the vehicle is 14 ft)     e3 1->2
     e4 2->3 (cut)                                          e5 2->3
   restricted turns (e1, e2) and (e3, e4).  Dijkstra from 0 to 3 returns e1 e3 e5. *)
Module NonVacuous.
  Import Units Frontier.
  Definition graph4 : graph :=
    mkGraph 4 [mkEdge 0 3; mkEdge 0 1; mkEdge 1 3; mkEdge 1 2; mkEdge 2 3; mkEdge 2 3].
  Definition vehicle : vparams QN :=
    mkVP QN (14%Q, Feet) (2%Q, Meters) (20%Q, Meters) (13%Q, Meters) (30%Q, Tons) 5.
  Definition local_part : fmodel QN :=
    EdgeCut QN [4] (Combined QN [RoadClass [1; 0; 0; 0; 0; 0] (Some [0]);
                                 Vehicle QN [(2, MaximumHeight QN 4%Q Meters)] vehicle]).
  Definition turn_pairs : list (nat * nat) := [(1, 2); (3, 4)].
  Definition model : fmodel QN := Combined QN [Turn turn_pairs; local_part].
  Definition frontier : nat -> nat -> option nat -> res bool := as_frontier QN model.
  Definition traverse (d : dir) (e : nat) (prev : option nat) (st : nat) : res (nat * nat * nat) := Ok (0, 1, st + 1).
  Definition estimate (v t : nat) (st : nat) : res nat := Ok 0.
  Definition init_state : res nat := Ok 0.
  Definition terminate (size iters : nat) : option string := None.
  Definition run :=
    run_vertex_oriented Nat.ltb Nat.add 0 (fun c => c) graph4 frontier traverse estimate init_state terminate 100 Forward 0 (Some 3).
  Definition route_edges : res (list (list nat)) :=
    rmap (fun r => map (map (@et_edge nat nat)) (r_routes r)) run.
  Definition reopens : bool :=
    negb (no_reopen Nat.ltb Nat.add 0 (fun c => c) graph4 frontier traverse estimate init_state terminate 100 Forward 0 (Some 3)).
End NonVacuous.

End FrontierReopen.
