(* Runner of the C04 correspondence streams.

   stream `search`
     M line: Model/Search.v (through Model/SearchRun.v) run with the frontier model of Model/Frontier.v built from the
             same configuration and query: status, iterations, trees, routes as SR.show_outcome.
     S line: the checker "no tree or route edge is inadmissible by the raw tables, no restricted consecutive pair"
             (Model/FrontierSpec.v) on the IMPLEMENTATION's outcome; echoes the outcome when it accepts,
             REJECT(reason;reopen=T/F) otherwise, reopen = the model's run of this case re-opens a vertex.

   stream `frontier`
     M line: the model (Model/Frontier.v, binary64 instance) builds service and model from the same
             configuration and query as the Rust builders/services and prints valid_frontier for every
             (previous edge, edge): "Ok r_None|r_0|...|r_{nprev-1}", r_p = one character per edge (T, F, E = Err),
             or "Err build".
     S line: the specification (Model/FrontierSpec.v, exact rationals, raw tables) for the same grid, merged
             with the implementation's answer where the specification is undecided: equal to the I line iff
             the implementation agrees with the specification wherever the latter decides. *)
From Coq Require Import ZArith QArith String Ascii List Bool Floats Arith.
From stdpp Require Import gmap.
From RC Require Import Base.Show Base.Num Base.Res Base.Json Model.Units Model.Frontier Model.FrontierSpec
                       Model.Search Model.SearchRun Model.FrontierReopen.
Import ListNotations.

Module FrontierRun.
Import Frontier.
Local Open Scope string_scope.

Definition id_float (f : float) : float := f.

(* previous edges probed: none, and the first [nprev] edges *)
Definition prevs (nprev : nat) : list (option nat) := None :: map Some (seq 0 nprev).

Fixpoint string_of_chars (l : list ascii) : string :=
  match l with [] => EmptyString | c :: r => String c (string_of_chars r) end.

Definition char_of_res (r : res bool) : ascii :=
  match r with
  | Ok true => "T" | Ok false => "F" | Err _ => "E" | Panic _ => "P" | OutOfFuel => "H"
  end%char.

Definition grid_M (m : fmodel FN) (nedges nprev : nat) : string :=
  join "|" (map (fun p => string_of_chars (map (fun e => char_of_res (valid_frontier FN m e p)) (seq 0 nedges)))
                (prevs nprev)).

Definition line_M (id : Z) (nested : bool) (c : config FN) (query : json) (cut : option (list nat)) (nedges nprev : nat) : string :=
  line "M" id (match build FN id_float nested c query cut with
               | Ok m => "Ok " ++ grid_M m nedges nprev
               | Err cls => "Err " ++ cls
               | Panic _ => "Panic"
               | OutOfFuel => "Hang"
               end).

Definition char_of_tri (t : FrontierSpec.tri) : ascii :=
  match t with FrontierSpec.Yes => "T" | FrontierSpec.No => "F" | FrontierSpec.Unknown => "?" end%char.

Definition grid_S (c : config FN) (query : json) (cut : option (list nat)) (nedges nprev : nat) : string :=
  join "|" (map (fun p => string_of_chars (map (fun e => char_of_tri (FrontierSpec.admissible c query cut e p)) (seq 0 nedges)))
                (prevs nprev)).

(* take the specification's character where it decides, the implementation's where it does not; an
   implementation error (E) on an edge is never a leak: the edge is not admitted and the search fails *)
Fixpoint merge (s i : string) : string :=
  match s, i with
  | String c r, String d r' => String (if Ascii.eqb c "?" || Ascii.eqb d "E" then d else c) (merge r r')
  | EmptyString, _ => EmptyString
  | _, EmptyString => s
  end.

(* impl_status = "Ok" (then impl_grid is the implementation's grid) or the implementation's error line *)
Definition line_S (id : Z) (c : config FN) (query : json) (cut : option (list nat)) (nedges nprev : nat)
                  (impl_status impl_grid : string) : string :=
  line "S" id (if String.eqb impl_status "Ok" then "Ok " ++ merge (grid_S c query cut nedges nprev) impl_grid
               else impl_status).

(* ================================================================================== stream `search` *)
Section SearchStream.
  Import Search.
  Notation world := (SR.world FN).
  Notation query := (SR.query FN).

  Definition is_ok_false (r : res bool) : bool := match r with Ok false => true | _ => false end.
  Definition is_ok_true (r : res bool) : bool := match r with Ok true => true | _ => false end.
  Definition is_err (r : res bool) : bool := match r with Ok _ => false | _ => true end.

  (* pairs (p, e) the search can present as (previous edge, candidate): forward dst p = src e, reverse src p = dst e *)
  Definition adjacent_pairs (edges : list (nat * nat)) : list (nat * nat) :=
    let ix := combine (seq 0 (List.length edges)) edges in
    flat_map (fun pe => let '(p, (ps, pd)) := pe in
                flat_map (fun ee => let '(e, (es, ed)) := ee in
                            if Nat.eqb pd es || Nat.eqb ps ed then [(p, e)] else []) ix) ix.

  (* the frontier tables of SR.world that say what the model says *)
  Definition with_frontier (w : world) (m : fmodel FN) : world :=
    let es := seq 0 (List.length (SR.w_edges FN w)) in
    SR.mkW FN (SR.w_n FN w) (SR.w_edges FN w) (SR.w_cost FN w) (SR.w_h FN w) (SR.w_turn FN w)
      (filter (fun e => is_ok_false (valid_frontier FN m e None)) es)
      (filter (fun pe => is_ok_true (valid_frontier FN m (snd pe) None) && is_ok_false (valid_frontier FN m (snd pe) (Some (fst pe))))
              (adjacent_pairs (SR.w_edges FN w)))
      (filter (fun e => is_err (valid_frontier FN m e None)) es)
      (SR.w_terr FN w) (SR.w_term FN w) (SR.w_init FN w).

  Definition res_bool_eqb (a b : res bool) : bool :=
    match a, b with
    | Ok x, Ok y => Bool.eqb x y
    | Err _, Err _ => true
    | _, _ => false
    end.
  (* self-check: on every edge and every presentable pair the tables answer as the model does *)
  Definition tables_agree (w' : world) (m : fmodel FN) : bool :=
    forallb (fun e => res_bool_eqb (SR.frontier FN w' e PrimFloat.zero None) (valid_frontier FN m e None))
            (seq 0 (List.length (SR.w_edges FN w')))
    && forallb (fun pe => res_bool_eqb (SR.frontier FN w' (snd pe) PrimFloat.zero (Some (fst pe)))
                                       (valid_frontier FN m (snd pe) (Some (fst pe))))
               (adjacent_pairs (SR.w_edges FN w')).

  Definition search_M (fuel : nat) (id : Z) (nested : bool) (c : config FN) (qjson : json) (cut : option (list nat))
                      (w : world) (q : query) (detail : nat) : string :=
    match build FN id_float nested c qjson cut with
    | Ok m => let w' := with_frontier w m in
              if tables_agree w' m then SR.line_M FN fuel id w' q detail else line "M" id "TABLES-DISAGREE"
    | Err cls => line "M" id ("err:" ++ cls)
    | Panic _ => line "M" id "Panic"
    | OutOfFuel => line "M" id "Hang"
    end.

  (* does the model's run of this case re-open a vertex?  (vertex pair of the underlying vertex-oriented search) *)
  Definition vertex_reopens (fuel : nat) (w' : world) (q : query) (s : nat) (t : option nat) : bool :=
    negb (FrontierReopen.no_reopen (C:=float) (St:=float) PrimFloat.ltb PrimFloat.add PrimFloat.zero (SR.pos FN) (SR.graph_of FN w') (SR.frontier FN w')
            (SR.traverse FN w') (SR.estimate FN w' (SR.eff_wf FN q)) (Ok (SR.w_init FN w')) (SR.terminate FN w')
            fuel (SR.q_dir FN q) s t).
  Definition reopens (fuel : nat) (w' : world) (q : query) : bool :=
    match SR.q_orient FN q with
    | SR.OVertex => vertex_reopens fuel w' q (SR.q_source FN q) (SR.q_target FN q)
    | SR.OEdge =>
        match get_edge (SR.graph_of FN w') (SR.q_source FN q) with
        | None => false
        | Some e1 =>
            let b1 := key_vertex (SR.q_dir FN q) e1 in
            match SR.q_target FN q with
            | None => vertex_reopens fuel w' q b1 None
            | Some te =>
                match get_edge (SR.graph_of FN w') te with
                | None => false
                | Some e2 => vertex_reopens fuel w' q b1 (Some (term_vertex (SR.q_dir FN q) e2))
                end
            end
        end
    end.

  (* ---- the checker over the RAW tables ---- *)
  Definition is_no (t : FrontierSpec.tri) : bool := match t with FrontierSpec.No => true | _ => false end.
  Definition edge_bad (c : config FN) (qjson : json) (cut : option (list nat)) (e : nat) : bool :=
    is_no (FrontierSpec.admissible c qjson cut e None).
  (* (a, b) driven consecutively, a then b: b itself is admissible but not after a *)
  Definition pair_bad (c : config FN) (qjson : json) (cut : option (list nat)) (a b : nat) : bool :=
    negb (edge_bad c qjson cut b) && is_no (FrontierSpec.admissible c qjson cut b (Some a)).
  Fixpoint first_bad_pair (bad : nat -> nat -> bool) (l : list nat) : option (nat * nat) :=
    match l with
    | a :: ((b :: _) as r) => if bad a b then Some (a, b) else first_bad_pair bad r
    | _ => None
    end.
  Definition is_query_edge (q : query) (e : nat) : bool :=
    match SR.q_orient FN q with
    | SR.OVertex => false
    | SR.OEdge => Nat.eqb e (SR.q_source FN q) || match SR.q_target FN q with Some t => Nat.eqb e t | None => false end
    end.

  (* a restricted turn (a, b) is a pair DRIVEN a-then-b: routes are read in travel order.  A forward search lists
     its route in travel order, a reverse search lists it from the destination backwards. *)
  Definition travel (d : dir) (r : list nat) : list nat := match d with Forward => r | Reverse => rev r end.

  (* ---- routes glued by Yen's algorithm: root path (a prefix of an earlier returned route) ++ spur path.  The spur
     search starts at the spur vertex with no previous edge, so the pair at the junction is never shown to the
     frontier model (class K_ksp_turn); every other pair lies inside one search and must be clean. ---- *)
  Fixpoint prefix_eqb (n : nat) (a b : list nat) : bool :=
    match n with
    | 0 => true
    | S k => match a, b with
             | x :: a', y :: b' => Nat.eqb x y && prefix_eqb k a' b'
             | _, _ => false
             end
    end.
  (* indices i such that (l[i], l[i+1]) is bad *)
  Fixpoint bad_positions (bad : nat -> nat -> bool) (l : list nat) (i : nat) : list nat :=
    match l with
    | a :: ((b :: _) as r) => List.app (if bad a b then [i] else []) (bad_positions bad r (S i))
    | _ => []
    end.
  (* (some bad pair that is not at a possible junction, some bad pair at a possible junction); the pair at index i of
     route r is at a possible junction iff r[0..i] is a prefix of a route returned before r *)
  Fixpoint yens_scan (bad : nat -> nat -> bool) (earlier rs : list (list nat)) : bool * bool :=
    match rs with
    | [] => (false, false)
    | r :: rest =>
        let ps := bad_positions bad r 0 in
        let junction := fun i => existsb (prefix_eqb (S i) r) earlier in
        let '(x, y) := yens_scan bad (r :: earlier) rest in
        (existsb (fun i => negb (junction i)) ps || x, existsb junction ps || y)
    end.

  (* mode: 0 = the query's algorithm itself, 1 = KspSingleVia over it, 2 = Yens over it.
     None = accepted.  Reasons, most serious first:
       edge          a tree or route edge other than the query's own origin/destination edges is inadmissible
       turn          forward search: a restricted consecutive pair inside a route, not involving the query's own edges
                     (Yen's: not at a root/spur junction)
       reverse-turn  the same in a reverse search (class K_reverse_turn: the model is shown the pair swapped)
       ksp-turn      the same in a route assembled by the single-via KSP algorithm (class K_ksp_turn)
       yens-junction-turn  Yen's: restricted pairs only where a root path meets its spur path (class K_ksp_turn)
       query-edge    an edge-oriented query's own origin / destination edge is inadmissible   (class K_query_edges)
       query-turn    a restricted pair between a query edge and its neighbour in the route     (class K_query_edges) *)
  Definition check_outcome (c : config FN) (qjson : json) (cut : option (list nat)) (mode : nat) (q : query) (o : SR.outcome FN) : option string :=
    if negb (String.eqb (SR.o_status FN o) "Ok") then None else
    let tree_edges := flat_map (fun t => map (fun x => let '(_, _, e, _, _, _) := x in e) t) (SR.o_trees FN o) in
    let routes := map (fun r => travel (SR.q_dir FN q) (SR.route_edges FN r)) (SR.o_routes FN o) in
    let all_edges := List.app tree_edges (concat routes) in
    if existsb (fun e => edge_bad c qjson cut e && negb (is_query_edge q e)) all_edges then Some "edge" else
    match mode with
    | 2 =>
        let '(interior, junction) := yens_scan (pair_bad c qjson cut) [] routes in
        if interior then Some "turn" else if junction then Some "yens-junction-turn" else None
    | _ =>
        if existsb (fun r => match first_bad_pair (fun a b => pair_bad c qjson cut a b && negb (is_query_edge q a) && negb (is_query_edge q b)) r with
                             | Some _ => true | None => false end) routes
        then Some (if Nat.eqb mode 1 then "ksp-turn" else match SR.q_dir FN q with Forward => "turn" | Reverse => "reverse-turn" end) else
        if existsb (fun e => edge_bad c qjson cut e) all_edges then Some "query-edge" else
        if existsb (fun r => match first_bad_pair (pair_bad c qjson cut) r with Some _ => true | None => false end) routes
        then Some "query-turn" else None
    end.

  Definition search_S (fuel : nat) (id : Z) (nested : bool) (c : config FN) (qjson : json) (cut : option (list nat))
                      (mode : nat) (w : world) (q : query) (o : SR.outcome FN) (detail : nat) : string :=
    line "S" id
      (match check_outcome c qjson cut mode q o with
       | None => SR.show_outcome FN o detail
       | Some why =>
           let ro := if negb (Nat.eqb mode 0) then "?" else
                     match build FN id_float nested c qjson cut with
                     | Ok m => if reopens fuel (with_frontier w m) q then "T" else "F"
                     | _ => "?"
                     end in
           "REJECT(" ++ why ++ ";reopen=" ++ ro ++ ") " ++ SR.show_outcome FN o 0
       end).
End SearchStream.

End FrontierRun.
