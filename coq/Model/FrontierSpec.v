(* Specification side of property C04, written from the property text and from the RAW inputs (the
   per-edge tables as they are in the files, the query JSON as it arrives), in exact rational arithmetic;
   it shares no code with the model's valid_frontier / read_query / from_query / to_restriction.

     an edge e reached from previous edge prev is ADMISSIBLE for a query iff
        its road class is one of the query's allowed classes (numbers, or names through the mapping), and
        for every restriction row of e: the vehicle's quantity, converted to the row's unit with the exact
          conversion factor (per-axle: total weight / number of axles), is <= the row's limit, and
        e is not a cut edge, and
        (prev, e) is not a restricted turn;
     a combined configuration admits e iff every inner configuration does.

   The answer is three-valued: [Unknown] where the text does not decide (ill-formed query pieces, an edge
   missing from the class table, zero axles) or where the vehicle's quantity is within a relative band of
   1e-9 of the limit (binary64 rounding of the conversion may fall on either side there); when vehicle and
   restriction use the same unit there is no conversion and no band: at the limit is admitted, one float above is not. *)
From Coq Require Import ZArith QArith Qabs String List Bool Floats Arith.
From RC Require Import Base.Num Base.Json Model.Units Model.Frontier.
Import ListNotations.

Module FrontierSpec.
Import Units.
Local Open Scope string_scope.

Inductive tri := Yes | No | Unknown.
Definition tri_and (a b : tri) : tri :=
  match a, b with
  | No, _ | _, No => No
  | Unknown, _ | _, Unknown => Unknown
  | Yes, Yes => Yes
  end.
Definition tri_all (l : list tri) : tri := fold_right tri_and Yes l.
Definition tri_of_bool (b : bool) : tri := if b then Yes else No.

Definition band : Q := 1 # 1000000000.
(* is x <= limit?  undecided within the band around the limit *)
Definition within_limit (x limit : Q) : tri :=
  if Qle_bool (Qabs (x - limit)) (band * Qabs limit) then Unknown
  else tri_of_bool (Qle_bool x limit).

Definition qnum (j : json) : option Q :=
  match j with
  | JInt z => Some (inject_Z z)
  | JFloat f => Some (Frontier.Q_of_float f)
  | _ => None
  end.

(* the vehicle's quantity [field] of the query as (value, unit spelling) *)
Definition vehicle_quantity (query : json) (field : string) : option (Q * string) :=
  match jget query "vehicle_parameters" with
  | Some vps =>
      match jget vps field with
      | Some (JArr [x; JStr u]) => match qnum x with Some q => Some (q, u) | None => None end
      | _ => None
      end
  | None => None
  end.
Definition vehicle_axles (query : json) : option Q :=
  match jget query "vehicle_parameters" with
  | Some vps =>
      match jget vps "number_of_axles" with
      | Some (JInt z) => if (0 <? z)%Z && (z <? 256)%Z then Some (inject_Z z) else None
      | _ => None
      end
  | None => None
  end.

(* exact conversion factors between two unit spellings *)
Definition dist_factor (from to : string) : option Q :=
  match dist_of_show from, dist_of_show to with
  | Some a, Some b => Some (k_dist a b)
  | _, _ => None
  end.
Definition weight_factor (from to : string) : option Q :=
  match weight_of_show from, weight_of_show to with
  | Some a, Some b => Some (k_weight a b)
  | _, _ => None
  end.

(* which quantity of the vehicle a restriction name limits: (query field, is a weight, per axle) *)
Definition limited_quantity (name : string) : option (string * bool * bool) :=
  if String.eqb name "maximum_total_weight" then Some ("total_weight", true, false)
  else if String.eqb name "maximum_weight_per_axle" then Some ("total_weight", true, true)
  else if String.eqb name "maximum_length" then Some ("total_length", false, false)
  else if String.eqb name "maximum_width" then Some ("width", false, false)
  else if String.eqb name "maximum_height" then Some ("height", false, false)
  else if String.eqb name "maximum_trailer_length" then Some ("trailer_length", false, false)
  else None.

(* one row of the restriction file against the query's vehicle *)
Definition row_admits (query : json) (name : string) (limit : Q) (unit : string) : tri :=
  match limited_quantity name with
  | None => Unknown
  | Some (field, is_weight, per_axle) =>
      match vehicle_quantity query field with
      | None => Unknown
      | Some (v, vu) =>
          match (if is_weight then weight_factor vu unit else dist_factor vu unit) with
          | None => Unknown
          | Some k =>
              (* vehicle and restriction in the same unit, nothing divided (or divided by one axle): the code compares
                 the two given numbers themselves, no rounding can intervene, so the text decides exactly - in
                 particular a vehicle AT the limit does not exceed it and is admitted *)
              let one_axle := match vehicle_axles query with Some n => Qeq_bool n 1 | None => false end in
              if String.eqb vu unit && (negb per_axle || one_axle) then tri_of_bool (Qle_bool v limit)
              else if per_axle then
                match vehicle_axles query with
                | Some n => within_limit (v * k / n) limit
                | None => Unknown
                end
              else within_limit (v * k) limit
          end
      end
  end.

Fixpoint assoc_nat (m : list (string * nat)) (k : string) : option nat :=
  match m with
  | [] => None
  | (k', v) :: r => if String.eqb k' k then Some v else assoc_nat r k
  end.
(* class c is named by the query's road_classes array: as a number, or as a name the mapping sends to c *)
Definition class_listed (mapping : list (string * nat)) (arr : list json) (c : nat) : bool :=
  existsb (fun j => match j with
                    | JInt z => Z.eqb z (Z.of_nat c)
                    | JStr s => match assoc_nat mapping s with Some c' => Nat.eqb c' c | None => false end
                    | _ => false
                    end) arr.

Fixpoint admits (c : Frontier.config FN) (query : json) (e : nat) (prev : option nat) : tri :=
  match c with
  | Frontier.CNoRestriction => Yes
  | Frontier.CRoadClass lookup mapping =>
      match jget query "road_classes" with
      | None => Yes                                   (* the query allows every class *)
      | Some (JArr arr) =>
          match nth_error lookup e with
          | Some cls => tri_of_bool (class_listed mapping arr cls)
          | None => Unknown
          end
      | Some _ => Unknown
      end
  | Frontier.CVehicle _ rows =>
      tri_all (map (fun row => let '(e', name, limit, unit) := row in
                               if Nat.eqb e' e then row_admits query name (Frontier.Q_of_float limit) unit else Yes) rows)
  | Frontier.CTurn pairs =>
      match prev with
      | None => Yes                                   (* the first edge of a search follows no edge *)
      | Some p => tri_of_bool (negb (existsb (fun pr => Nat.eqb (fst pr) p && Nat.eqb (snd pr) e) pairs))
      end
  | Frontier.CCombined _ inner =>
      (fix go (l : list (Frontier.config FN)) : tri :=
         match l with [] => Yes | c' :: r => tri_and (admits c' query e prev) (go r) end) inner
  end.

Definition admissible (c : Frontier.config FN) (query : json) (cut : option (list nat)) (e : nat) (prev : option nat) : tri :=
  tri_and (match cut with
           | Some es => tri_of_bool (negb (existsb (Nat.eqb e) es))
           | None => Yes
           end)
          (admits c query e prev).

End FrontierSpec.
