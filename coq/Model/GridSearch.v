(* Model of GridSearchPlugin::process (rust/routee-compass/src/plugin/input/default/grid_search/
   plugin.rs, CURRENT code) and of the glue that applies input plugins to a query
   (json_array_op / json_array_flatten_in_place / json_array_flatten in input_plugin_ops.rs,
   apply_input_plugins in compass_app.rs), over JSON values with the semantics of Base/Json.v
   (serde_json with preserve_order: objects are insertion-ordered maps with unique keys).
   Definitions only.

   The JSON type used here, [GS.value F], is the type of Base/Json.v made polymorphic in the
   carrier F of non-integer numbers (same constructors in the same order, same oget / oset /
   oremove): the plugin never looks inside a number, and theorems stated for every F do not
   depend on the kernel's primitive float type (Print Assumptions stays closed).  The runner
   (GridSearchRun.v) instantiates F with binary64 floats and converts from / to Json.json.

   Modelling notes (what is abstracted):
   * `serde_json::to_string(section).contains("grid_search")` is modelled by [mentions]: some
     string inside the section (an object key or a string value, at any depth) contains the
     text.  This is the same predicate: the text consists of letters and '_' only, every other
     token of the serialisation (punctuation, numbers, true/false/null) is delimited by
     characters outside that alphabet, and string escaping neither produces nor alters
     letters/underscores next to each other (an escape always starts with a backslash).
   * `Map::remove` under preserve_order is `swap_remove` (the last entry moves into the hole).
     serde_json's object equality ignores key order and so does every comparison of this
     development (Json.show_sorted), therefore the model removes with oremove (as Json.oremove).
   * `instance[k] = v` on an object is Map::entry(k).or_insert(Null) followed by assignment,
     i.e. oset (as Json.oset: replace in place or append).
   * Err classes: "Recursion" / "EmptyAxis" are the two InputPluginFailed messages,
     "UnexpectedQueryStructure" the error of that name, "Invariant" the packaged
     array-of-objects invariant error of input_plugin_ops.rs, "NotAnObject" the up-front
     rejection of a non-object query by apply_input_plugins. *)
From Coq Require Import List Arith Bool String ZArith.
From RC Require Import Base.Res Model.MultiSet.
Import ListNotations.
Open Scope string_scope.

Module GS.
Inductive value (F : Type) : Type :=
| VNull
| VBool (b : bool)
| VInt (z : Z)            (* serde_json Number::PosInt / NegInt *)
| VFloat (f : F)          (* serde_json Number::Float (finite) *)
| VStr (s : string)
| VArr (l : list (value F))
| VObj (m : list (string * value F)).
Arguments VNull {F}.
Arguments VBool {F} b.
Arguments VInt {F} z.
Arguments VFloat {F} f.
Arguments VStr {F} s.
Arguments VArr {F} l.
Arguments VObj {F} m.

Definition obj (F : Type) : Type := list (string * value F).
Definition grid_key : string := "grid_search".

Section Defs.
Context {F : Type}.
Local Notation json := (value F).
Local Notation obj := (obj F).

(* Map::get / Map::insert (replace in place or append) / removal of the first (= only) entry
   with the key: as Json.oget / Json.oset / Json.oremove *)
Fixpoint oget (m : obj) (k : string) : option json :=
  match m with
  | [] => None
  | (k', v) :: r => if String.eqb k' k then Some v else oget r k
  end.
Fixpoint oset (m : obj) (k : string) (v : json) : obj :=
  match m with
  | [] => [(k, v)]
  | (k', v') :: r => if String.eqb k' k then (k', v) :: r else (k', v') :: oset r k v
  end.
Fixpoint oremove (m : obj) (k : string) : obj :=
  match m with
  | [] => []
  | (k', v') :: r => if String.eqb k' k then r else (k', v') :: oremove r k
  end.
Definition jget (j : json) (k : string) : option json :=
  match j with VObj m => oget m k | _ => None end.
Definition as_object (j : json) : option obj :=
  match j with VObj m => Some m | _ => None end.

(* ---------- the plugin ---------- *)

(* str::contains *)
Fixpoint containsb (s pat : string) : bool :=
  String.prefix pat s || match s with EmptyString => false | String _ r => containsb r pat end.

(* some string inside j (object key or string value) contains "grid_search" *)
Fixpoint mentions (j : json) : bool :=
  match j with
  | VStr s => containsb s grid_key
  | VArr l => existsb mentions l
  | VObj m => existsb (fun kv => containsb (fst kv) grid_key || mentions (snd kv)) m
  | _ => false
  end.

(* for (k, v) in map { if let Some(v) = v.as_array() { keys.push(k); multiset_input.push(v);
                                                       multiset_indices.push((0..v.len()).collect()) } } *)
Definition axes (sec : obj) : list (string * list json) :=
  flat_map (fun kv => match snd kv with VArr l => [(fst kv, l)] | _ => [] end) sec.

(* match value { Object(o) => for (k, v) in o { instance[k] = v }, _ => instance[key] = value } *)
Definition apply_choice (inst : obj) (key : string) (value : json) : obj :=
  match value with
  | VObj o => fold_left (fun acc kv => oset acc (fst kv) (snd kv)) o inst
  | _ => oset inst key value
  end.

(* for (set_idx, (key, val_idx)) in keys.iter().zip(combination.iter()).enumerate() {
       let value = multiset_input[set_idx][*val_idx].clone(); ... }     (indexing may panic) *)
Fixpoint apply_combo (inputs : list (list json)) (inst : obj) (set_idx : nat)
         (kc : list (string * nat)) : res obj :=
  match kc with
  | [] => Ok inst
  | (key, val_idx) :: r =>
      match nth_error inputs set_idx with
      | None => Panic "index out of bounds"
      | Some arr =>
          match nth_error arr val_idx with
          | None => Panic "index out of bounds"
          | Some value => apply_combo inputs (apply_choice inst key value) (S set_idx) r
          end
      end
  end.

Fixpoint mapM {A B} (f : A -> res B) (l : list A) : res (list B) :=
  match l with
  | [] => Ok []
  | a :: r => do b <- f a; do bs <- mapM f r; Ok (b :: bs)
  end.

Definition is_nil {B} (l : list B) : bool := match l with [] => true | _ => false end.

(* InputPlugin::process for GridSearchPlugin: Ok j = the value left in `input` *)
Definition process (input : json) : res json :=
  match jget input grid_key with
  | None => Ok input
  | Some section =>
      if mentions section then Err "Recursion" else
      match as_object section with
      | None => Err "UnexpectedQueryStructure"
      | Some sec =>
          let ax := axes sec in
          let keys := map fst ax in
          let multiset_input := map snd ax in
          let multiset_indices := map (fun v => seq 0 (List.length v)) multiset_input in
          match as_object input with
          | None => Err "UnexpectedQueryStructure"
          | Some m =>
              let initial := oremove m grid_key in
              do combinations <- MS.to_vec multiset_indices;
              do result <- mapM (fun combination =>
                                   apply_combo multiset_input initial 0 (combine keys combination))
                                combinations;
              if is_nil result then Err "EmptyAxis"
              else Ok (VArr (map VObj result))
          end
      end
  end.

(* ---------- input_plugin_ops.rs ---------- *)

Definition is_array (j : json) : bool := match j with VArr _ => true | _ => false end.
Definition is_object (j : json) : bool := match j with VObj _ => true | _ => false end.

(* json_array_flatten_in_place *)
Definition flatten_in_place (j : json) : res json :=
  match j with
  | VArr top =>
      if forallb (fun v => negb (is_array v)) top then Ok j
      else Ok (VArr (flat_map (fun v => match v with VArr sub => sub | other => [other] end) top))
  | _ => Err "Invariant"
  end.

(* json_array_op: op on every element in order (first error aborts), then flatten *)
Definition array_op (op : json -> res json) (query : json) : res json :=
  match query with
  | VArr queries => do qs <- mapM op queries; flatten_in_place (VArr qs)
  | _ => Err "Invariant"
  end.

(* json_array_flatten: every element must be an object *)
Definition array_flatten (j : json) : res (list json) :=
  match j with
  | VArr l => if forallb is_object l then Ok l else Err "Invariant"
  | _ => Err "Invariant"
  end.

(* apply_input_plugins(query, plugins): a query that is not a JSON object is rejected up front
   (an array would otherwise be spliced into the query state) *)
Definition apply_input_plugins (plugins : list (json -> res json)) (query : json) : res (list json) :=
  if negb (is_object query) then Err "NotAnObject" else
  do st <- fold_left (fun acc p => do s <- acc; array_op p s) plugins (Ok (VArr [query]));
  array_flatten st.

(* the grid search plugin configured n times in a row (n = 1 in practice) *)
Definition run (n : nat) (query : json) : res (list json) :=
  apply_input_plugins (repeat process n) query.

(* ---------- plugin chains with a stub plugin (test scaffolding of stream `chain`) ---------- *)

(* A stub input plugin of the harness: adds a grid section to the queries that satisfy a
   predicate on a top-level field (`input["grid_search"] = section`, i.e. oset), so that the
   grid search plugin later in the chain meets a multi-element query state in which only some
   elements, not necessarily the first, expand. *)
Inductive pred := PAlways | PHasKey (k : string) | PStrEq (k s : string).
Definition pred_holds (p : pred) (m : obj) : bool :=
  match p with
  | PAlways => true
  | PHasKey k => match oget m k with Some _ => true | None => false end
  | PStrEq k s => match oget m k with Some (VStr s') => String.eqb s' s | _ => false end
  end.
Definition add_section (p : pred) (section : json) (q : json) : json :=
  match q with
  | VObj m => if pred_holds p m then VObj (oset m grid_key section) else q
  | _ => q
  end.

Inductive stage := SGrid | SAdd (p : pred) (section : json).
Definition stage_op (s : stage) : json -> res json :=
  match s with
  | SGrid => process
  | SAdd p section => fun q => Ok (add_section p section q)
  end.
(* apply_input_plugins(query, [plugins of the chain]) *)
Definition run_stages (stages : list stage) (query : json) : res (list json) :=
  apply_input_plugins (map stage_op stages) query.

(* ---------- specification (no reference to MultiSet, indices or the plugin code) ---------- *)

(* one combination = one (field name, chosen option) per array-valued field, in section order *)
Definition combos (ax : list (string * list json)) : list (list (string * json)) :=
  MS.product (map (fun a => map (pair (fst a)) (snd a)) ax).

(* the query for a combination: scalar choices under the field's name, object-valued choices
   merged into the top level, later fields overwriting earlier ones on a name clash *)
Definition overlay (base : obj) (combo : list (string * json)) : obj :=
  fold_left (fun inst kv => apply_choice inst (fst kv) (snd kv)) combo base.

(* the flat list of (name, value) assignments a combination makes, in order *)
Definition assigns (combo : list (string * json)) : list (string * json) :=
  flat_map (fun kv => match snd kv with VObj o => o | _ => [kv] end) combo.

(* the last value assigned to k *)
Fixpoint last_assign (l : list (string * json)) (k : string) : option json :=
  match l with
  | [] => None
  | (k', v) :: r => match last_assign r k with
                    | Some v' => Some v'
                    | None => if String.eqb k' k then Some v else None
                    end
  end.

Definition without_key (m : obj) (k : string) : obj :=
  filter (fun kv => negb (String.eqb (fst kv) k)) m.

(* the expansion the property demands; None = outside the property's domain (query not an
   object, section not an object or mentioning "grid_search", an array field with no values) *)
Definition spec (q : json) : option (list json) :=
  match q with
  | VObj m =>
      match oget m grid_key with
      | None => Some [q]
      | Some (VObj sec) =>
          if mentions (VObj sec) then None
          else if existsb (fun a => is_nil (snd a)) (axes sec) then None
          else Some (map (fun c => VObj (overlay (without_key m grid_key) c)) (combos (axes sec)))
      | Some _ => None
      end
  | _ => None
  end.

(* the expansion demanded of a plugin chain: every grid stage replaces every query of the
   state by its expansion, in place; None as soon as one query is outside the domain *)
Fixpoint flat_map_opt {A B} (f : A -> option (list B)) (l : list A) : option (list B) :=
  match l with
  | [] => Some []
  | a :: r => match f a, flat_map_opt f r with
              | Some x, Some y => Some (x ++ y)%list
              | _, _ => None
              end
  end.
Definition spec_stage (s : stage) (qs : list json) : option (list json) :=
  match s with
  | SGrid => flat_map_opt spec qs
  | SAdd p section => Some (map (add_section p section) qs)
  end.
Definition spec_stages (stages : list stage) (q : json) : option (list json) :=
  fold_left (fun acc s => match acc with Some qs => spec_stage s qs | None => None end)
            stages (if is_object q then Some [q] else None).
End Defs.
End GS.
