(* Runner of the C17 correspondence streams.
   stream `grid`    : M line = the model's result of apply_input_plugins([grid_search; n times], q),
                      queries in enumeration order, objects key-sorted (serde_json object
                      equality ignores key order).
   stream `mset`    : M line = MS.to_vec on a family of integer sets (MultiSet used directly).
   stream `gridbig` : large products judged by count and digest: S line = the number of queries
                      demanded by the count theorem (grid_count: the product of the field lengths,
                      computed here) followed by the order-independent digest of the expected
                      queries that the harness computed by enumerating the product itself.
   stream `bindings`: S line = for a batch of queries submitted through CompassAppBindings::
                      run_queries (grid_search enabled), the sorted multiset of the queries that
                      must be answered: the concatenation of GS.spec of every query of the batch.
   stream `gridset` : S line = the specification (Cartesian product built directly, GS.spec)
                      as a SORTED list of canonical query texts, so that the comparison with the
                      implementation is a multiset comparison: "one for each combination and
                      none twice", whatever the order of enumeration. *)
From Coq Require Import List Arith Bool String ZArith Floats Sorting.Mergesort Orders.
From RC Require Import Base.Show Base.Res Base.Json Model.MultiSet Model.GridSearch.
Import ListNotations.
Open Scope string_scope.

Module StringOrder <: TotalLeBool.
  Definition t := string.
  Definition leb := String.leb.
  Definition leb_total := String.leb_total.
End StringOrder.
Module StringSort := Sort StringOrder.

Module GSR.
(* Json.json <-> the model's JSON type at F = binary64 *)
Fixpoint of_json (j : json) : GS.value float :=
  match j with
  | JNull => GS.VNull
  | JBool b => GS.VBool b
  | JInt z => GS.VInt z
  | JFloat f => GS.VFloat f
  | JStr s => GS.VStr s
  | JArr l => GS.VArr (map of_json l)
  | JObj m => GS.VObj (map (fun kv => (fst kv, of_json (snd kv))) m)
  end.
Fixpoint to_json (v : GS.value float) : json :=
  match v with
  | GS.VNull => JNull
  | GS.VBool b => JBool b
  | GS.VInt z => JInt z
  | GS.VFloat f => JFloat f
  | GS.VStr s => JStr s
  | GS.VArr l => JArr (map to_json l)
  | GS.VObj m => JObj (map (fun kv => (fst kv, to_json (snd kv))) m)
  end.

Definition show_queries (l : list (GS.value float)) : string := show_list show_sorted (map to_json l).

(* plugin chains as the harness writes them: G = grid_search, A p section = the stub plugin *)
Inductive rstage := G | A (p : GS.pred) (section : json).
Definition stages_of (l : list rstage) : list (GS.stage (F := float)) :=
  map (fun s => match s with G => GS.SGrid | A p sec => GS.SAdd p (of_json sec) end) l.

Definition line_model (id : Z) (chain : list rstage) (q : json) : string :=
  line "M" id (show_res show_queries (GS.run_stages (stages_of chain) (of_json q))).

(* MultiSet::from(&sets).into_iter().collect() on integer sets *)
Definition line_mset (id : Z) (sets : list (list Z)) : string :=
  line "M" id (show_res (show_list (show_list show_Z)) (MS.to_vec sets)).

(* count (Coq: n1 x ... x nm) + digest (harness-side specification) of a large expansion *)
Definition line_big (id : Z) (lens : list nat) (sum xor : Z) : string :=
  line "S" id ("Ok n=" ++ show_nat (MS.size lens) ++ " sum=" ++ show_Z sum ++ " xor=" ++ show_Z xor).

Definition sorted_texts (l : list (GS.value float)) : string :=
  show_list (fun s => s) (StringSort.sort (map (fun v => show_sorted (to_json v)) l)).

(* the model's result as a multiset (second correspondence, stream `gridset`) *)
Definition line_model_sorted (id : Z) (chain : list rstage) (q : json) : string :=
  line "M" id (show_res sorted_texts (GS.run_stages (stages_of chain) (of_json q))).

(* output-side clause, for EVERY successful result whatever the input (also outside the domain of
   GS.spec): when the last plugin of the chain is the grid search, no produced query has a grid
   section (Props/C17.v output_has_no_grid_section).  [out_keys] = the distinct top-level key
   lists of the queries the implementation produced (None if it returned an error). *)
Definition ends_with_grid (chain : list rstage) : bool :=
  match rev chain with G :: _ => true | _ => false end.
Definition output_clause_broken (chain : list rstage) (out_keys : option (list (list string))) : bool :=
  match out_keys with
  | Some ks => ends_with_grid chain && existsb (existsb (String.eqb GS.grid_key)) ks
  | None => false
  end.

Definition line_spec (id : Z) (chain : list rstage) (q : json) (out_keys : option (list (list string))) : string :=
  line "S" id (if output_clause_broken chain out_keys
               then "no generated query may have a grid_search section (the implementation produced one)"
               else match GS.spec_stages (stages_of chain) (of_json q) with
                    | None => "unspecified"
                    | Some l => "Ok " ++ sorted_texts l
                    end).
(* a batch through the bindings: one response per query of the concatenated expansions *)
Definition line_spec_batch (id : Z) (qs : list json) : string :=
  line "S" id (match GS.flat_map_opt GS.spec (map of_json qs) with
               | None => "unspecified"
               | Some l => "Ok n=" ++ show_nat (List.length l) ++ " " ++ sorted_texts l
               end).
End GSR.
