(* C14 -- model of routee-compass-powertrain/src/routee/prediction/interpolation/
     utils.rs                            linspace, find_nearest_index
     interp.rs                           Interp1D/2D/3D/ND (linear strategy), validate, validate_inputs
     interpolation_speed_grade_model.rs  InterpolationSpeedGradeModel::{new, predict}
   Written once over [Num]: QN for the theorems, FN to execute next to the Rust code bit for bit
   (the order of the floating-point operations is the order of the Rust source).
   Definitions only, no proofs.  Rust failure modes are values of [res]:
     Err "empty" | "unsorted" | "shape" | "grid-dim"      constructor validation
     Err "point-len" | "out-of-grid" | "nan"             Interpolator::interpolate
     Panic                                               slice index / usize underflow *)
From Coq Require Import ZArith List String Bool Arith.
From RC Require Import Base.Num Base.Res.
Import ListNotations.
Open Scope string_scope.
Open Scope nat_scope.

Module Interp.

Section Generic.
  Context {N : Num}.

  (* ---------- small helpers ---------- *)
  Fixpoint last_opt {A} (l : list A) : option A :=
    match l with
    | [] => None
    | [a] => Some a
    | _ :: r => last_opt r
    end.

  (* arr[i]: out of range is a Rust panic *)
  Definition idx {A} (l : list A) (i : nat) : res A :=
    match nth_error l i with Some a => Ok a | None => Panic "index out of bounds" end.

  (* iter().position(|v| v == p) *)
  Fixpoint position (l : list N) (p : N) : option nat :=
    match l with
    | [] => None
    | a :: r => if eqb a p then Some 0 else option_map S (position r p)
    end.

  (* windows(2).all(|w| w[0] < w[1]) *)
  Fixpoint increasing (l : list N) : bool :=
    match l with
    | a :: ((b :: _) as r) => ltb a b && increasing r
    | _ => true
    end.

  Definition is_nan (v : N) : bool := negb (eqb v v).

  (* f64::max / f64::min: a NaN operand is ignored *)
  Definition rmax (a b : N) : N := if eqb a a then (if ltb a b then b else a) else b.
  Definition rmin (a b : N) : N := if eqb a a then (if ltb b a then b else a) else b.

  (* ---------- utils.rs ---------- *)

  (* the `while low < high` loop of find_nearest_index; fuel = arr.len() always suffices
     (Proofs/Interp.v, [bs_loop_fuel]) *)
  Fixpoint bs_loop (fuel : nat) (arr : list N) (target : N) (low high : nat) : res nat :=
    if low <? high then
      match fuel with
      | 0 => OutOfFuel
      | S f =>
          let mid := low + (high - low) / 2 in
          do a <- idx arr mid;
          if leb target a (* arr[mid] >= target *)
          then bs_loop f arr target low mid
          else bs_loop f arr target (S mid) high
      end
    else Ok low.

  Definition find_nearest_index (arr : list N) (target : N) : res nat :=
    match last_opt arr with
    | None => Err "empty"
    | Some l =>
        if eqb target l then
          (if List.length arr <? 2 then Panic "usize underflow: len - 2" else Ok (List.length arr - 2))
        else
          do low <- bs_loop (List.length arr) arr target 0 (List.length arr - 1);
          if 0 <? low then
            (do a <- idx arr low;
             if leb target a then Ok (low - 1) else Ok low)
          else Ok low
    end.

  (* x[i] = x[i-1] + dx, i = 1 .. n-1 *)
  Fixpoint linspace_from (x dx : N) (k : nat) : list N :=
    match k with
    | 0 => []
    | S k' => x :: linspace_from (add x dx) dx k'
    end.
  Definition linspace (x0 xend : N) (n : nat) : res (list N) :=
    match n with
    | 0 => Panic "usize underflow: n - 1"   (* overflow-checks build; a wrapping build returns [] *)
    | S m => Ok (linspace_from x0 (div (sub xend x0) (of_Z (Z.of_nat m))) n)
    end.

  (* ---------- the blend  a * (1 - d) + b * d  ---------- *)
  Definition lerp (a b d : N) : N := add (mul a (sub one d)) (mul b d).
  (* (p - g[l]) / (g[l+1] - g[l]) *)
  Definition frac (g : list N) (l : nat) (p : N) : res N :=
    do gl <- idx g l;
    do gu <- idx g (S l);
    Ok (div (sub p gl) (sub gu gl)).
  (* the cell along one axis: lower index and fraction, in the order of the Rust statements *)
  Definition cell (g : list N) (p : N) : res (nat * N) :=
    do l <- find_nearest_index g p;
    do d <- frac g l p;
    Ok (l, d).

  Definition in_axis (g : list N) (p : N) : res bool :=
    do g0 <- idx g 0;
    match last_opt g with
    | None => Panic "unwrap on None"
    | Some gl => Ok (leb g0 p && leb p gl)
    end.

  (* ---------- Interp1D ---------- *)
  Record interp1 := { x1 : list N; f1 : list N }.

  Definition interp1_new (x f : list N) : res interp1 :=
    if List.length x =? 0 then Err "empty"
    else if negb (increasing x) then Err "unsorted"
    else if negb (List.length x =? List.length f) then Err "shape"
    else Ok {| x1 := x; f1 := f |}.

  Definition interp1_linear (m : interp1) (p : N) : res N :=
    match position (x1 m) p with
    | Some i => idx (f1 m) i
    | None =>
        do l <- find_nearest_index (x1 m) p;
        do d <- frac (x1 m) l p;
        do a <- idx (f1 m) l;
        do b <- idx (f1 m) (S l);
        Ok (lerp a b d)
    end.

  (* Interpolator::Interp1D(..).interpolate(point, Strategy::Linear) *)
  Definition interpolate1 (m : interp1) (pt : list N) : res N :=
    match pt with
    | [p] =>
        do inb <- in_axis (x1 m) p;
        if inb then interp1_linear m p else Err "out-of-grid"
    | _ => Err "point-len"
    end.

  (* ---------- Interp2D ---------- *)
  Record interp2 := { x2 : list N; y2 : list N; f2 : list (list N) }.

  Definition interp2_new (x y : list N) (f : list (list N)) : res interp2 :=
    if (List.length x =? 0) || (List.length y =? 0) then Err "empty"
    else if negb (increasing x && increasing y) then Err "unsorted"
    else if negb ((List.length x =? List.length f)
                  && forallb (fun r => List.length r =? List.length y) f) then Err "shape"
    else Ok {| x2 := x; y2 := y; f2 := f |}.

  Definition idx2 (f : list (list N)) (i j : nat) : res N := do r <- idx f i; idx r j.

  (* Interp2D::linear(&[px, py]) *)
  Definition interp2_linear (m : interp2) (px py : N) : res N :=
    do xl <- find_nearest_index (x2 m) px;
    do xd <- frac (x2 m) xl px;
    do yl <- find_nearest_index (y2 m) py;
    do yd <- frac (y2 m) yl py;
    do f00 <- idx2 (f2 m) xl yl;
    do f10 <- idx2 (f2 m) (S xl) yl;
    let c0 := lerp f00 f10 xd in
    do f01 <- idx2 (f2 m) xl (S yl);
    do f11 <- idx2 (f2 m) (S xl) (S yl);
    let c1 := lerp f01 f11 xd in
    Ok (lerp c0 c1 yd).

  Definition interpolate2 (m : interp2) (pt : list N) : res N :=
    match pt with
    | [px; py] =>
        do inx <- in_axis (x2 m) px;
        do iny <- (if inx then in_axis (y2 m) py else Ok false);
        if inx && iny then interp2_linear m px py else Err "out-of-grid"
    | _ => Err "point-len"
    end.

  (* ---------- Interp3D ---------- *)
  Record interp3 := { x3 : list N; y3 : list N; z3 : list N; f3 : list (list (list N)) }.

  Definition interp3_new (x y z : list N) (f : list (list (list N))) : res interp3 :=
    if (List.length x =? 0) || (List.length y =? 0) || (List.length z =? 0) then Err "empty"
    else if negb (increasing x && increasing y && increasing z) then Err "unsorted"
    else if negb ((List.length x =? List.length f)
                  && forallb (fun r => List.length r =? List.length y) f
                  && forallb (fun r => forallb (fun c => List.length c =? List.length z) r) f)
         then Err "shape"
    else Ok {| x3 := x; y3 := y; z3 := z; f3 := f |}.

  Definition idx3 (f : list (list (list N))) (i j k : nat) : res N :=
    do r <- idx f i; do c <- idx r j; idx c k.

  Definition interp3_linear (m : interp3) (px py pz : N) : res N :=
    do xl <- find_nearest_index (x3 m) px;
    do xd <- frac (x3 m) xl px;
    do yl <- find_nearest_index (y3 m) py;
    do yd <- frac (y3 m) yl py;
    do zl <- find_nearest_index (z3 m) pz;
    do zd <- frac (z3 m) zl pz;
    let f := f3 m in
    do f000 <- idx3 f xl yl zl;
    do f100 <- idx3 f (S xl) yl zl;
    let c00 := lerp f000 f100 xd in
    do f001 <- idx3 f xl yl (S zl);
    do f101 <- idx3 f (S xl) yl (S zl);
    let c01 := lerp f001 f101 xd in
    do f010 <- idx3 f xl (S yl) zl;
    do f110 <- idx3 f (S xl) (S yl) zl;
    let c10 := lerp f010 f110 xd in
    do f011 <- idx3 f xl (S yl) (S zl);
    do f111 <- idx3 f (S xl) (S yl) (S zl);
    let c11 := lerp f011 f111 xd in
    let c0 := lerp c00 c10 yd in
    let c1 := lerp c01 c11 yd in
    Ok (lerp c0 c1 zd).

  Definition interpolate3 (m : interp3) (pt : list N) : res N :=
    match pt with
    | [px; py; pz] =>
        do inx <- in_axis (x3 m) px;
        do iny <- (if inx then in_axis (y3 m) py else Ok false);
        do inz <- (if inx && iny then in_axis (z3 m) pz else Ok false);
        if inx && iny && inz then interp3_linear m px py pz else Err "out-of-grid"
    | _ => Err "point-len"
    end.

  (* ---------- InterpND ---------- *)
  (* an n-dimensional ndarray, row-major: nested lists of depth n (always rectangular in Rust) *)
  Fixpoint arr (n : nat) : Type :=
    match n with
    | 0 => N
    | S k => list (arr k)
    end.

  (* values.shape() (of a rectangular array: read along the first element of every level) *)
  Fixpoint shape (n : nat) : arr n -> list nat :=
    match n with
    | 0 => fun _ => []
    | S k => fun v => List.length v :: match v with [] => repeat 0 k | a :: _ => shape k a end
    end.
  Fixpoint rect (n : nat) : list nat -> arr n -> bool :=
    match n with
    | 0 => fun s _ => match s with [] => true | _ => false end
    | S k => fun s v => match s with
                        | [] => false
                        | h :: t => (List.length v =? h) && forallb (rect k t) v
                        end
    end.
  Definition total (s : list nat) : nat := fold_right Nat.mul 1 s.

  (* InterpND::ndim(): 0 when the array holds a single element *)
  Definition nd_ndim (n : nat) (v : arr n) : nat := if total (shape n v) =? 1 then 0 else n.

  (* run the checks of one `for i in 0..n` loop of validate *)
  Fixpoint for_axes (chk : nat -> res unit) (i n : nat) : res unit :=
    match n with
    | 0 => Ok tt
    | S k => do _ <- chk i; for_axes chk (S i) k
    end.

  Definition nd_validate (n : nat) (grid : list (list N)) (v : arr n) : res unit :=
    let nn := nd_ndim n v in
    let sh := shape n v in
    do _ <- for_axes (fun i => do g <- idx grid i;
                               if List.length g =? 0 then Err "empty" else Ok tt) 0 nn;
    do _ <- for_axes (fun i => do g <- idx grid i;
                               if increasing g then Ok tt else Err "unsorted") 0 nn;
    do _ <- for_axes (fun i => do g <- idx grid i;
                               do s <- idx sh i;
                               if List.length g =? s then Ok tt else Err "shape") 0 nn;
    do g0 <- idx grid 0;
    let grid_len := if List.length g0 =? 0 then 0 else List.length grid in
    if grid_len =? nn then Ok tt else Err "grid-dim".

  Record interpn := { dimn : nat; gridn : list (list N); valn : arr dimn }.

  Definition nd_new (n : nat) (grid : list (list N)) (v : arr n) : res interpn :=
    if negb (rect n (shape n v) v) then Err "shape"   (* not an ndarray: unreachable from Rust *)
    else do _ <- nd_validate n grid v;
         Ok {| dimn := n; gridn := grid; valn := v |}.

  (* what `linear` decides per axis *)
  Inductive sel := Hit (pos : nat) | Cell (lower : nat) (d : N).

  (* first loop of `linear`: axes on which the point coincides with a grid value are indexed away *)
  Fixpoint nd_hits (grid : list (list N)) (pt : list N) : res (list (option nat)) :=
    match grid with
    | [] => Ok []
    | g :: gr =>
        do r <- nd_hits gr (tl pt);
        match g, pt with
        | [], _ => Ok (None :: r)            (* the closure reading point[dim] never runs *)
        | _ :: _, p :: _ => Ok (position g p :: r)
        | _ :: _, [] => Panic "index out of bounds: point[dim]"
        end
    end.
  (* product of the lengths of the axes that were not indexed away = values_view.len() *)
  Fixpoint rem_total (hits : list (option nat)) (sh : list nat) : nat :=
    match hits, sh with
    | Some _ :: hr, _ :: sr => rem_total hr sr
    | None :: hr, s :: sr => s * rem_total hr sr
    | _, _ => 1
    end.
  (* second loop: lower index and fraction for every remaining axis, in axis order *)
  Fixpoint nd_sels (grid : list (list N)) (pt : list N) (hits : list (option nat)) : res (list sel) :=
    match grid, hits with
    | g :: gr, h :: hr =>
        match h with
        | Some pos => do r <- nd_sels gr (tl pt) hr; Ok (Hit pos :: r)
        | None =>
            match pt with
            | [] => Panic "index out of bounds: point[dim]"
            | p :: _ => do c <- cell g p; do r <- nd_sels gr (tl pt) hr; Ok (Cell (fst c) (snd c) :: r)
            end
        end
    | _, _ => Ok []
    end.

  (* values_view.slice_each_axis(lower ..= lower + 1): the block of surrounding values; an axis that
     was indexed away is kept here as an axis of length 1 *)
  Fixpoint gather (n : nat) : list sel -> arr n -> res (arr n) :=
    match n with
    | 0 => fun _ v => Ok v
    | S k => fun sels v =>
        match sels with
        | [] => Panic "missing axis"
        | Hit p :: r => do a <- idx v p; do a' <- gather k r a; Ok [a']
        | Cell l _ :: r =>
            do a <- idx v l; do b <- idx v (S l);
            do a' <- gather k r a; do b' <- gather k r b; Ok [a'; b']
        end
    end.

  Fixpoint any_nan (n : nat) : arr n -> bool :=
    match n with
    | 0 => fun v => is_nan v
    | S k => fun v => existsb (any_nan k) v
    end.

  (* intermediate_arr[rest] = interp_vals[0, rest] * (1 - diff) + interp_vals[1, rest] * diff *)
  Fixpoint blend (n : nat) (d : N) : arr n -> arr n -> arr n :=
    match n with
    | 0 => fun a b => lerp a b d
    | S k => fun a b => map (fun ab => blend k d (fst ab) (snd ab)) (combine a b)
    end.

  (* the outer loop over interp_diffs: the first remaining axis is interpolated away each round *)
  Fixpoint reduce (n : nat) : list sel -> arr n -> res N :=
    match n with
    | 0 => fun _ v => Ok v
    | S k => fun sels v =>
        match sels, v with
        | Hit _ :: r, [a] => reduce k r a
        | Cell _ d :: r, [a; b] => reduce k r (blend k d a b)
        | _, _ => Panic "shape"
        end
    end.

  Definition all_hit (sels : list sel) : bool :=
    forallb (fun s => match s with Hit _ => true | Cell _ _ => false end) sels.

  (* InterpND::linear *)
  Definition nd_linear (m : interpn) (pt : list N) : res N :=
    let n := dimn m in
    let sh := shape n (valn m) in
    do _ <- (if List.length (gridn m) <? n then Panic "index out of bounds: grid[dim]" else Ok tt);
    do hits <- nd_hits (firstn n (gridn m)) pt;
    (* values_view.len() == 1: every axis is pinned (remaining axes of length 1 included) *)
    let hits := if rem_total hits sh =? 1
                then map (fun h => match h with Some p => Some p | None => Some 0 end) hits
                else hits in
    do sels <- nd_sels (firstn n (gridn m)) pt hits;
    do block <- gather n sels (valn m);
    if negb (all_hit sels) && any_nan n block then Err "nan"
    else reduce n sels block.

  Fixpoint in_axes (grid : list (list N)) (pt : list N) (k : nat) : res bool :=
    match k with
    | 0 => Ok true
    | S k' =>
        match grid, pt with
        | g :: gr, p :: pr =>
            do b <- in_axis g p;
            if b then in_axes gr pr k' else Ok false
        | _, _ => Panic "index out of bounds"
        end
    end.

  (* Interpolator::InterpND(..).interpolate(point, Strategy::Linear) *)
  Definition interpolaten (m : interpn) (pt : list N) : res N :=
    let nn := nd_ndim (dimn m) (valn m) in
    if negb (List.length pt =? nn) then Err "point-len"
    else do inb <- in_axes (gridn m) pt nn;
         if inb then nd_linear m pt else Err "out-of-grid".

End Generic.

(* ---------- InterpolationSpeedGradeModel ---------- *)
Section SpeedGrade.
  Context {N : Num}.
  (* the underlying prediction model, as `new` uses it: energy for a unit distance at (speed, grade)
     given in the model's own units *)
  Variable underlying : N -> N -> res N.
  (* speed_unit.convert(.., &self.speed_unit) / grade_unit.convert(.., &self.grade_unit) for the
     units of the query at hand *)
  Variable conv_speed conv_grade : N -> N.

  Fixpoint mapM {A B} (f : A -> res B) (l : list A) : res (list B) :=
    match l with
    | [] => Ok []
    | a :: r => do b <- f a; do br <- mapM f r; Ok (b :: br)
    end.

  Definition sg_table (xs ys : list N) : res (list (list N)) :=
    mapM (fun s => mapM (fun g => underlying s g) ys) xs.

  Definition sg_new (s_lo s_hi : N) (s_bins : nat) (g_lo g_hi : N) (g_bins : nat) : res interp2 :=
    do xs <- linspace s_lo s_hi s_bins;
    do ys <- linspace g_lo g_hi g_bins;
    do values <- sg_table xs ys;
    interp2_new xs ys values.

  Definition clamp (lo hi v : N) : N := rmin (rmax v lo) hi.

  Definition sg_clamp (m : interp2) (speed grade : N) : res (N * N) :=
    match hd_error (x2 m), last_opt (x2 m), hd_error (y2 m), last_opt (y2 m) with
    | Some min_s, Some max_s, Some min_g, Some max_g =>
        Ok (clamp min_s max_s speed, clamp min_g max_g grade)
    | _, _, _, _ => Err "empty"
    end.

  (* predict on already converted inputs *)
  Definition sg_predict_conv (m : interp2) (sv gv : N) : res N :=
    do c <- sg_clamp m sv gv;
    interpolate2 m [fst c; snd c].

  Definition sg_predict (m : interp2) (speed grade : N) : res N :=
    sg_predict_conv m (conv_speed speed) (conv_grade grade).
End SpeedGrade.

End Interp.
