(* Runner of the C14 correspondence streams.
   M lines: the model instantiated with FN (binary64), printed bit-exactly.
   S lines: a boolean checker over QN (exact rationals) applied to the IMPLEMENTATION's outputs, which the
            harness embeds in the term; when the checker accepts, the S line re-prints those outputs in the
            format of the I line (so I = S), otherwise it prints REJECT and the first failing query.
   The checkers are [Spec.*] below; Proofs/InterpSpec.v proves them sound: a [true] verdict implies the statements
   of Props/C14.v (section 7 there), up to the tolerance [tolQ] that absorbs binary64 rounding. *)
From Coq Require Import ZArith QArith Qminmax Qabs List String Bool Floats Arith.
From RC Require Import Base.Show Base.Res Base.Num Model.Interp.
Import ListNotations.
Open Scope string_scope.
Open Scope nat_scope.

Module InterpRun.
Import Interp.

(* ---------- exact value of a finite double ---------- *)
Definition F2Q (f : float) : Q :=
  match Prim2SF f with
  | S754_finite s m e =>
      let z := if s then Zneg m else Zpos m in
      match e with
      | Z0 => inject_Z z
      | Zpos p => inject_Z (z * 2 ^ Zpos p)
      | Zneg p => z # (2 ^ p)%positive
      end
  | _ => 0%Q
  end.
Definition finiteb (f : float) : bool :=
  match Prim2SF f with S754_finite _ _ _ | S754_zero _ => true | _ => false end.

Fixpoint arrQ (n : nat) : @arr FN n -> @arr QN n :=
  match n with
  | 0 => fun v => F2Q v
  | S k => fun v => map (arrQ k) v
  end.
Fixpoint arr_finite (n : nat) : @arr FN n -> bool :=
  match n with
  | 0 => fun v => finiteb v
  | S k => fun v => forallb (arr_finite k) v
  end.
Definition resQ (r : res float) : res Q := rmap F2Q r.

(* ---------- specification-side checkers (QN) ---------- *)
Module Spec.
  Fixpoint flat (n : nat) : @arr QN n -> list Q :=
    match n with
    | 0 => fun v => [v]
    | S k => fun v => flat_map (flat k) v
    end.
  Definition lmin (l : list Q) : Q := match l with [] => 0%Q | a :: r => fold_left Qmin r a end.
  Definition lmax (l : list Q) : Q := match l with [] => 0%Q | a :: r => fold_left Qmax r a end.

  (* the block of grid values surrounding p, as the QN model selects it *)
  Definition block (n : nat) (grid : list (list Q)) (v : @arr QN n) (p : list Q) : res (list Q * bool) :=
    do hits <- nd_hits (N:=QN) (firstn n grid) p;
    do sels <- nd_sels (N:=QN) (firstn n grid) p hits;
    do b <- gather (N:=QN) n sels v;
    Ok (flat n b, all_hit (N:=QN) sels).

  (* lo - tol <= out <= hi + tol over the surrounding values; exact (tol ignored) at a grid point *)
  Definition convexnb (tol : Q) (n : nat) (grid : list (list Q)) (v : @arr QN n) (p : list Q) (out : Q) : bool :=
    match block n grid v p with
    | Ok (vals, onpt) =>
        let lo := lmin vals in let hi := lmax vals in
        let t := if onpt then 0%Q else (tol * (1 + Qabs lo + Qabs hi))%Q in
        Qle_bool (lo - t) out && Qle_bool out (hi + t)
    | _ => false
    end.

  Definition insideb (n : nat) (grid : list (list Q)) (p : list Q) : bool :=
    match in_axes (N:=QN) grid p n with Ok b => b | _ => false end.

  (* verdict on the result of Interpolator::interpolate at p *)
  Definition check_interpolate (tol : Q) (n : nat) (grid : list (list Q)) (v : @arr QN n)
             (p : list Q) (r : res Q) : bool :=
    if negb (List.length p =? n) then match r with Err _ => true | _ => false end
    else if insideb n grid p then
      match r with Ok out => convexnb tol n grid v p out | _ => false end
    else match r with Err _ => true | _ => false end.

  (* exact value: the table and the point are exact rationals, so the implementation's value is compared with the
     exact multilinear interpolant (the QN model, about which Props/C14.v proves every clause of the property);
     this decides multilinear exactness, border agreement / continuity and agreement between the interpolators on
     EVERY case, in particular on cells whose opposite corners coincide, where the convexity test is blind *)
  Definition exactnb (tol : Q) (n : nat) (grid : list (list Q)) (v : @arr QN n) (p : list Q) (out : Q) : bool :=
    match interpolaten (N:=QN) (@Build_interpn QN n grid v) p, block n grid v p with
    | Ok q, Ok (vals, _) => Qle_bool (Qabs (out - q)) (tol * (1 + Qabs (lmin vals) + Qabs (lmax vals)))
    | _, _ => false
    end.
  Definition check_exact (tol : Q) (n : nat) (grid : list (list Q)) (v : @arr QN n) (p : list Q) (r : res Q) : bool :=
    if negb (List.length p =? n) then true
    else if negb (insideb n grid p) then true
    else match r with Ok out => exactnb tol n grid v p out | _ => false end.

  (* the multi-affine test function of the harness:  c + prod_i (b_i + a_i x_i)  (ab = [(a_1, b_1); ...]) *)
  Fixpoint prodlin (ab : list (Q * Q)) (p : list Q) : Q :=
    match ab, p with
    | (a, b) :: r, x :: pr => ((b + a * x) * prodlin r pr)%Q
    | _, _ => 1%Q
    end.
  Definition mlinF (c : Q) (ab : list (Q * Q)) (p : list Q) : Q := (c + prodlin ab p)%Q.
  (* a table sampled from mlinF must be reproduced: |out - F(p)| <= tol * (1 + |min| + |max| of the surrounding values) *)
  Definition check_mlin (tol : Q) (n : nat) (grid : list (list Q)) (v : @arr QN n) (c : Q) (ab : list (Q * Q))
             (p : list Q) (r : res Q) : bool :=
    if negb (List.length p =? n) then true
    else if negb (insideb n grid p) then true
    else match r, block n grid v p with
         | Ok out, Ok (vals, _) =>
             Qle_bool (Qabs (out - mlinF c ab p)) (tol * (1 + Qabs (lmin vals) + Qabs (lmax vals)))
         | _, _ => false
         end.

  Definition closeb (tol : Q) (a b : res Q) : bool :=
    match a, b with
    | Ok x, Ok y => Qle_bool (Qabs (x - y)) (tol * (1 + Qabs x))
    | Err _, Err _ => true
    | _, _ => false
    end.

  (* the axis `new` builds: [bins] strictly increasing points from lo to hi (hi up to accumulated rounding) *)
  Definition check_axis (tol lo hi : Q) (bins : nat) (xs : list Q) : bool :=
    (List.length xs =? bins) && increasing (N:=QN) xs &&
    match xs, last_opt xs with
    | x0 :: _, Some xl => Qeq_bool x0 lo && Qle_bool (Qabs (xl - hi)) (tol * (1 + Qabs lo + Qabs hi))
    | _, _ => false
    end.

  (* speed/grade model: never Err, value at the clamped point within the 4 surrounding underlying values *)
  Definition qclamp (lo hi v : Q) : Q := Qmin (Qmax v lo) hi.
  Definition check_sg (tol : Q) (xs ys : list Q) (tab : list (list Q)) (sv gv : Q) (r : res Q) : bool :=
    match xs, last_opt xs, ys, last_opt ys, r with
    | x0 :: _, Some xl, y0 :: _, Some yl, Ok out =>
        convexnb tol 2 [xs; ys] tab [qclamp x0 xl sv; qclamp y0 yl gv] out
    | _, _, _, _, _ => false
    end.
  Definition check_sg_exact (tol : Q) (xs ys : list Q) (tab : list (list Q)) (sv gv : Q) (r : res Q) : bool :=
    match xs, last_opt xs, ys, last_opt ys, r with
    | x0 :: _, Some xl, y0 :: _, Some yl, Ok out =>
        exactnb tol 2 [xs; ys] tab [qclamp x0 xl sv; qclamp y0 yl gv] out
    | _, _, _, _, _ => false
    end.
End Spec.

Definition tolQ : Q := 1 # 1000000000.

(* ---------- printing ---------- *)
Definition show_rf (r : res float) : string := show_res show_float r.
Definition show_two (p : res float * res float) : string := show_rf (fst p) ++ "/" ++ show_rf (snd p).
Definition show_pts (l : list (res float * res float)) : string := join ";" (map show_two l).
Definition show_err {A} (r : res A) : string := show_res (fun _ => "") r.

(* per query point: Interpolator::interpolate / direct .linear() *)
Definition run1 (x f : list float) (pts : list (list float)) : string :=
  match interp1_new (N:=FN) x f with
  | Ok m => show_pts (map (fun p => (interpolate1 m p,
                                     match p with [a] => interp1_linear m a | _ => Err "skip" end)) pts)
  | e => "new=" ++ show_err e
  end.
Definition run2 (x y : list float) (f : list (list float)) (pts : list (list float)) : string :=
  match interp2_new (N:=FN) x y f with
  | Ok m => show_pts (map (fun p => (interpolate2 m p,
                                     match p with [a; b] => interp2_linear m a b | _ => Err "skip" end)) pts)
  | e => "new=" ++ show_err e
  end.
Definition run3 (x y z : list float) (f : list (list (list float))) (pts : list (list float)) : string :=
  match interp3_new (N:=FN) x y z f with
  | Ok m => show_pts (map (fun p => (interpolate3 m p,
                                     match p with [a; b; c] => interp3_linear m a b c | _ => Err "skip" end)) pts)
  | e => "new=" ++ show_err e
  end.
Definition runn (n : nat) (grid : list (list float)) (v : @arr FN n) (pts : list (list float)) : string :=
  match nd_new (N:=FN) n grid v with
  | Ok m => show_pts (map (fun p => (interpolaten m p,
                                     if List.length p =? n then nd_linear m p else Err "skip")) pts)
  | e => "new=" ++ show_err e
  end.

Definition line_g1 id x f pts := line "M" id (run1 x f pts ++ " | " ++ runn 1 [x] f pts).
Definition line_g2 id x y f pts := line "M" id (run2 x y f pts ++ " | " ++ runn 2 [x; y] f pts).
Definition line_g3 id x y z f pts := line "M" id (run3 x y z f pts ++ " | " ++ runn 3 [x; y; z] f pts).
Definition line_gn id n grid v pts := line "M" id ("- | " ++ runn n grid v pts).

(* S line of the generic stream.  sp / nd: the implementation's (interpolate, linear) results per query for the
   specialised interpolator (empty when n > 3) and for InterpND. *)
Fixpoint first_bad {A} (f : A -> bool) (l : list A) (i : nat) : option nat :=
  match l with
  | [] => None
  | a :: r => if f a then first_bad f r (S i) else Some i
  end.

Definition spec_generic (n : nat) (grid : list (list float)) (v : @arr FN n) (pts : list (list float))
           (ml : option (float * list (float * float)))
           (sp nd : list (res float * res float)) : string :=
  if negb (forallb (forallb finiteb) grid && arr_finite n v && forallb (forallb finiteb) pts
           && forallb (fun g => 2 <=? List.length g) grid) then "unspecified"
  else
    let gq := map (map F2Q) grid in
    let vq := arrQ n v in
    let chk1 (pr : list float * (res float * res float)) :=
        Spec.check_interpolate tolQ n gq vq (map F2Q (fst pr)) (resQ (fst (snd pr))) in
    let agree (pr : (res float * res float) * (res float * res float)) :=
        Spec.closeb tolQ (resQ (fst (fst pr))) (resQ (fst (snd pr))) in
    let chkx (pr : list float * (res float * res float)) :=
        Spec.check_exact tolQ n gq vq (map F2Q (fst pr)) (resQ (fst (snd pr))) in
    let chkm (pr : list float * (res float * res float)) :=
        match ml with
        | None => true
        | Some (c, ab) =>
            Spec.check_mlin tolQ n gq vq (F2Q c) (map (fun x => (F2Q (fst x), F2Q (snd x))) ab)
                            (map F2Q (fst pr)) (resQ (fst (snd pr)))
        end in
    match first_bad chk1 (combine pts nd) 0 with
    | Some i => "REJECT nd query " ++ show_nat i
    | None =>
    match first_bad chk1 (combine pts sp) 0 with
    | Some i => "REJECT specialised query " ++ show_nat i
    | None =>
    match first_bad chkx (combine pts nd) 0 with
    | Some i => "REJECT nd differs from the exact multilinear interpolant at query " ++ show_nat i
    | None =>
    match first_bad chkx (combine pts sp) 0 with
    | Some i => "REJECT specialised differs from the exact multilinear interpolant at query " ++ show_nat i
    | None =>
    match first_bad chkm (combine pts nd) 0 with
    | Some i => "REJECT nd not exact on a multilinear table at query " ++ show_nat i
    | None =>
    match first_bad chkm (combine pts sp) 0 with
    | Some i => "REJECT specialised not exact on a multilinear table at query " ++ show_nat i
    | None =>
    match first_bad agree (combine sp nd) 0 with
    | Some i => "REJECT nd differs from specialised at query " ++ show_nat i
    | None => (match sp with [] => "-" | _ => show_pts sp end) ++ " | " ++ show_pts nd
    end end end end end end end.
Definition line_sg id n grid v pts ml sp nd := line "S" id (spec_generic n grid v pts ml sp nd).

(* ---------- speed / grade stream ---------- *)
(* finite function given by samples; a missing sample is visible as an Err of its own class *)
Fixpoint lookup2 (tab : list ((float * float) * res float)) (s g : float) : res float :=
  match tab with
  | [] => Err "no-sample"
  | ((s', g'), r) :: t => if PrimFloat.eqb s s' && PrimFloat.eqb g g' then r else lookup2 t s g
  end.
Fixpoint lookup1 (tab : list (float * float)) (x : float) : float :=
  match tab with
  | [] => PrimFloat.nan
  | (a, b) :: t => if PrimFloat.eqb x a || (negb (PrimFloat.eqb x x) && negb (PrimFloat.eqb a a)) then b
                   else lookup1 t x
  end.

(* one query: raw speed, raw grade *)
Definition run_sg (samples : list ((float * float) * res float)) (cs cg : list (float * float))
           (s_lo s_hi : float) (s_bins : nat) (g_lo g_hi : float) (g_bins : nat)
           (qs : list (float * float)) : string :=
  match sg_new (N:=FN) (lookup2 samples) s_lo s_hi s_bins g_lo g_hi g_bins with
  | Ok m =>
      "x=" ++ show_list show_float (x2 m) ++ " y=" ++ show_list show_float (y2 m) ++ " "
      (* the k-th query is converted with the k-th entries of cs / cg (the same raw number may come in different
         units within one sequence of calls); predict is stateless: the k-th answer is the answer of that query alone *)
      ++ join ";" (map (fun t : (float * float) * ((float * float) * (float * float)) =>
                          let q := fst t in
                          show_rf (sg_predict (N:=FN) (lookup1 [fst (snd t)]) (lookup1 [snd (snd t)]) m (fst q) (snd q)))
                       (combine qs (combine cs cg)))
  | e => "new=" ++ show_err e
  end.
Definition line_sgm id samples cs cg s_lo s_hi s_bins g_lo g_hi g_bins qs :=
  line "M" id (run_sg samples cs cg s_lo s_hi s_bins g_lo g_hi g_bins qs).

(* S line: xs, ys = the grid the implementation built (utils::linspace), tab = the underlying model sampled by the
   harness on that grid, cq = converted queries, outs = the implementation's predictions *)
Definition spec_sg (s_lo s_hi : float) (s_bins : nat) (g_lo g_hi : float) (g_bins : nat)
           (xs ys : list float) (tab : list (list float)) (cq : list (float * float))
           (outs : list (res float)) : string :=
  if negb (forallb finiteb xs && forallb finiteb ys && forallb (forallb finiteb) tab
           && forallb (fun q => finiteb (fst q) && finiteb (snd q)) cq
           && (2 <=? List.length xs) && (2 <=? List.length ys)) then "unspecified"
  else
    let xq := map F2Q xs in let yq := map F2Q ys in let tq := map (map F2Q) tab in
    let chk (pr : (float * float) * res float) :=
        Spec.check_sg tolQ xq yq tq (F2Q (fst (fst pr))) (F2Q (snd (fst pr))) (resQ (snd pr)) in
    if negb (finiteb s_lo && finiteb s_hi && finiteb g_lo && finiteb g_hi) then "unspecified"
    else if negb (Spec.check_axis tolQ (F2Q s_lo) (F2Q s_hi) s_bins xq) then "REJECT speed axis"
    else if negb (Spec.check_axis tolQ (F2Q g_lo) (F2Q g_hi) g_bins yq) then "REJECT grade axis"
    else
    let chkx (pr : (float * float) * res float) :=
        Spec.check_sg_exact tolQ xq yq tq (F2Q (fst (fst pr))) (F2Q (snd (fst pr))) (resQ (snd pr)) in
    match first_bad chk (combine cq outs) 0 with
    | Some i => "REJECT query " ++ show_nat i
    | None =>
    match first_bad chkx (combine cq outs) 0 with
    | Some i => "REJECT differs from the exact bilinear interpolant at query " ++ show_nat i
    | None => "x=" ++ show_list show_float xs ++ " y=" ++ show_list show_float ys ++ " "
              ++ join ";" (map show_rf outs)
    end end.
Definition line_sgs id s_lo s_hi s_bins g_lo g_hi g_bins xs ys tab cq outs :=
  line "S" id (spec_sg s_lo s_hi s_bins g_lo g_hi g_bins xs ys tab cq outs).

End InterpRun.
