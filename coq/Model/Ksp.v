(* Executable model of the k-shortest-paths layer of routee-compass-core (definitions only; proofs live in
   Proofs/Ksp*.v):
     algorithm/search/ksp/ksp_termination_criteria.rs    KspTerminationCriteria::terminate_search
     algorithm/search/ksp/ksp_query.rs                   KspQuery::new            (k from the query JSON or the config)
     algorithm/search/util/route_similarity_function.rs  rank_similarity / is_similar / test_similarity, cos_similarity
     algorithm/search/a_star/bidirectional_ops.rs        reorient_reverse_route, route_contains_loop
     algorithm/search/ksp/single_via_paths_algorithm.rs  run, test_id_similarity
     algorithm/search/ksp/yens_algorithm.rs              run, same_path          (FAITHFUL: bugs of D-YEN included)
     algorithm/search/util/edge_cut_frontier_model.rs    through the Section variable [spur_search]
     algorithm/search/search_algorithm.rs                KspSingleVia / Yens arms of run_vertex_oriented

   What the KSP drivers take from their environment is a Section variable, so theorems quantify over it:
     search d s t        underlying.run_vertex_oriented(s, Some(t), query, d, si)  (Dijkstra / A-star: Search.v)
     spur_search cut s t the same forward search on a SearchInstance whose frontier model is wrapped in
                         EdgeCutFrontierModel{cut_edges = cut}
     traverse_fwd        EdgeTraversal::forward_traversal
     sim a b             RouteSimilarityFunction::test_similarity on the edge-id sequences of a and b
     pick                InternalPriorityQueue::pop on the intersection queue.  The queue is filled by iterating a
                         std HashMap, whose order is unspecified, and the priority_queue crate does not specify
                         which of several entries of equal priority is popped: [pick] is ANY function that removes
                         an entry of minimal priority.  This is the only nondeterminism of the single-via driver.
   Rust failure modes are values of Base/Res.v; the `while` of Yen's algorithm has no bound in the code and
   runs on explicit fuel (OutOfFuel = the implementation does not return). *)
From Coq Require Import List Arith Bool String ZArith QArith Floats.
From stdpp Require Import gmap.
From RC Require Import Base.Res Base.Num Model.Search.
Import ListNotations.
Local Open Scope string_scope.
Local Open Scope nat_scope.

Module Ksp.
Import Search.

(* ------------------------------------------------------------------ KspTerminationCriteria *)
Inductive kterm := KExact | KMaxIteration (max : nat) | KFactor (factor : nat).

(* terminate_search(k, solution_size); u64/usize overflow of factor * size is outside the model *)
Definition terminate_search (t : kterm) (k size : nat) : bool :=
  match t with
  | KExact => Nat.eqb size k
  | KMaxIteration max => Nat.eqb size k && Nat.leb k max
  | KFactor f => Nat.eqb size k && Nat.leb k (f * size)
  end.

(* KspQuery::new: the query's "k" (absent / present but not a u64 / a u64) overrides the configured k *)
Inductive query_k := QKAbsent | QKBad | QKNat (k : nat).
Definition ksp_query_k (k_default : nat) (qk : query_k) : res nat :=
  match qk with
  | QKAbsent => Ok k_default
  | QKBad => Err "build: user supplied k value is not an integer"
  | QKNat k => Ok k
  end.

(* ------------------------------------------------------------------ RouteSimilarityFunction *)
Inductive simfn (T : Type) := SAcceptAll | SEdgeIdCosine (thr : T) | SDistanceCosine (thr : T).
Arguments SAcceptAll {T}.
Arguments SEdgeIdCosine {T} thr.
Arguments SDistanceCosine {T} thr.

Definition memn (x : nat) (l : list nat) : bool := existsb (Nat.eqb x) l.
(* key set of a HashMap collected from the route (first occurrence kept; the iteration order of the
   real map is unspecified, see [cos_parts]) *)
Fixpoint dedup (l : list nat) : list nat :=
  match l with
  | [] => []
  | x :: r => x :: List.filter (fun y => negb (Nat.eqb y x)) (dedup r)
  end.

Section Similarity.
  Variable N : Num.
  (* [cos_ge numer da db thr]  decides  numer / (sqrt da * sqrt db) >= thr  (binary64: literally, NaN compares
     false; exact rationals: by comparing squares, see [cos_ge_Q]) *)
  Variable cos_ge : N -> N -> N -> N -> bool.

  (* a.iter().map(|e| dist_fn(&e.edge_id).map(|d| (e.edge_id, d))).collect::<Result<HashMap<_,_>,_>>() *)
  Fixpoint weights (dist : nat -> res N) (r : list nat) : res (list (nat * N)) :=
    match r with
    | [] => Ok []
    | e :: r' => do d <- dist e; do m <- weights dist r'; Ok ((e, d) :: m)
    end.
  Definition wget (m : list (nat * N)) (e : nat) : N :=
    match find (fun p => Nat.eqb (fst p) e) m with Some p => snd p | None => zero end.   (* unwrap_or_default *)
  Definition wsum (f : nat -> N) (keys : list nat) : N := fold_left (fun acc e => add acc (f e)) keys zero.

  (* cos_similarity: (numer, denom_a, denom_b).  The sums run over HashMap/HashSet iterators in the code (order
     unspecified); the model sums in route order.  The two agree whenever the partial sums are exact, which the
     correspondence stream guarantees by construction (unit weights or dyadic distances). *)
  Definition cos_parts (dist : nat -> res N) (a b : list nat) : res (N * N * N) :=
    do ma <- weights dist a;
    do mb <- weights dist b;
    let ka := dedup a in
    let kb := dedup b in
    let un := (ka ++ List.filter (fun e => negb (memn e ka)) kb)%list in
    Ok (wsum (fun e => mul (wget ma e) (wget mb e)) un,
        wsum (fun e => mul (wget ma e) (wget ma e)) ka,
        wsum (fun e => mul (wget mb e) (wget mb e)) kb).

  (* test_similarity = is_similar (rank_similarity a b).  AcceptAll: rank 0.0, never similar (as of /repo a6c3014) *)
  Definition test_similarity (f : simfn N) (edge_dist : nat -> res N) (a b : list nat) : res bool :=
    match f with
    | SAcceptAll => Ok false
    | SEdgeIdCosine thr =>
        do p <- cos_parts (fun _ => Ok one) a b; let '(n, da, db) := p in Ok (cos_ge n da db thr)
    | SDistanceCosine thr =>
        do p <- cos_parts edge_dist a b; let '(n, da, db) := p in Ok (cos_ge n da db thr)
    end.
End Similarity.

(* the comparison as the code writes it, for any numeric record that has a square root:
   cos_sim = numer / (denom_a.sqrt() * denom_b.sqrt());  similarity >= threshold.
   Props/GenSimilarity.v proves this text equal to the definitions regenerated from the Rust source. *)
Definition cos_ge_num (N : Num) (sqrt : N -> N) (n da db thr : N) : bool :=
  leb thr (div n (mul (sqrt da) (sqrt db))).
(* binary64: the instance that runs next to the code (NaN compares false) *)
Definition cos_ge_F (n da db thr : float) : bool := cos_ge_num FN PrimFloat.sqrt n da db thr.

(* exact rationals: the same comparison over the reals, decided on squares (da, db are sums of squares).
   da * db = 0 is the 0/0 case of the code (NaN: never similar). *)
Definition cos_ge_Q (n da db thr : Q) : bool :=
  let p := (da * db)%Q in
  if Qeq_bool p 0 then false
  else if Qle_bool thr 0
       then Qle_bool 0 n || Qle_bool (n * n) (thr * thr * p)
       else Qle_bool 0 n && Qle_bool (thr * thr * p) (n * n).

(* ------------------------------------------------------------------ a concrete pop *)
(* removes the first entry of minimal priority (the same choice as Search.pq_min).  Used to EXECUTE the model;
   the theorems hold for every pop that removes one entry, and the correspondence stream compares the route list
   only when no two queue entries have equal priority, where every minimal pop is this one. *)
Section Pop.
  Context {C : Type}.
  Variable clt : C -> C -> bool.
  Fixpoint pop_min (q : list (nat * C)) : option (nat * C * list (nat * C)) :=
    match q with
    | [] => None
    | (v, c) :: r =>
        match pop_min r with
        | None => Some (v, c, [])
        | Some (v', c', r') => if clt c' c then Some (v', c', (v, c) :: r') else Some (v, c, r)
        end
    end.
End Pop.

(* ------------------------------------------------------------------ the two drivers *)
Section KSP.
  Context {C St : Type}.
  Variable clt : C -> C -> bool.
  Variable cadd : C -> C -> C.
  Variable czero : C.
  Variable cfloor : C -> C.        (* Cost::enforce_strictly_positive inside EdgeTraversal::total_cost *)
  Variable g : graph.
  Variable traverse_fwd : nat -> option nat -> St -> res (C * C * St).
  Variable init_state : res St.
  Variable search : dir -> nat -> nat -> res (sresult C St).
  Variable spur_search : list nat -> nat -> nat -> res (sresult C St).
  Variable sim : list nat -> list nat -> res bool.
  Variable pick : list (nat * C) -> option (nat * C * list (nat * C)).

  Notation etrav := (etrav C St).
  Notation branch := (branch C St).
  Notation route := (list etrav).

  Definition ids (r : route) : list nat := map et_edge r.
  Fixpoint same_ids (a b : list nat) : bool :=
    match a, b with
    | [], [] => true
    | x :: a', y :: b' => Nat.eqb x y && same_ids a' b'
    | _, _ => false
    end.
  (* single_via_paths_algorithm::test_id_similarity, yens_algorithm::same_path *)
  Definition test_id_similarity (a b : route) : bool := same_ids (ids a) (ids b).

  (* bidirectional_ops::route_contains_loop: fewer distinct edge source vertices than edges *)
  Fixpoint src_vertices (r : list nat) : res (list nat) :=
    match r with
    | [] => Ok []
    | e :: r' =>
        match get_edge g e with
        | None => Err "graph: unknown edge"
        | Some ed => do l <- src_vertices r'; Ok (esrc ed :: l)
        end
    end.
  Definition route_contains_loop (r : list nat) : res bool :=
    do srcs <- src_vertices r; Ok (Nat.ltb (List.length (dedup srcs)) (List.length srcs)).

  (* bidirectional_ops::reorient_reverse_route: the reverse half (listed from the destination outwards) is walked
     in forward order and re-traversed, starting from the final state and last edge of the forward half *)
  Fixpoint retraverse (es : list nat) (prev : option nat) (acc : St) : res route :=
    match es with
    | [] => Ok []
    | e :: r =>
        do x <- traverse_fwd e prev acc;
        let '(ac, tc, st') := x in
        do rest <- retraverse r (Some e) st';
        Ok (mkEt e ac tc st' :: rest)
    end.
  Definition reorient_reverse_route (fwd rev_route : route) : res route :=
    do start <- match last fwd with
                | None => do i <- init_state; Ok (None, i)
                | Some le => Ok (Some (et_edge le), et_state le)
                end;
    let '(final_edge, acc) := start in
    retraverse (rev (ids rev_route)) final_edge acc.

  (* ---------------- single-via paths ---------------- *)
  (* the intersection queue: forward-tree entries whose parent (terminal vertex) and whose own vertex are
     both keys of the reverse tree; priority = cost of the forward branch + cost of the reverse branch stored
     under the forward branch's TERMINAL vertex (as coded) *)
  Definition intersections (tf tr : gmap nat branch) : list (nat * C) :=
    omap (fun vb : nat * branch =>
            let '(v, fb) := vb in
            match tr !! b_term fb with
            | Some rb => match tr !! v with
                         | Some _ => Some (v, cadd (et_total cadd cfloor (b_et fb)) (et_total cadd cfloor (b_et rb)))
                         | None => None
                         end
            | None => None
            end) (map_to_list tf).

  (* the i'th candidate: backtrack both trees from the via vertex and concatenate *)
  Definition candidate (s t : nat) (tf tr : gmap nat branch) (v : nat) : res route :=
    do fr <- vertex_oriented_route s v tf;
    do rb <- vertex_oriented_route t v tr;
    do rr <- reorient_reverse_route fr rb;
    Ok (fr ++ rr)%list.

  (* `for solution_route in solution.iter() { .. if absolute_similarity || too_similar { break } }` *)
  Fixpoint rejected_by (this : route) (sol : list route) : res bool :=
    match sol with
    | [] => Ok false
    | sr :: rest =>
        let absolute := test_id_similarity this sr in
        do too <- sim (ids this) (ids sr);
        if absolute || too then Ok true else rejected_by this rest
    end.

  Fixpoint sv_loop (fuel : nat) (k : nat) (term : kterm) (s t : nat) (tf tr : gmap nat branch)
           (q : list (nat * C)) (sol : list route) (it : nat) : res (list route * nat) :=
    match fuel with
    | 0 => OutOfFuel
    | S f =>
        if terminate_search term k (List.length sol) then Ok (sol, it)
        else match pick q with
             | None => Ok (sol, it)
             | Some (v, _, q') =>
                 do this <- candidate s t tf tr v;
                 do lp <- route_contains_loop (ids this);
                 do rej <- rejected_by this sol;
                 let sol' := if negb lp && negb rej then (sol ++ [this])%list else sol in
                 sv_loop f k term s t tf tr q' sol' (S it)
             end
    end.

  (* single_via_paths_algorithm::run; the loop needs at most one iteration per queue entry: fuel |queue|+1 *)
  Definition sv_run (k : nat) (term : kterm) (s t : nat) : res (sresult C St) :=
    do rf <- search Forward s t;
    do rr <- search Reverse t s;
    match r_trees rf with
    | [tf] =>
        match r_trees rr with
        | [tr] =>
            let q := intersections tf tr in
            do tsp <- vertex_oriented_route s t tf;
            do r <- sv_loop (S (List.length q)) k term s t tf tr q [tsp] 0;
            let '(sol, it) := r in
            Ok (mkR [tf; tr] (firstn k sol) (r_iters rf + r_iters rr + it))
        | _ => Err "internal: ksp solver rev trees count should be exactly 1"
        end
    | _ => Err "internal: ksp solver fwd trees count should be exactly 1"
    end.

  (* ---------------- Yen's algorithm, as coded ---------------- *)
  Definition route_cost (r : route) : C := fold_left cadd (map (et_total cadd cfloor) r) czero.

  (* `for test_path in accepted.iter()`: the candidate replaces the best one whenever it is dissimilar to the
     CURRENT test path (not to all of them) and cheaper *)
  Fixpoint yen_update (cand : route) (acc : list route) (best : option (route * C)) : res (option (route * C)) :=
    match acc with
    | [] => Ok best
    | tp :: r =>
        do similar <- sim (ids tp) (ids cand);
        let best' := if similar then best
                     else let c := route_cost cand in
                          match best with
                          | Some (_, bc) => if clt c bc then Some (cand, c) else best
                          | None => Some (cand, c)
                          end in
        yen_update cand r best'
    end.

  Definition cut_edges (root : route) (spur_idx : nat) (accepted : list route) : list nat :=
    flat_map (fun ap : route =>
                if same_ids (ids root) (ids (firstn (S spur_idx) ap))
                then match nth_error ap (S spur_idx) with Some ce => [et_edge ce] | None => [] end
                else []) accepted.

  (* the body of `for spur_idx in 0..prev_accepted_path.len() - 2`; note accepted.push inside the loop *)
  Fixpoint yen_spurs (idxs : list nat) (t : nat) (prev : route) (accepted : list route)
           (best : option (route * C)) (iters : nat) : res (list route * option (route * C) * nat) :=
    match idxs with
    | [] => Ok (accepted, best, iters)
    | i :: rest =>
        let root := firstn (S i) prev in
        match last root with
        | None => Err "internal: root path is empty"
        | Some se =>
            match get_edge g (et_edge se) with
            | None => Err "graph: unknown edge"
            | Some ed =>
                do sr <- spur_search (cut_edges root i accepted) (edst ed) t;
                match r_routes sr with
                | [] => Err "internal: no empty results should be stored in routes"
                | sp :: _ =>
                    let cand := (root ++ sp)%list in
                    do best' <- yen_update cand accepted best;
                    let accepted' := match best' with Some (bp, _) => (accepted ++ [bp])%list | None => accepted end in
                    yen_spurs rest t prev accepted' best' (S iters)
                end
            end
        end
    end.

  Fixpoint yen_loop (fuel : nat) (k : nat) (term : kterm) (t : nat) (accepted : list route) (iters : nat)
    : res (list route * nat) :=
    match fuel with
    | 0 => OutOfFuel
    | S f =>
        if negb (Nat.ltb (List.length accepted) k) then Ok (accepted, iters)
        else if terminate_search term k (List.length accepted) then Ok (accepted, iters)
        else match last accepted with
             | None => Err "internal: at least one route should be in routes"
             | Some prev =>
                 (* usize subtraction `prev_accepted_path.len() - 2` with overflow checks on *)
                 if Nat.ltb (List.length prev) 2 then Panic "attempt to subtract with overflow"
                 else
                   do r <- yen_spurs (seq 0 (List.length prev - 2)) t prev accepted None iters;
                   let '(accepted', _, iters') := r in
                   yen_loop f k term t accepted' iters'
             end
    end.

  Definition yens_run (fuel : nat) (k : nat) (term : kterm) (s t : nat) : res (sresult C St) :=
    do sh <- search Forward s t;
    match r_routes sh with
    | [] => Ok (mkR [] [] 0)
    | sp :: _ =>
        do r <- yen_loop fuel k term t [sp] 1;
        let '(accepted, iters) := r in
        Ok (mkR (r_trees sh) accepted iters)
    end.

  (* ---------------- SearchAlgorithm::{KspSingleVia, Yens}::run_vertex_oriented ---------------- *)
  Inductive kalg := KSingleVia | KYens.
  Definition run_vertex_oriented (alg : kalg) (fuel : nat) (k_cfg : nat) (qk : query_k) (term : kterm)
             (s : nat) (target : option nat) : res (sresult C St) :=
    match target with
    | None => Err "build: attempting to run KSP algorithm without destination"
    | Some t =>
        do k <- ksp_query_k k_cfg qk;
        match alg with
        | KSingleVia => sv_run k term s t
        | KYens => yens_run fuel k term s t
        end
    end.
End KSP.

End Ksp.
