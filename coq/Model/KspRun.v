(* Runner of the KSP model for the C13 correspondence stream.  Counterpart of harness/src/bin/c13.rs.
   A case is a table-driven world of Model/SearchRun.v (module SR) plus a KSP configuration [kq].
     line_M   the model's outcome on the numeric instance FN (bit for bit what the Rust code computes), or TIE
              when an underlying search or the intersection queue had to choose among equal priorities
              (unspecified in the implementation);  ` aa=n` = number of routes of the same query under AcceptAll
     line_S   the verified checker of Model/KspSpec.v evaluated, over exact rationals, on the IMPLEMENTATION's
              outcome: prints that outcome back when it accepts, REJECT(why) otherwise.
   Definitions only. *)
From Coq Require Import ZArith QArith List Arith Bool String Floats.
From stdpp Require Import gmap.
From RC Require Import Base.Show Base.Res Base.Num Model.Search Model.SearchSpec Model.SearchRun Model.Ksp Model.KspSpec.
Import ListNotations.
Local Open Scope string_scope.
Local Open Scope nat_scope.

Module KR.
Import Search SearchSpec SR Ksp KspSpec.

(* exact value of a finite binary64 *)
Definition Q_of_float (f : float) : Q :=
  match Prim2SF f with
  | S754_finite s m e =>
      let z := if s then Zneg m else Zpos m in
      match e with
      | Z0 => inject_Z z
      | Zpos p => inject_Z (z * 2 ^ (Zpos p))
      | Zneg p => Qmake z (2 ^ p)%positive
      end
  | _ => 0%Q
  end.

Section Run.
  Variable N : Num.
  Variable cos_ge : N -> N -> N -> N -> bool.

  Record kq := mkKQ {
    kq_alg : kalg;
    kq_under : algo N;            (* underlying: Dijkstra / A-star *)
    kq_wf : option N;             (* "weight_factor" of the query JSON, read by the underlying search *)
    kq_k : nat;                   (* k of the algorithm configuration *)
    kq_qk : query_k;              (* "k" of the query JSON *)
    kq_term : kterm;
    kq_sim : simfn N;
    kq_source : nat;
    kq_target : option nat
  }.

  Definition uq (q : kq) (d : dir) (s t : nat) : query N := mkQ N (kq_under q) d OVertex s (Some t) (kq_wf q).

  Definition search (fuel : nat) (w : world N) (q : kq) (d : dir) (s t : nat) : res (sresult N N) :=
    run_vertex N fuel w (uq q d s t) s (Some t).

  (* EdgeCutFrontierModel{underlying = the world's frontier, cut_edges = cut} *)
  Definition spur_search (fuel : nat) (w : world N) (q : kq) (cut : list nat) (s t : nat) : res (sresult N N) :=
    Search.run_vertex_oriented (C:=N) (St:=N) ltb add zero (pos N) (graph_of N w)
      (fun e st last => if Ksp.memn e cut then Ok false else frontier N w e st last)
      (traverse N w) (estimate N w (eff_wf N (uq q Forward s t))) (Ok (w_init N w)) (terminate N w)
      fuel Forward s (Some t).

  (* Graph::get_edge(e).distance; searchkit::build_graph stores cost[e] as the edge's distance *)
  Definition edge_dist (w : world N) (e : nat) : res N :=
    if Nat.ltb e (List.length (w_edges N w)) then Ok (nth e (w_cost N w) one) else Err "graph: unknown edge".

  Definition sim_of (w : world N) (f : simfn N) (a b : list nat) : res bool :=
    test_similarity N cos_ge f (edge_dist w) a b.

  Definition yen_fuel (k : nat) : nat := k + 2.

  (* SearchAlgorithm::{KspSingleVia, Yens}::run_vertex_oriented(s, target) *)
  Definition run_with_at (fuel : nat) (w : world N) (q : kq) (f : simfn N) (s : nat) (target : option nat)
    : res (sresult N N) :=
    Ksp.run_vertex_oriented (C:=N) (St:=N) ltb add zero (pos N) (graph_of N w) (traverse N w Forward) (Ok (w_init N w))
      (search fuel w q) (spur_search fuel w q) (sim_of w f) (pop_min (C:=N) ltb)
      (kq_alg q) (yen_fuel (match ksp_query_k (kq_k q) (kq_qk q) with Ok k => k | _ => 0 end))
      (kq_k q) (kq_qk q) (kq_term q) s target.
  Definition run_with (fuel : nat) (w : world N) (q : kq) (f : simfn N) : res (sresult N N) :=
    run_with_at fuel w q f (kq_source q) (kq_target q).

  (* the same algorithm through SearchAlgorithm::run_edge_oriented: [kq_source] / [kq_target] are EDGE ids; the
     vertex-oriented k-shortest-paths run is started between the origin edge's end and the destination edge's start *)
  Definition run_edge_with (fuel : nat) (w : world N) (q : kq) (f : simfn N) : res (sresult N N) :=
    Search.run_edge_oriented (C:=N) (St:=N) zero (graph_of N w) (traverse N w) (Ok (w_init N w)) Forward
      (run_with_at fuel w q f) (kq_source q) (kq_target q).
  Definition run_edge (fuel : nat) (w : world N) (q : kq) : res (sresult N N) := run_edge_with fuel w q (kq_sim q).

  Definition run (fuel : nat) (w : world N) (q : kq) : res (sresult N N) := run_with fuel w q (kq_sim q).

  Definition n_routes (r : res (sresult N N)) : nat :=
    match r with Ok x => List.length (r_routes x) | _ => 0 end.
  (* number of routes of the same query under the default AcceptAll (single-via only; Yen: its own count) *)
  Definition aa_count (fuel : nat) (w : world N) (q : kq) : nat :=
    match kq_alg q with
    | KSingleVia => n_routes (run_with fuel w q SAcceptAll)
    | KYens => n_routes (run fuel w q)
    end.

  Definition aa_count_edge (fuel : nat) (w : world N) (q : kq) : nat :=
    match kq_alg q with
    | KSingleVia => n_routes (run_edge_with fuel w q SAcceptAll)
    | KYens => n_routes (run_edge fuel w q)
    end.

  (* ---- ties: an underlying search popped among equal priorities, or two intersection entries cost the same ---- *)
  Fixpoint has_equal (l : list (nat * N)) : bool :=
    match l with
    | [] => false
    | x :: r => existsb (fun y => negb (ltb (snd x) (snd y)) && negb (ltb (snd y) (snd x))) r || has_equal r
    end.
  Definition has_tie_at (fuel : nat) (w : world N) (q : kq) (s : nat) (target : option nat) : bool :=
    match target with
    | None => false
    | Some t =>
        vertex_ties N fuel w (uq q Forward s t) s (Some t)
        || match kq_alg q with
           | KYens => false
           | KSingleVia =>
               vertex_ties N fuel w (uq q Reverse t s) t (Some s)
               || match search fuel w q Forward s t, search fuel w q Reverse t s with
                  | Ok rf, Ok rr =>
                      match r_trees rf, r_trees rr with
                      | [tf], [tr] => has_equal (intersections (C:=N) (St:=N) add (pos N) tf tr)
                      | _, _ => false
                      end
                  | _, _ => false
                  end
           end
    end.
  Definition has_tie (fuel : nat) (w : world N) (q : kq) : bool := has_tie_at fuel w q (kq_source q) (kq_target q).
  (* edge-oriented: the vertex pair the k-shortest-paths run is started with (none when the two query edges are
     equal or adjacent) *)
  Definition edge_pair (w : world N) (q : kq) : option (nat * nat) :=
    match get_edge (graph_of N w) (kq_source q), kq_target q with
    | Some e1, Some te =>
        match get_edge (graph_of N w) te with
        | Some e2 => if Nat.eqb (kq_source q) te || Nat.eqb (edst e1) (esrc e2) then None else Some (edst e1, esrc e2)
        | None => None
        end
    | _, _ => None
    end.
  Definition has_tie_edge (fuel : nat) (w : world N) (q : kq) : bool :=
    match edge_pair w q with
    | Some (s, t) => has_tie_at fuel w q s (Some t)
    | None => false
    end.

  Context `{ShowNum N}.

  Definition line_M (fuel : nat) (id : Z) (w : world N) (q : kq) (detail : nat) : string :=
    line "M" id (if has_tie fuel w q then "TIE"
                 else show_outcome N (outcome_of N (run fuel w q)) detail ++ " aa=" ++ show_nat (aa_count fuel w q)).
  Definition line_ME (fuel : nat) (id : Z) (w : world N) (q : kq) (detail : nat) : string :=
    line "M" id (if has_tie_edge fuel w q then "TIE"
                 else show_outcome N (outcome_of N (run_edge fuel w q)) detail ++ " aa=" ++ show_nat (aa_count_edge fuel w q)).
End Run.

(* ---------------------------------------------------------------- the checker line *)
Definition worldQ (w : world FN) : world QN :=
  mkW QN (w_n FN w) (w_edges FN w) (map Q_of_float (w_cost FN w)) (map Q_of_float (w_h FN w))
      (map (fun x => (fst x, Q_of_float (snd x))) (w_turn FN w)) (w_forbid FN w) (w_fturn FN w)
      (w_ferr FN w) (w_terr FN w) (w_term FN w) (Q_of_float (w_init FN w)).

(* the states along a route, re-computed by folding the traversal of the exact-rational world *)
Fixpoint fold_states (w : world QN) (r : list nat) (prev : option nat) (st : Q) : option (list Q) :=
  match r with
  | [] => Some []
  | e :: r' =>
      match traverse QN w Forward e prev st with
      | Ok (_, _, st') => match fold_states w r' (Some e) st' with Some l => Some (st' :: l) | None => None end
      | _ => None
      end
  end.
Fixpoint Qlist_eqb (a b : list Q) : bool :=
  match a, b with
  | [], [] => true
  | x :: a', y :: b' => Qeq_bool x y && Qlist_eqb a' b'
  | _, _ => false
  end.
Definition states_ok (w : world QN) (r : list (nat * float * float * float)) : bool :=
  match fold_states w (route_edges FN r) None (w_init QN w) with
  | Some l => Qlist_eqb l (map (fun x => let '(_, _, _, st) := x in Q_of_float st) r)
  | None => false
  end.

(* edge-local objective: no turn table, no frontier table, no failing edge *)
Definition edge_local (w : world FN) : bool :=
  match w_turn FN w, w_forbid FN w, w_fturn FN w, w_ferr FN w, w_terr FN w with
  | [], [], [], [], [] => true
  | _, _, _, _, _ => false
  end.

(* [simq]: the similarity function with its threshold as the configured decimal; [pi]: for every vertex the least
   cost from the source over the cost table (None = unreachable), a certificate checked by [check_potential];
   [optimal]: the harness expects the underlying search to be optimal (Dijkstra, or A-star with a consistent
   estimate); [aa]: number of routes the implementation returned for the same query under AcceptAll *)
(* [fold]: the hop states are re-computed by folding the traversal (off for underlying searches that may re-open a
   vertex: weighted A-star, C03's K_reopen);  [mfuel]: Some f = when the outcome is `terminated` under a finite
   TerminationModel, re-run the two underlying searches of the model with fuel f: the single-via loop itself never
   consults the termination model, so if both searches finish under the limit the answer must be Ok *)
Definition term_unlimited (t : term) : bool := match t with TUnlimited => true | _ => false end.
Definition underlying_ok (f : nat) (w : world FN) (q : kq FN) (s t : nat) : bool :=
  is_ok (search FN f w q Forward s t)
  && match kq_alg FN q with KSingleVia => is_ok (search FN f w q Reverse t s) | KYens => true end.

(* turn costs only: an access model that charges turns, no frontier table, no failing edge *)
Definition turn_costs_only (w : world FN) : bool :=
  match w_turn FN w, w_forbid FN w, w_fturn FN w, w_ferr FN w, w_terr FN w with
  | _ :: _, [], [], [], [] => true
  | _, _, _, _, _ => false
  end.
(* accumulated cost at which the forward tree (first tree of the outcome) reaches t *)
Definition tree_cost (wq : world QN) (o : outcome FN) (t : nat) : option Q :=
  match o_trees FN o with
  | tf :: _ =>
      match find (fun x => let '(v, _, _, _, _, _) := x in Nat.eqb v t) tf with
      | Some (_, _, _, _, _, st) => Some (Q_of_float st - w_init QN wq)%Q
      | None => None
      end
  | [] => None
  end.

(* [pie]: with turn costs the objective depends on the previous edge, so the certificate is a potential on EDGES
   ([] = none supplied: the clause is not judged).  The clause is judged only on worlds where it is unambiguous:
   the underlying vertex-labelling search itself reached the destination at the certified least total cost. *)
Definition check_case_gen (fold : bool) (mfuel : option nat) (pie : list (option float)) (w : world FN) (q : kq FN)
           (simq : simfn Q) (pi : list (option float)) (optimal : bool) (o : outcome FN) (aa : nat) : option string :=
  let wq := worldQ w in
  let g := graph_of FN w in
  let costq := w_cost QN wq in
  let piq := map (fun x => match x with Some f => Some (Q_of_float f) | None => None end) pi in
  let st := o_status FN o in
  if String.eqb st "Panic" || String.eqb st "Hang" then Some "crash" else
  match kq_target FN q with
  | None => if String.eqb st "err:build" then None else Some "no destination: build error expected"
  | Some t =>
      let s := kq_source FN q in
      match ksp_query_k (kq_k FN q) (kq_qk FN q) with
      | Ok k =>
          if Nat.eqb s t || Nat.eqb k 0 then None                                (* outside the property *)
          else if negb (check_potential (w_edges FN w) costq s piq) then Some "bad certificate"
          else match nth t piq None with
               | None => if String.eqb st "Ok" then Some "route to an unreachable destination" else None
               | Some dt =>
                   if negb (edge_local w) && negb (String.eqb st "Ok") then None   (* frontier/turn tables: C04/C05 *)
                   else if negb (String.eqb st "Ok") then
                     match mfuel with
                     | Some f =>
                         if String.eqb st "terminated" && negb (term_unlimited (w_term FN w))
                         then (if underlying_ok f w q s t
                               then Some "terminated although both underlying searches finish under the limit"
                               else None)
                         else Some "error on an answerable query"
                     | None => Some "error on an answerable query"
                     end
                   else
                     let rs := map (route_edges FN) (o_routes FN o) in
                     match check_routes g s t k rs with
                     | Some why => Some why
                     | None =>
                         if negb (check_dissimilar simq (fun e => nth e costq 1%Q) rs) then Some "too similar"
                         else if fold && negb (forallb (states_ok wq) (o_routes FN o)) then Some "state"
                         else if optimal && edge_local w
                                 && negb (match rs with r0 :: _ => Qeq_bool (route_sum costq r0) dt | [] => false end)
                              then Some "first route is not least-cost"
                         else if optimal && turn_costs_only w && negb (match pie with [] => true | _ => false end)
                                 && (let pieq := map (fun x => match x with Some f => Some (Q_of_float f) | None => None end) pie in
                                     let turnf := turn_of (w_turn QN wq) in
                                     let into_t := potentials_into (w_edges FN w) pieq t in
                                     if negb (check_edge_potential (w_edges FN w) costq turnf s pieq) then true
                                     else match tree_cost wq o t, rs with
                                          | Some ct, r0 :: _ =>
                                              at_most_all ct into_t && negb (at_most_all (route_total costq turnf None r0) into_t)
                                          | _, _ => false
                                          end)
                              then Some "first route is not least-cost (total cost with turn costs)"
                         else if Nat.ltb aa (List.length rs) then Some "AcceptAll returns fewer routes"
                         else None
                     end
               end
      | _ => if String.eqb st "err:build" then None else Some "bad k: build error expected"
      end
  end.

Definition check_case := check_case_gen true None [].

(* the line of the ksp stream: the fold flag and the model fuel are chosen by the harness *)
Definition line_SG (fold : bool) (fuel : nat) (pie : list (option float)) (id : Z) (w : world FN) (q : kq FN) (simq : simfn Q)
           (pi : list (option float)) (optimal : bool) (o : outcome FN) (aa : nat) (detail : nat) : string :=
  line "S" id (match check_case_gen fold (Some fuel) pie w q simq pi optimal o aa with
               | None => show_outcome FN o detail ++ " aa=" ++ show_nat aa
               | Some why => "REJECT(" ++ why ++ ") " ++ show_outcome FN o 0
               end).

Definition line_S (id : Z) (w : world FN) (q : kq FN) (simq : simfn Q) (pi : list (option float)) (optimal : bool)
           (o : outcome FN) (aa : nat) (detail : nat) : string :=
  line "S" id (match check_case w q simq pi optimal o aa with
               | None => show_outcome FN o detail ++ " aa=" ++ show_nat aa
               | Some why => "REJECT(" ++ why ++ ") " ++ show_outcome FN o 0
               end).

(* ---- edge-oriented queries: every route is  origin edge :: inner route ++ [destination edge]  where the origin hop
        carries the initial state at zero cost, the destination hop repeats the state of the hop before it at zero cost,
        and the inner routes are judged by [check_case] as the answer to the vertex query between the origin edge's end
        and the destination edge's start.  [pi] is the certificate for that start vertex. ---- *)
Definition hop := (nat * float * float * float)%type.
Definition is_zero (f : float) : bool := Qeq_bool (Q_of_float f) 0.
Fixpoint strip_last (r : list hop) : option (list hop * hop) :=
  match r with
  | [] => None
  | [x] => Some ([], x)
  | x :: r' => match strip_last r' with Some (l, y) => Some (x :: l, y) | None => None end
  end.
(* Some inner = the wrapper is right *)
Definition unwrap_route (init : float) (e1 e2 : nat) (r : list hop) : option (list hop) :=
  match r with
  | (e, ac, tc, st) :: rest =>
      if negb (Nat.eqb e e1 && is_zero ac && is_zero tc && Qeq_bool (Q_of_float st) (Q_of_float init)) then None else
      match strip_last rest with
      | Some (inner, (e', ac', tc', st')) =>
          match strip_last inner with
          | Some (_, (_, _, _, stp)) =>
              if Nat.eqb e' e2 && is_zero ac' && is_zero tc' && Qeq_bool (Q_of_float st') (Q_of_float stp)
              then Some inner else None
          | None => None
          end
      | None => None
      end
  | [] => None
  end.
Fixpoint unwrap_all (init : float) (e1 e2 : nat) (rs : list (list hop)) : option (list (list hop)) :=
  match rs with
  | [] => Some []
  | r :: rest => match unwrap_route init e1 e2 r, unwrap_all init e1 e2 rest with
                 | Some x, Some l => Some (x :: l)
                 | _, _ => None
                 end
  end.

Definition check_case_edge (w : world FN) (q : kq FN) (simq : simfn Q) (pi : list (option float)) (optimal : bool)
           (o : outcome FN) (aa : nat) : option string :=
  let st := o_status FN o in
  if String.eqb st "Panic" || String.eqb st "Hang" then Some "crash" else
  match get_edge (graph_of FN w) (kq_source FN q) with
  | None => None                                                   (* unknown origin edge: C01 *)
  | Some e1 =>
      let at_vertices (t : option nat) :=
        mkKQ FN (kq_alg FN q) (kq_under FN q) (kq_wf FN q) (kq_k FN q) (kq_qk FN q) (kq_term FN q) (kq_sim FN q) (edst e1) t in
      match kq_target FN q with
      | None => check_case w (at_vertices None) simq pi optimal o aa
      | Some te =>
          match edge_pair FN w q with
          | None => None                                           (* unknown / same / adjacent query edges: C01 *)
          | Some (s, t) =>
              if negb (String.eqb st "Ok") then check_case w (at_vertices (Some t)) simq pi optimal o aa
              else match unwrap_all (w_init FN w) (kq_source FN q) te (o_routes FN o) with
                   | None => Some "origin/destination hop"
                   | Some inner =>
                       check_case w (at_vertices (Some t)) simq pi optimal
                         (mkO FN st (o_iters FN o) (o_trees FN o) inner) aa
                   end
          end
      end
  end.

Definition line_SE (id : Z) (w : world FN) (q : kq FN) (simq : simfn Q) (pi : list (option float)) (optimal : bool)
           (o : outcome FN) (aa : nat) (detail : nat) : string :=
  line "S" id (match check_case_edge w q simq pi optimal o aa with
               | None => show_outcome FN o detail ++ " aa=" ++ show_nat aa
               | Some why => "REJECT(" ++ why ++ ") " ++ show_outcome FN o 0
               end).

(* ---- stream `sim`: RouteSimilarityFunction::test_similarity on arbitrary pairs of edge-id sequences ---- *)
Definition show_sim (r : res bool) : string :=
  match r with Ok b => "Ok " ++ show_bool b | Err _ => "Err" | Panic _ => "Panic" | OutOfFuel => "Hang" end.
Definition line_simM (id : Z) (w : world FN) (f : simfn float) (a b : list nat) : string :=
  line "M" id (show_sim (test_similarity FN cos_ge_F f (edge_dist FN w) a b)).
(* the exact decision: similar when the rank exceeds the threshold by more than the rounding slack, not similar when
   it is below it by more than the slack (or undefined: 0/0); inside the band the implementation's answer stands *)
Definition sim_verdict (fq : simfn Q) (dist : nat -> res Q) (a b : list nat) (impl : string) : string :=
  let decide (p : res (Q * Q * Q)) (thr : Q) :=
    match p with
    | Ok (n, da, db) =>
        if cos_gt_Q n da db thr then "Ok T"
        else if negb (cos_ge_Q n da db (thr * (1 - (1 # (2 ^ 40))))%Q) then "Ok F"
        else impl
    | _ => "Err"
    end in
  match fq with
  | SAcceptAll => "Ok F"
  | SEdgeIdCosine thr => decide (cos_parts QN (fun _ => Ok 1%Q) a b) thr
  | SDistanceCosine thr => decide (cos_parts QN dist a b) thr
  end.
Definition line_simS (id : Z) (w : world FN) (fq : simfn Q) (a b : list nat) (impl : string) : string :=
  line "S" id (sim_verdict fq (edge_dist QN (worldQ w)) a b impl).

Definition line_MF := line_M FN cos_ge_F.
Definition line_MEF := line_ME FN cos_ge_F.
End KR.
