(* C13: Prop-level reading of the property for a list of routes (edge-id sequences) and the boolean checkers the
   correspondence stream evaluates (vm_compute, exact rationals) on the IMPLEMENTATION's routes.
   Definitions only; soundness of the checkers is proved in Proofs/KspCheck.v. *)
From Coq Require Import List Arith Bool String ZArith QArith.
From RC Require Import Base.Res Base.Num Model.Search Model.SearchSpec Model.Ksp.
Import ListNotations.
Local Open Scope nat_scope.

Module KspSpec.
Import Search SearchSpec Ksp.

(* ---------------------------------------------------------------- routes *)
(* far end of every edge of the route (0 for an unknown edge; a walk has none) *)
Definition dsts (g : graph) (r : list nat) : list nat :=
  map (fun e => match get_edge g e with Some ed => edst ed | None => 0 end) r.
Definition srcs (g : graph) (r : list nat) : list nat :=
  map (fun e => match get_edge g e with Some ed => esrc ed | None => 0 end) r.

(* a valid loop-free origin-to-destination route: non-empty, chained from s to t, no vertex visited twice *)
Definition valid_route (g : graph) (s t : nat) (r : list nat) : Prop :=
  r <> [] /\ walk g Forward s r t /\ NoDup (s :: dsts g r).

(* between one and k routes, each valid and loop-free, no two with the same edge sequence *)
Definition routes_ok (g : graph) (s t k : nat) (rs : list (list nat)) : Prop :=
  1 <= List.length rs <= k /\ (forall r, In r rs -> valid_route g s t r) /\ NoDup rs.

Definition list_eqb (a b : list nat) : bool :=
  (fix go (a b : list nat) : bool :=
     match a, b with
     | [], [] => true
     | x :: a', y :: b' => Nat.eqb x y && go a' b'
     | _, _ => false
     end) a b.
Fixpoint distinctb (rs : list (list nat)) : bool :=
  match rs with
  | [] => true
  | r :: rest => negb (existsb (list_eqb r) rest) && distinctb rest
  end.

Definition check_route_valid (g : graph) (s t : nat) (r : list nat) : bool :=
  negb (match r with [] => true | _ => false end) && walk_b g Forward s r t && nodupb (s :: dsts g r).

(* None = accepted *)
Definition check_routes (g : graph) (s t k : nat) (rs : list (list nat)) : option string :=
  if negb (Nat.leb 1 (List.length rs)) then Some "no route"%string
  else if negb (Nat.leb (List.length rs) k) then Some "more than k routes"%string
  else if negb (forallb (check_route_valid g s t) rs) then Some "invalid or looping route"%string
  else if negb (distinctb rs) then Some "duplicate route"%string
  else None.

(* ---------------------------------------------------------------- similarity *)
(* "more similar than the threshold": numer / (sqrt da * sqrt db) > thr * sqrt(1 + 2^-40), decided on squares.
   The slack absorbs the rounding of the implementation's binary64 sqrt/division at the boundary (a pair whose
   exact rank EQUALS the threshold may be accepted or rejected by the code; neither is a violation of
   "no two are more similar than the threshold").  Thresholds are non-negative. *)
Definition tol : Q := 1 + (1 # (2 ^ 40)).
Definition cos_gt_Q (n da db thr : Q) : bool :=
  let p := (da * db)%Q in
  if Qeq_bool p 0 then false
  else negb (Qle_bool n 0) && negb (Qle_bool (n * n) (thr * thr * p * tol)).

Definition more_similar (f : simfn Q) (dist : nat -> Q) (a b : list nat) : bool :=
  match f with
  | SAcceptAll => false
  | SEdgeIdCosine thr =>
      match cos_parts QN (fun _ => Ok 1%Q) a b with Ok (n, da, db) => cos_gt_Q n da db thr | _ => true end
  | SDistanceCosine thr =>
      match cos_parts QN (fun e => Ok (dist e)) a b with Ok (n, da, db) => cos_gt_Q n da db thr | _ => true end
  end.

Definition pairwise_dissimilar (f : simfn Q) (dist : nat -> Q) (rs : list (list nat)) : Prop :=
  forall i j a b, i < j -> nth_error rs i = Some a -> nth_error rs j = Some b ->
    more_similar f dist a b = false /\ more_similar f dist b a = false.

Fixpoint check_dissimilar (f : simfn Q) (dist : nat -> Q) (rs : list (list nat)) : bool :=
  match rs with
  | [] => true
  | r :: rest =>
      forallb (fun r' => negb (more_similar f dist r r') && negb (more_similar f dist r' r)) rest
      && check_dissimilar f dist rest
  end.

(* ---------------------------------------------------------------- least cost (dual certificate) *)
Definition route_sum (cost : list Q) (r : list nat) : Q := fold_right (fun e acc => (nth e cost 0 + acc)%Q) 0%Q r.

(* a feasible potential: pi(s) = 0 and pi(v) <= pi(u) + c(u,v) for every edge whose tail has a finite potential *)
Fixpoint check_edges_pot (edges : list (nat * nat)) (cost : list Q) (pi : list (option Q)) : bool :=
  match edges, cost with
  | [], _ => true
  | (u, v) :: er, c :: cr =>
      match nth u pi None with
      | None => true
      | Some a => match nth v pi None with
                  | Some b => Qle_bool b (a + c)
                  | None => false
                  end
      end && check_edges_pot er cr pi
  | _ :: _, [] => false
  end.
Definition check_potential (edges : list (nat * nat)) (cost : list Q) (s : nat) (pi : list (option Q)) : bool :=
  match nth s pi None with
  | Some a => Qeq_bool a 0 && check_edges_pot edges cost pi
  | None => false
  end.

(* ---------------------------------------------------------------- least TOTAL cost with turn (access) costs *)
(* the turn table as a function: a later duplicate wins, an absent pair costs nothing *)
Definition turn_of (l : list (nat * nat * Q)) (a b : nat) : Q :=
  fold_left (fun acc x => if Nat.eqb (fst (fst x)) a && Nat.eqb (snd (fst x)) b then snd x else acc) l 0%Q.

(* total cost of a route: every edge's own cost plus the cost of the turn from the edge before it *)
Fixpoint route_total (cost : list Q) (turn : nat -> nat -> Q) (prev : option nat) (r : list nat) : Q :=
  match r with
  | [] => 0%Q
  | e :: r' => ((match prev with Some p => turn p e | None => 0 end) + nth e cost 0 + route_total cost turn (Some e) r')%Q
  end.

(* a feasible potential on EDGES (the objective depends on the previous edge): pi(e) <= c(e) for every edge leaving
   the source, pi(f) <= pi(e) + turn(e,f) + c(f) for every consecutive pair whose first edge has a finite potential *)
Definition check_edge_potential (edges : list (nat * nat)) (cost : list Q) (turn : nat -> nat -> Q) (s : nat)
           (pi : list (option Q)) : bool :=
  let idx := seq 0 (List.length edges) in
  forallb (fun i =>
    match nth_error edges i with
    | Some (u, v) =>
        (if Nat.eqb u s then match nth i pi None with Some a => Qle_bool a (nth i cost 0%Q) | None => false end else true)
        && match nth i pi None with
           | None => true
           | Some a =>
               forallb (fun j =>
                 match nth_error edges j with
                 | Some (u', _) =>
                     if Nat.eqb v u'
                     then match nth j pi None with Some b => Qle_bool b (a + turn i j + nth j cost 0)%Q | None => false end
                     else true
                 | None => true
                 end) idx
           end
    | None => true
    end) idx.

(* the finite potentials of the edges that arrive at t *)
Definition potentials_into (edges : list (nat * nat)) (pi : list (option Q)) (t : nat) : list Q :=
  flat_map (fun i => match nth_error edges i with
                     | Some (_, v) => if Nat.eqb v t then match nth i pi None with Some b => [b] | None => [] end else []
                     | None => []
                     end) (seq 0 (List.length edges)).
Definition at_most_all (c : Q) (l : list Q) : bool := forallb (fun b => Qle_bool c b) l.

End KspSpec.
