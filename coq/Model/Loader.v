(* Executable model of the network loader and of the accessors of Graph:
     routee-compass-core/src/model/network/graph_loader.rs   graph_from_files, get_n_edges, get_n_vertices
     routee-compass-core/src/model/network/edge_loader.rs    EdgeLoader::try_from (row callback)
     routee-compass-core/src/model/network/vertex_loader.rs  Box<[Vertex]>::try_from
     routee-compass-core/src/model/network/graph.rs          Graph::{n_edges, n_vertices, get_edge, get_vertex,
                                                             out_edges, in_edges, src_vertex_id, dst_vertex_id,
                                                             incident_edges, incident_vertex, edge_triplet,
                                                             incident_triplet_ids, incident_triplet_attributes}
     routee-compass-core/src/util/fs/read_utils.rs           read_raw_file (per-edge tables), from_csv (row order)
   Definitions only; proofs are in Proofs/Loader.v.

   What a file is, for this model: the list of its decoded data rows in file order plus the number of
   text lines `BufRead::lines()` counts in it (header included).  CSV / gzip decoding, the detection of
   gzip by its magic header and the line counting itself are exercised by the correspondence stream on
   real files (plain, .gz, gzip without extension, with / without trailing newline), not modelled.

   Facts about the code that the model transcribes (each is visible in the harness output):
   * `edges` and `vertices` are the rows of the files IN FILE ORDER (`from_csv` collects the row iterator):
     `get_edge(i)` / `get_vertex(i)` return the i-th row whatever id is written in it.  Nothing is placed
     "by id" and nothing checks that the id of row i is i.
   * `n_edges` (explicit or scanned) only sizes a progress bar.  `n_vertices` (explicit or scanned) is the
     length of `adj` and `rev`; it is NOT the length of `vertices`.
   * a row whose source is >= n_vertices is not entered in `adj` and a row whose destination is >= n_vertices
     is not entered in `rev`; the vertex id goes to `missing_vertices`, and once all rows are read a non-empty
     `missing_vertices` fails the load with DatasetError (since /repo 75c7433; before, the set was dropped and
     such a row silently appeared in one adjacency direction only).
   * adjacency maps are CompactOrderedHashMap<EdgeId, VertexId> filled with `insert` in row order; a repeated
     edge id leaving the same vertex overwrites the stored destination and keeps its position. *)
From Coq Require Import List Arith Bool String.
From RC Require Import Base.Res Model.CompactMap.
Import ListNotations.

Module LD.
Section Loader.
  (* D: the distance payload of an edge row, C: a coordinate of a vertex row (both opaque here) *)
  Context {D C : Type}.

  Record edge := mkEdge { e_id : nat; e_src : nat; e_dst : nat; e_dist : D }.
  Record vertex := mkVertex { v_id : nat; v_x : C; v_y : C }.

  Definition amap := CM.cmap nat nat.          (* CompactOrderedHashMap<EdgeId, VertexId> *)
  Record graph := mkGraph {
    adj : list amap; rev : list amap; edges : list edge; vertices : list vertex }.

  (* ---------------- EdgeLoader::try_from ---------------- *)
  (* `vec.get_mut(i)` followed by a mutation of the element found *)
  Fixpoint upd {A} (l : list A) (i : nat) (f : A -> A) : list A :=
    match l, i with
    | [], _ => []
    | x :: r, 0 => f x :: r
    | x :: r, S j => x :: upd r j f
    end.

  (* HashSet::insert, the set kept as a duplicate-free list *)
  Definition set_add (s : list nat) (x : nat) : list nat :=
    if existsb (Nat.eqb x) s then s else s ++ [x].

  Record lstate := mkL { l_adj : list amap; l_rev : list amap; l_missing : list nat }.

  Definition ins (k v : nat) (m : amap) : amap := fst (CM.insert Nat.eqb m k v).

  (* the row callback `cb` *)
  Definition edge_cb (st : lstate) (e : edge) : lstate :=
    let st1 :=
      match nth_error (l_adj st) (e_src e) with
      | None => mkL (l_adj st) (l_rev st) (set_add (l_missing st) (e_src e))
      | Some _ => mkL (upd (l_adj st) (e_src e) (ins (e_id e) (e_dst e))) (l_rev st) (l_missing st)
      end in
    match nth_error (l_rev st1) (e_dst e) with
    | None => mkL (l_adj st1) (l_rev st1) (set_add (l_missing st1) (e_dst e))
    | Some _ => mkL (l_adj st1) (upd (l_rev st1) (e_dst e) (ins (e_id e) (e_src e))) (l_missing st1)
    end.

  Definition init_state (n_vertices : nat) : lstate :=
    mkL (repeat CM.empty n_vertices) (repeat CM.empty n_vertices) [].

  Definition load_edges (n_vertices : nat) (rows : list edge) : lstate :=
    fold_left edge_cb rows (init_state n_vertices).

  (* the Graph assembled from a loader state and the vertex rows *)
  Definition build (n_vertices : nat) (erows : list edge) (vrows : list vertex) : graph :=
    let st := load_edges n_vertices erows in
    mkGraph (l_adj st) (l_rev st) erows vrows.

  (* EdgeLoader::try_from after the rows are read, followed by the vertex loader and the assembly of Graph *)
  Definition load (n_vertices : nat) (erows : list edge) (vrows : list vertex) : res graph :=
    match l_missing (load_edges n_vertices erows) with
    | [] => Ok (build n_vertices erows vrows)
    | _ :: _ => Err "DatasetError"
    end.

  (* ---------------- graph_loader.rs ---------------- *)
  Record files := mkFiles {
    f_edge_lines : nat;            (* line_count(edge file), header included *)
    f_edge_rows : list edge;
    f_vertex_lines : nat;
    f_vertex_rows : list vertex }.

  (* get_n_edges / get_n_vertices *)
  Definition get_n (line_count : nat) : res nat :=
    if Nat.ltb line_count 1 then Err "DatasetError" else Ok (line_count - 1).

  Definition graph_from_files (f : files) (n_edges n_vertices : option nat) : res graph :=
    do _ne <- match n_edges with Some n => Ok n | None => get_n (f_edge_lines f) end;
    do nv <- match n_vertices with Some n => Ok n | None => get_n (f_vertex_lines f) end;
    load nv (f_edge_rows f) (f_vertex_rows f).

  (* ---------------- graph.rs ---------------- *)
  Inductive direction := Forward | Reverse.

  Definition n_edges (g : graph) : nat := List.length (edges g).
  Definition n_vertices (g : graph) : nat := List.length (vertices g).

  Definition get_edge (g : graph) (i : nat) : res edge :=
    match nth_error (edges g) i with None => Err "EdgeNotFound" | Some e => Ok e end.
  Definition get_vertex (g : graph) (i : nat) : res vertex :=
    match nth_error (vertices g) i with None => Err "VertexNotFound" | Some v => Ok v end.

  Definition out_edges (g : graph) (v : nat) : list nat :=
    match nth_error (adj g) v with None => [] | Some m => CM.keys m end.
  Definition in_edges (g : graph) (v : nat) : list nat :=
    match nth_error (rev g) v with None => [] | Some m => CM.keys m end.

  (* the public fields adj / rev read through iter(): (edge id, other end) in insertion order *)
  Definition adj_view (g : graph) (v : nat) : list (nat * nat) :=
    match nth_error (adj g) v with None => [] | Some m => CM.iter m end.
  Definition rev_view (g : graph) (v : nat) : list (nat * nat) :=
    match nth_error (rev g) v with None => [] | Some m => CM.iter m end.

  (* the same fields read through keys() + get(), and their len() *)
  Definition get_view (side : list amap) (v : nat) : list (nat * option nat) :=
    match nth_error side v with
    | None => []
    | Some m => map (fun k => (k, CM.get Nat.eqb m k)) (CM.keys m)
    end.
  Definition len_view (side : list amap) (v : nat) : nat :=
    match nth_error side v with None => 0 | Some m => CM.len m end.

  Definition src_vertex_id (g : graph) (e : nat) : res nat := rmap e_src (get_edge g e).
  Definition dst_vertex_id (g : graph) (e : nat) : res nat := rmap e_dst (get_edge g e).

  Definition incident_edges (g : graph) (v : nat) (d : direction) : list nat :=
    match d with Forward => out_edges g v | Reverse => in_edges g v end.
  Definition incident_vertex (g : graph) (e : nat) (d : direction) : res nat :=
    match d with Forward => dst_vertex_id g e | Reverse => src_vertex_id g e end.

  Definition edge_triplet (g : graph) (e : nat) : res (vertex * edge * vertex) :=
    do edge <- get_edge g e;
    do s <- get_vertex g (e_src edge);
    do d <- get_vertex g (e_dst edge);
    Ok (s, edge, d).

  (* iterator of Results collected into Result<Vec<_>, _>: the first error wins *)
  Fixpoint mapM {A B} (f : A -> res B) (l : list A) : res (list B) :=
    match l with
    | [] => Ok []
    | x :: r => do y <- f x; do ys <- mapM f r; Ok (y :: ys)
    end.

  (* (vertex_id, edge_id, terminal vertex) in both directions, as the code builds them *)
  Definition incident_triplet_ids (g : graph) (v : nat) (d : direction) : res (list (nat * nat * nat)) :=
    mapM (fun e => do t <- incident_vertex g e d; Ok (v, e, t)) (incident_edges g v d).

  Definition incident_triplet_attributes (g : graph) (v : nat) (d : direction)
    : res (list (vertex * edge * vertex)) :=
    do ids <- incident_triplet_ids g v d;
    mapM (fun t => let '(a, e, b) := t in
                   do va <- get_vertex g a; do ed <- get_edge g e; do vb <- get_vertex g b;
                   Ok (va, ed, vb)) ids.

  (* the whole edge set as each adjacency direction describes it: (edge id, source, destination) *)
  Definition triples_adj (g : graph) : list (nat * nat * nat) :=
    flat_map (fun v => map (fun p => (fst p, v, snd p)) (adj_view g v)) (seq 0 (List.length (adj g))).
  Definition triples_rev (g : graph) : list (nat * nat * nat) :=
    flat_map (fun v => map (fun p => (fst p, snd p, v)) (rev_view g v)) (seq 0 (List.length (rev g))).

  (* ---------------- the specification: read directly off the rows ---------------- *)
  (* no container, no loader state: the network "described by the files" *)
  Definition s_edge (rows : list edge) (i : nat) : res edge :=
    match find (fun e => Nat.eqb (e_id e) i) rows with Some e => Ok e | None => Err "EdgeNotFound" end.
  Definition s_vertex (vrows : list vertex) (i : nat) : res vertex :=
    match find (fun v => Nat.eqb (v_id v) i) vrows with Some v => Ok v | None => Err "VertexNotFound" end.
  Definition leaving (rows : list edge) (v : nat) : list edge :=
    filter (fun e => Nat.eqb (e_src e) v) rows.
  Definition entering (rows : list edge) (v : nat) : list edge :=
    filter (fun e => Nat.eqb (e_dst e) v) rows.
  Definition s_out (rows : list edge) (v : nat) : list nat := map e_id (leaving rows v).
  Definition s_in (rows : list edge) (v : nat) : list nat := map e_id (entering rows v).
  Definition s_adj_view (rows : list edge) (v : nat) : list (nat * nat) :=
    map (fun e => (e_id e, e_dst e)) (leaving rows v).
  Definition s_rev_view (rows : list edge) (v : nat) : list (nat * nat) :=
    map (fun e => (e_id e, e_src e)) (entering rows v).
  Definition s_triples (rows : list edge) : list (nat * nat * nat) :=
    map (fun e => (e_id e, e_src e, e_dst e)) rows.
  Definition s_triplet (rows : list edge) (vrows : list vertex) (i : nat)
    : res (vertex * edge * vertex) :=
    do e <- s_edge rows i;
    do s <- s_vertex vrows (e_src e);
    do d <- s_vertex vrows (e_dst e);
    Ok (s, e, d).
  Definition s_incident (rows : list edge) (v : nat) (d : direction) : list edge :=
    match d with Forward => leaving rows v | Reverse => entering rows v end.
  Definition s_terminal (e : edge) (d : direction) : nat :=
    match d with Forward => e_dst e | Reverse => e_src e end.
  Definition s_triplet_ids (rows : list edge) (v : nat) (d : direction) : list (nat * nat * nat) :=
    map (fun e => (v, e_id e, s_terminal e d)) (s_incident rows v d).
  Definition s_triplet_attributes (rows : list edge) (vrows : list vertex) (v : nat) (d : direction)
    : res (list (vertex * edge * vertex)) :=
    mapM (fun e => do a <- s_vertex vrows v; do b <- s_vertex vrows (s_terminal e d); Ok (a, e, b))
         (s_incident rows v d).

  (* the hypotheses (documented input format: ids are row indices; a file is a header line plus one line per
     row; an explicit vertex count, when given, is the true one) and the condition the loader itself checks
     (every end point is a listed vertex) *)
  Definition ids_are_rows (rows : list edge) : Prop := map e_id rows = seq 0 (List.length rows).
  Definition vids_are_rows (vrows : list vertex) : Prop := map v_id vrows = seq 0 (List.length vrows).
  Definition ends_below (n : nat) (rows : list edge) : Prop :=
    Forall (fun e => e_src e < n /\ e_dst e < n) rows.
  (* the format part: everything except the end points *)
  Definition wf_format (f : files) (nv : option nat) : Prop :=
    ids_are_rows (f_edge_rows f) /\ vids_are_rows (f_vertex_rows f)
    /\ f_edge_lines f = S (List.length (f_edge_rows f))
    /\ f_vertex_lines f = S (List.length (f_vertex_rows f))
    /\ (nv = None \/ nv = Some (List.length (f_vertex_rows f))).
  Definition wf (f : files) (nv : option nat) : Prop :=
    wf_format f nv /\ ends_below (List.length (f_vertex_rows f)) (f_edge_rows f).

  (* the same, decidable (used by the runner to decide what the specification says about a case) *)
  Fixpoint nat_list_eqb (a b : list nat) : bool :=
    match a, b with
    | [], [] => true
    | x :: r, y :: s => Nat.eqb x y && nat_list_eqb r s
    | _, _ => false
    end.
  Definition formatb (f : files) (nv : option nat) : bool :=
    nat_list_eqb (map e_id (f_edge_rows f)) (seq 0 (List.length (f_edge_rows f)))
    && nat_list_eqb (map v_id (f_vertex_rows f)) (seq 0 (List.length (f_vertex_rows f)))
    && Nat.eqb (f_edge_lines f) (S (List.length (f_edge_rows f)))
    && Nat.eqb (f_vertex_lines f) (S (List.length (f_vertex_rows f)))
    && match nv with None => true | Some n => Nat.eqb n (List.length (f_vertex_rows f)) end.
  Definition endsb (n : nat) (rows : list edge) : bool :=
    forallb (fun e => Nat.ltb (e_src e) n && Nat.ltb (e_dst e) n) rows.
  Definition wfb (f : files) (nv : option nat) : bool :=
    formatb f nv && endsb (List.length (f_vertex_rows f)) (f_edge_rows f).
End Loader.

(* ---------------- per-edge tables: read_utils::read_raw_file ---------------- *)
(* lines().enumerate().map(|(idx, row)| op(idx, row)).collect::<Result<_, _>>(): element i of the table is
   the decoded i-th line (no header); the first line that does not decode fails the whole load.
   Tables with a header (EdgeHeading through from_csv) drop the first line first. *)
Section Tables.
  Context {L T : Type} (decode : nat -> L -> option T).
  Fixpoint read_from (i : nat) (lines : list L) : res (list T) :=
    match lines with
    | [] => Ok []
    | x :: r => match decode i x with
                | None => Err "InvalidData"
                | Some t => do ts <- read_from (S i) r; Ok (t :: ts)
                end
    end.
  Definition read_raw_file (lines : list L) : res (list T) := read_from 0 lines.
  Definition read_csv_with_header (lines : list L) : res (list T) := read_from 0 (tl lines).
  (* the lookup every model does: table[edge_id] *)
  Definition lookup (t : list T) (edge_id : nat) : option T := nth_error t edge_id.
End Tables.

Arguments edge : clear implicits.
Arguments vertex : clear implicits.
Arguments graph : clear implicits.
Arguments files : clear implicits.
Arguments lstate : clear implicits.
End LD.
