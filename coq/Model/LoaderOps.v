(* Executable model of the read-back API of the application:
     routee-compass/src/app/search/search_app_graph_ops.rs   SearchAppGraphOps for SearchApp
       get_edge_origin / get_edge_destination / get_edge_distance(edge, Option<DistanceUnit>) /
       get_incident_edge_ids(vertex, direction)
   (what the graph_* functions of CompassAppBindings call).  The graph is the one of Model/Loader.v; edge lengths
   are stored in meters (the edge file's distance column) and converted with DistanceUnit::convert (Model/Units.v,
   table generated from the source) FROM meters TO the requested unit.  Definitions only. *)
From Coq Require Import List String.
From RC Require Import Base.Num Base.Res Model.CompactMap Model.Loader Model.Units.
Import ListNotations.

Module LO.
Section Ops.
  Context {N : Num} {C : Type}.
  Notation graph := (LD.graph N C).

  Definition get_edge_origin (g : graph) (e : nat) : res nat := LD.src_vertex_id g e.
  Definition get_edge_destination (g : graph) (e : nat) : res nat := LD.dst_vertex_id g e.
  (* the conversion applied to the stored length *)
  Definition in_unit (u : option Units.dist_unit) (meters : N) : N :=
    match u with
    | Some du => Units.convert_distance N Units.Meters du meters
    | None => meters
    end.
  Definition get_edge_distance (g : graph) (e : nat) (u : option Units.dist_unit) : res N :=
    rmap (fun ed => in_unit u (LD.e_dist ed)) (LD.get_edge g e).
  Definition get_incident_edge_ids (g : graph) (v : nat) (d : LD.direction) : list nat :=
    LD.incident_edges g v d.
End Ops.
End LO.
