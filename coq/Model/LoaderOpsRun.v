(* Runner of the C15 stream `graphops`: the read-back API (SearchAppGraphOps) on an application built from
   generated edge / vertex files.
     M   line_gm   origins / destinations / incident edge ids from the loader model's graph
     S   line_gs   the same read off the FILE rows (find / filter)
     MD  line_gdm  get_edge_distance for every edge id x {no unit, every DistanceUnit}: model on binary64 (bit exact)
     VD  line_gdv  verdict on the IMPLEMENTATION's distances (embedded in the term) against the FILE rows: the
                   distance column is meters; no unit / meters must return it exactly, any other unit must be
                   within 0.1 % of meters / (exact SI metres per unit); an id that is not a row must be an error *)
From Coq Require Import ZArith QArith Qabs String List Bool Floats Arith.
From RC Require Import Base.Show Base.Num Base.Res Model.CompactMap Model.Loader Model.Units Model.UnitsRun Model.LoaderOps.
Import ListNotations.
Open Scope string_scope.

Definition fedges (l : list (nat * nat * nat * float)) : list (LD.edge float) :=
  map (fun r => let '(i, s, d, x) := r in LD.mkEdge i s d x) l.
Definition uvertices (n : nat) : list (LD.vertex unit) := map (fun i => LD.mkVertex i tt tt) (seq 0 n).
Definition opt_units : list (option Units.dist_unit) := None :: map Some Units.all_dist.

Definition srr {A} (f : A -> string) (r : res A) : string :=
  match r with Ok a => f a | Err c => "!" ++ c | Panic _ => "!Panic" | OutOfFuel => "!Hang" end.

Definition show_topo (ne nv : nat) (og ds : nat -> res nat) (inc : nat -> LD.direction -> list nat) : string :=
  let es := seq 0 (ne + 2) in
  let vs := seq 0 (nv + 2) in
  "og=" ++ show_list (fun i => srr show_nat (og i)) es
  ++ " ds=" ++ show_list (fun i => srr show_nat (ds i)) es
  ++ " if=" ++ show_list (fun v => show_list show_nat (inc v LD.Forward)) vs
  ++ " ir=" ++ show_list (fun v => show_list show_nat (inc v LD.Reverse)) vs.

Definition load_g (erows : list (nat * nat * nat * float)) (nv : nat) (ne_opt nv_opt : option nat)
  : res (LD.graph float unit) :=
  LD.graph_from_files (LD.mkFiles (S (List.length erows)) (fedges erows) (S nv) (uvertices nv)) ne_opt nv_opt.

Definition line_gm (id : Z) (erows : list (nat * nat * nat * float)) (nv : nat) (ne_opt nv_opt : option nat) : string :=
  line "M" id (srr (fun g => show_topo (List.length erows) nv
                                  (LO.get_edge_origin (N := FN) g) (LO.get_edge_destination (N := FN) g)
                                  (LO.get_incident_edge_ids (N := FN) g))
                   (load_g erows nv ne_opt nv_opt)).
Definition line_gs (id : Z) (erows : list (nat * nat * nat * float)) (nv : nat) (ne_opt nv_opt : option nat) : string :=
  let rows := fedges erows in
  line "S" id (show_topo (List.length erows) nv
                 (fun i => rmap LD.e_src (LD.s_edge rows i)) (fun i => rmap LD.e_dst (LD.s_edge rows i))
                 (fun v d => map LD.e_id (LD.s_incident rows v d))).

Definition line_gdm (id : Z) (erows : list (nat * nat * nat * float)) (nv : nat) (ne_opt nv_opt : option nat) : string :=
  line "MD" id (srr (fun g => show_list (fun i => show_list (fun u => srr show_float (LO.get_edge_distance (N := FN) g i u)) opt_units)
                                        (seq 0 (List.length erows + 2)))
                    (load_g erows nv ne_opt nv_opt)).

(* ---- the verdict on the implementation's distances ---- *)
Local Open Scope Q_scope.
Definition dist_ok (u : option Units.dist_unit) (meters : Q) (got : option float) : bool :=
  match got with
  | None => false
  | Some f =>
      match UnitsRun.Q_of_float f with
      | None => false
      | Some q =>
          match u with
          | None | Some Units.Meters => Qeq_bool q meters
          | Some du => let want := meters / UnitsRun.si_distance du in
                       Qle_bool (Qabs (q - want)) (UnitsRun.tol * Qabs want)
          end
      end
  end.
Definition unit_label (u : option Units.dist_unit) : string :=
  match u with None => "none" | Some du => Units.dist_name du end.
Definition edge_verdict (i : nat) (row : option (LD.edge float)) (outs : list (option float)) : list string :=
  match row with
  | None => if forallb (fun o => match o with None => true | Some _ => false end) outs && Nat.eqb (List.length outs) 6
            then [] else ["edge " ++ show_nat i ++ " is not listed but has a distance"]
  | Some e =>
      match UnitsRun.Q_of_float (LD.e_dist e) with
      | None => []
      | Some m =>
          if negb (Nat.eqb (List.length outs) 6) then ["edge " ++ show_nat i ++ ": wrong number of answers"] else
          flat_map (fun uo => if dist_ok (fst uo) m (snd uo) then []
                              else ["edge " ++ show_nat i ++ " (" ++ show_float (LD.e_dist e) ++ " m) in "
                                    ++ unit_label (fst uo) ++ " = " ++ show_option show_float (snd uo)])
                   (combine opt_units outs)
      end
  end.
Definition line_gdv (id : Z) (erows : list (nat * nat * nat * float)) (outs : list (list (option float))) : string :=
  let rows := fedges erows in
  let ids := seq 0 (List.length erows + 2) in
  line "VD" id
    (if negb (Nat.eqb (List.length outs) (List.length ids)) then "FAIL wrong number of edges answered" else
     match flat_map (fun io => edge_verdict (fst io)
                                 (match LD.s_edge rows (fst io) with Ok e => Some e | _ => None end) (snd io))
                    (combine ids outs) with
     | [] => "ok"
     | bad => "FAIL " ++ join "; " (firstn 4 bad)
     end).
