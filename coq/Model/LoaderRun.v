(* Runner of the C15 correspondence streams.
   Stream `files`: one case = the decoded rows of an edge file and of a vertex file, their line counts and
   the optional explicit counts.  [line_m] loads them with the loader model (LD.graph_from_files, adjacency
   in the CompactOrderedHashMap model) and prints every accessor of the resulting Graph; [line_s] prints the
   same observations computed directly from the rows by the specification functions (find / filter on the
   row lists: no loader, no container); "!DatasetError" when an end point is not a listed vertex (the load
   must fail); "unspecified" when the case is outside the documented format LD.wf_format.
   Both go through the same printer [show_view]; only the sources of the observations differ.
   Stream `tables`: per-edge tables.
   Distances are printed as integers (the harness writes values k/4 and compares 4x); coordinates enter as
   exact decimals (digits, k) and are rounded to binary32 by [round_b32]. *)
From Coq Require Import ZArith List String Bool Arith.
From RC Require Import Base.Show Base.Res Model.CompactMap Model.Loader.
Import ListNotations.
Open Scope string_scope.

Notation edge := (LD.edge Z).
(* a coordinate is carried as the canonical text of the binary32 value the decimal of the file denotes *)
Notation vertex := (LD.vertex string).
Notation graph := (LD.graph Z string).

(* ---- decimal text -> binary32, exactly ----
   "each vertex has the listed coordinates": the coordinate written as the decimal digits * 10^(-k) is
   loaded as the NEAREST binary32 value, ties to even (what str::parse::<f32> specifies).  Computed here in
   exact integer arithmetic; this function is part of the specification (trusted, small, and cross-checked on
   every run against the implementation's parse on the unchanged tree: I = S).  Range: finite non-overflowing
   values (|x| < 2^127), subnormals included. *)
Definition round_b32 (digits k : Z) : bool * Z * Z :=       (* (negative, m, e): value = +-m * 2^e *)
  let neg := Z.ltb digits 0 in
  let a := Z.abs digits in
  let d := (10 ^ k)%Z in
  if Z.eqb a 0 then (neg, 0%Z, 0%Z) else
  let e1 := (Z.log2 a - Z.log2 d - 24)%Z in
  let q e := if Z.leb 0 e then (a / (d * 2 ^ e))%Z else ((a * 2 ^ (- e)) / d)%Z in
  let e2 := if Z.leb (2 ^ 24) (q e1) then (e1 + 1)%Z else e1 in
  let e := Z.max e2 (-149) in
  let N := if Z.leb 0 e then a else (a * 2 ^ (- e))%Z in
  let Dn := if Z.leb 0 e then (d * 2 ^ e)%Z else d in
  let m := (N / Dn)%Z in
  let r := (N mod Dn)%Z in
  let m' := if Z.ltb Dn (2 * r) then (m + 1)%Z
            else if Z.eqb (2 * r) Dn then (if Z.odd m then m + 1 else m)%Z else m in
  (neg, m', e).

(* printed as the harness prints an f32 widened to f64: 4x the value when that is an integer, else
   f<sign><53-bit mantissa>p<exponent> *)
Definition show_b32 (v : bool * Z * Z) : string :=
  let '(neg, m, e) := v in
  if Z.eqb m 0 then "0" else
  let sgn := if neg then "-" else "" in
  let e4 := (e + 2)%Z in
  if Z.leb 0 e4 then sgn ++ show_Z (m * 2 ^ e4)
  else if Z.eqb (m mod 2 ^ (- e4)) 0 then sgn ++ show_Z (m / 2 ^ (- e4))
  else let s := (52 - Z.log2 m)%Z in
       "f" ++ (if neg then "-" else "+") ++ show_Z (m * 2 ^ s) ++ "p" ++ show_Z (e - s).
Definition coord (c : Z * Z) : string := show_b32 (round_b32 (fst c) (snd c)).

Definition mk_edges (l : list (nat * nat * nat * Z)) : list edge :=
  map (fun r => let '(i, s, d, x) := r in LD.mkEdge i s d x) l.
Definition mk_vertices (l : list (nat * (Z * Z) * (Z * Z))) : list vertex :=
  map (fun r => let '(i, x, y) := r in LD.mkVertex i (coord x) (coord y)) l.

(* ---- printers ---- *)
Definition show_edge (e : edge) : string :=
  show_nat (LD.e_id e) ++ ":" ++ show_nat (LD.e_src e) ++ ">" ++ show_nat (LD.e_dst e)
  ++ "@" ++ show_Z (LD.e_dist e).
Definition show_vertex (v : vertex) : string :=
  show_nat (LD.v_id v) ++ "(" ++ LD.v_x v ++ "," ++ LD.v_y v ++ ")".
Definition sr {A} (f : A -> string) (r : res A) : string :=
  match r with
  | Ok a => f a
  | Err c => "!" ++ c
  | Panic _ => "!Panic"
  | OutOfFuel => "!Hang"
  end.
Definition show_vev (t : vertex * edge * vertex) : string :=
  let '(a, e, b) := t in show_vertex a ++ "-" ++ show_edge e ++ "-" ++ show_vertex b.
Definition show_ids (t : nat * nat * nat) : string :=
  let '(a, e, b) := t in show_nat a ++ "-" ++ show_nat e ++ "-" ++ show_nat b.
Definition show_kv (sep : string) (p : nat * nat) : string := show_nat (fst p) ++ sep ++ show_nat (snd p).

(* ---- what is observed of a loaded graph ---- *)
Record view := mkView {
  w_ne : nat; w_nv : nat; w_al : nat; w_rl : nat;
  w_edge : nat -> res edge; w_vertex : nat -> res vertex;
  w_out : nat -> list nat; w_in : nat -> list nat;
  w_adjv : nat -> list (nat * nat); w_revv : nat -> list (nat * nat);
  w_adjg : nat -> list (nat * option nat); w_revg : nat -> list (nat * option nat);
  w_deg : nat -> nat * nat;
  w_src : nat -> res nat; w_dst : nat -> res nat;
  w_tri : nat -> res (vertex * edge * vertex);
  w_inc : nat -> LD.direction -> list nat;
  w_incv : nat -> LD.direction -> res nat;
  w_tids : nat -> LD.direction -> res (list (nat * nat * nat));
  w_tattr : nat -> LD.direction -> res (list (vertex * edge * vertex));
  w_same : bool                 (* adj and rev describe the same set of (edge, src, dst) *)
}.

Definition show_view (w : view) : string :=
  let es := seq 0 (w_ne w + 2) in
  let vs := seq 0 (w_nv w + 2) in
  let avs := seq 0 (Nat.max (w_nv w) (Nat.max (w_al w) (w_rl w)) + 2) in
  "ne=" ++ show_nat (w_ne w) ++ " nv=" ++ show_nat (w_nv w)
  ++ " al=" ++ show_nat (w_al w) ++ " rl=" ++ show_nat (w_rl w)
  ++ " E=" ++ show_list (fun i => sr show_edge (w_edge w i)) es
  ++ " V=" ++ show_list (fun i => sr show_vertex (w_vertex w i)) vs
  ++ " out=" ++ show_list (fun v => show_list show_nat (w_out w v)) avs
  ++ " in=" ++ show_list (fun v => show_list show_nat (w_in w v)) avs
  ++ " adj=" ++ show_list (fun v => show_list (show_kv ">") (w_adjv w v)) avs
  ++ " rev=" ++ show_list (fun v => show_list (show_kv "<") (w_revv w v)) avs
  ++ " ag=" ++ show_list (fun v => show_list (fun p => show_nat (fst p) ++ ">" ++ show_option show_nat (snd p)) (w_adjg w v)) avs
  ++ " rg=" ++ show_list (fun v => show_list (fun p => show_nat (fst p) ++ "<" ++ show_option show_nat (snd p)) (w_revg w v)) avs
  ++ " deg=" ++ show_list (fun v => show_kv "/" (w_deg w v)) avs
  ++ " sd=" ++ show_list (fun i => sr show_nat (w_src w i) ++ ">" ++ sr show_nat (w_dst w i)) es
  ++ " iv=" ++ show_list (fun i => sr show_nat (w_incv w i LD.Forward) ++ "/" ++ sr show_nat (w_incv w i LD.Reverse)) es
  ++ " tri=" ++ show_list (fun i => sr show_vev (w_tri w i)) es
  ++ " if=" ++ show_list (fun v => show_list show_nat (w_inc w v LD.Forward)) avs
  ++ " ir=" ++ show_list (fun v => show_list show_nat (w_inc w v LD.Reverse)) avs
  ++ " tf=" ++ show_list (fun v => sr (show_list show_ids) (w_tids w v LD.Forward)) avs
  ++ " tr=" ++ show_list (fun v => sr (show_list show_ids) (w_tids w v LD.Reverse)) avs
  ++ " af=" ++ show_list (fun v => sr (show_list show_vev) (w_tattr w v LD.Forward)) avs
  ++ " ar=" ++ show_list (fun v => sr (show_list show_vev) (w_tattr w v LD.Reverse)) avs
  ++ " same=" ++ show_bool (w_same w).

(* set comparison of two triple lists: equal length and mutual inclusion *)
Definition t_eqb (a b : nat * nat * nat) : bool :=
  let '(a1, a2, a3) := a in let '(b1, b2, b3) := b in Nat.eqb a1 b1 && Nat.eqb a2 b2 && Nat.eqb a3 b3.
Definition same_set (l1 l2 : list (nat * nat * nat)) : bool :=
  Nat.eqb (List.length l1) (List.length l2)
  && forallb (fun t => existsb (t_eqb t) l2) l1 && forallb (fun t => existsb (t_eqb t) l1) l2.

(* the model: every observation is an accessor of the loaded Graph *)
Definition view_of_graph (g : graph) : view :=
  mkView (LD.n_edges g) (LD.n_vertices g) (List.length (LD.adj g)) (List.length (LD.rev g))
    (LD.get_edge g) (LD.get_vertex g) (LD.out_edges g) (LD.in_edges g) (LD.adj_view g) (LD.rev_view g)
    (LD.get_view (LD.adj g)) (LD.get_view (LD.rev g))
    (fun v => (LD.len_view (LD.adj g) v, LD.len_view (LD.rev g) v))
    (LD.src_vertex_id g) (LD.dst_vertex_id g) (LD.edge_triplet g)
    (LD.incident_edges g) (LD.incident_vertex g) (LD.incident_triplet_ids g) (LD.incident_triplet_attributes g)
    (same_set (LD.triples_adj g) (LD.triples_rev g)).

(* the specification: every observation is read off the row lists *)
Definition view_of_rows (erows : list edge) (vrows : list vertex) : view :=
  let n := List.length vrows in
  mkView (List.length erows) n n n
    (LD.s_edge erows) (LD.s_vertex vrows) (LD.s_out erows) (LD.s_in erows)
    (LD.s_adj_view erows) (LD.s_rev_view erows)
    (fun v => map (fun p => (fst p, Some (snd p))) (LD.s_adj_view erows v))
    (fun v => map (fun p => (fst p, Some (snd p))) (LD.s_rev_view erows v))
    (fun v => (List.length (LD.leaving erows v), List.length (LD.entering erows v)))
    (fun i => rmap LD.e_src (LD.s_edge erows i)) (fun i => rmap LD.e_dst (LD.s_edge erows i))
    (LD.s_triplet erows vrows)
    (fun v d => map LD.e_id (LD.s_incident erows v d))
    (fun i d => rmap (fun e => LD.s_terminal e d) (LD.s_edge erows i))
    (fun v d => Ok (LD.s_triplet_ids erows v d))
    (LD.s_triplet_attributes erows vrows)
    true.

Definition mk_files (erows : list (nat * nat * nat * Z)) (vrows : list (nat * (Z * Z) * (Z * Z))) (elines vlines : nat)
  : LD.files Z string := LD.mkFiles elines (mk_edges erows) vlines (mk_vertices vrows).

Definition line_m (id : Z) (erows : list (nat * nat * nat * Z)) (vrows : list (nat * (Z * Z) * (Z * Z)))
    (elines vlines : nat) (ne nv : option nat) : string :=
  line "M" id (sr (fun g => show_view (view_of_graph g))
                  (LD.graph_from_files (mk_files erows vrows elines vlines) ne nv)).

Definition line_s (id : Z) (erows : list (nat * nat * nat * Z)) (vrows : list (nat * (Z * Z) * (Z * Z)))
    (elines vlines : nat) (ne nv : option nat) : string :=
  let f := mk_files erows vrows elines vlines in
  line "S" id (if LD.formatb f nv
               then if LD.endsb (List.length vrows) (mk_edges erows)
                    then show_view (view_of_rows (mk_edges erows) (mk_vertices vrows))
                    else "!DatasetError"   (* an edge list that references a vertex that is not listed must not load *)
               else "unspecified").

(* ---- stream `tables` ---- *)
(* a table line is Some value (4x the number written) or None (a line the decoder rejects) *)
Definition dec (_ : nat) (l : option Z) : option Z := l.
Definition show_table (r : res (list Z)) : string := sr (show_list show_Z) r.
Definition line_tm (id : Z) (header : bool) (lines : list (option Z)) : string :=
  line "M" id (show_table (if header then LD.read_csv_with_header dec lines else LD.read_raw_file dec lines)).
(* specification: row i of the table belongs to edge i -- the values in file order; a table with a line
   that is not a value must be rejected (whatever table a load returned for it would be shifted, shortened
   or invented, i.e. not aligned with the edge ids) *)
Fixpoint all_some (l : list (option Z)) : option (list Z) :=
  match l with
  | [] => Some []
  | None :: _ => None
  | Some x :: r => option_map (cons x) (all_some r)
  end.
Definition line_ts (id : Z) (header : bool) (lines : list (option Z)) : string :=
  line "S" id (match all_some (if header then tl lines else lines) with
               | Some vals => show_list show_Z vals
               | None => "!InvalidData"
               end).
