(* Executable model of the two map-matching input plugins.  Definitions only; proofs are in
   Proofs/MapMatch*.v.

     routee-compass/src/plugin/input/default/vertex_rtree/plugin.rs      RTreePlugin::process, validate_tolerance
     routee-compass/src/plugin/input/default/edge_rtree/edge_rtree_input_plugin.rs
                                                                         EdgeRtreeInputPlugin::process, search,
                                                                         within_tolerance, matching_error
     routee-compass/src/plugin/input/default/edge_rtree/edge_rtree_record.rs   PointDistance::distance_2
     routee-compass/src/plugin/input/input_json_extensions.rs            get_origin_coordinate,
                                                                         get_destination_coordinate, add_*_vertex/edge
     routee-compass-core/src/util/geo/haversine.rs                       range checks of haversine_distance_meters
     .../frontier_model/road_class/road_class_parser.rs                  RoadClassParser::read_query

   What is NOT modelled but taken as a parameter (a [Section] variable):
     gc       the great-circle distance in metres (f32 haversine, transcendental functions): an oracle whose
              values the harness supplies per case from the real function;
     nn       RTree::nearest_neighbor       -- specified ([nn_spec]: returns a minimiser of the squared
     nn_iter  RTree::nearest_neighbor_iter     coordinate distance / iterates nearest first), never modelled;
              [scan_nearest] / [sort_nearest] are executable instances (first minimiser, stable sort);
     truck_ok the per-edge result of `restrictions.iter().all(|r| r.valid(params))` under the query's
              vehicle parameters (VehicleRestriction::valid is C04's arithmetic): a boolean table computed by
              the harness through the real functions.

   Coordinates are exact rationals.  The code computes dx*dx + dy*dy in f32; on the harness's grid (multiples
   of 1/16 degree, |dx|,|dy| < 256 degrees with (16dx)^2 + (16dy)^2 < 2^24) that arithmetic is exact, so the
   f32 ranking is the rational ranking.  The tolerance test is generic in [N : Num] (binary64 for execution
   next to the code, Q in the theorems). *)
From Coq Require Import ZArith QArith List String Bool Floats Sorting.Sorted Sorting.Permutation.
From RC Require Import Base.Show Base.Res Base.Num Base.Json Model.Units.
Import ListNotations.

Module MM.
Import Units.
Local Open Scope string_scope.

Definition point := (Q * Q)%type.
Record cand := mkCand { cid : Z; cpt : point }.       (* vertex id / edge id, reference point *)

(* PointDistance::distance_2:  dx = self.x - point.x; dy = self.y - point.y; dx*dx + dy*dy *)
Definition d2 (c q : point) : Q :=
  ((fst c - fst q) * (fst c - fst q) + (snd c - snd q) * (snd c - snd q))%Q.

(* ---- what rstar is specified to do ---- *)
Definition minimal_in (q : point) (l : list cand) (c : cand) : Prop :=
  In c l /\ forall c', In c' l -> (d2 (cpt c) q <= d2 (cpt c') q)%Q.
Definition nn_spec (nn : point -> list cand -> option cand) : Prop :=
  forall q l, match nn q l with
              | None => l = []
              | Some c => minimal_in q l c
              end.
Definition nearer (q : point) (a b : cand) : Prop := (d2 (cpt a) q <= d2 (cpt b) q)%Q.
Definition iter_spec (nn_iter : point -> list cand -> list cand) : Prop :=
  forall q l, Permutation (nn_iter q l) l /\ StronglySorted (nearer q) (nn_iter q l).

(* executable instances: first minimiser of a linear scan; stable insertion sort by d2 *)
Fixpoint scan_nearest (q : point) (l : list cand) : option cand :=
  match l with
  | [] => None
  | c :: r => match scan_nearest q r with
              | None => Some c
              | Some b => if Qle_bool (d2 (cpt c) q) (d2 (cpt b) q) then Some c else Some b
              end
  end.
Fixpoint insert_by (q : point) (c : cand) (l : list cand) : list cand :=
  match l with
  | [] => [c]
  | x :: r => if Qle_bool (d2 (cpt c) q) (d2 (cpt x) q) then c :: x :: r else x :: insert_by q c r
  end.
Definition sort_nearest (q : point) (l : list cand) : list cand := fold_right (insert_by q) [] l.

(* ---- the exhaustive scan (specification side) ---- *)
Definition qmin (a b : Q) : Q := if Qle_bool a b then a else b.
Fixpoint min_d2 (q : point) (l : list cand) : option Q :=
  match l with
  | [] => None
  | c :: r => match min_d2 q r with
              | None => Some (d2 (cpt c) q)
              | Some m => Some (qmin (d2 (cpt c) q) m)
              end
  end.
Definition minimisers (q : point) (l : list cand) : list cand :=
  match min_d2 q l with
  | None => []
  | Some m => filter (fun c => Qeq_bool (d2 (cpt c) q) m) l
  end.

(* ---- error classes (InputPluginError variants; the field is part of the class) ---- *)
Definition e_failed := "InputPluginFailed".
Definition e_missing (f : string) := "MissingExpectedQueryField:" ++ f.
Definition e_pair (a b : string) := "MissingQueryFieldPair:" ++ a ++ "," ++ b.
Definition e_type (f : string) := "QueryFieldHasInvalidType:" ++ f.
Definition e_structure := "UnexpectedQueryStructure".

Definition k_origin_vertex := "origin_vertex".
Definition k_destination_vertex := "destination_vertex".
Definition k_origin_edge := "origin_edge".
Definition k_destination_edge := "destination_edge".

(* ---- input_json_extensions.rs ---- *)
(* exact value of a finite binary64 (reduced: the runner computes with it) *)
Definition Q_of_float (f : float) : option Q :=
  match Prim2SF f with
  | S754_zero _ => Some 0%Q
  | S754_finite s m e =>
      let v := Qred (inject_Z (Zpos m) * Qpower 2 e)%Q in Some (if s then Qopp v else v)
  | _ => None
  end.
(* Value::as_f64 followed by `as f32`: integers and floats are numbers, everything else is not.
   [fq] is the exact value of a JSON float; it is a parameter so that no theorem depends on the primitive float
   operations (the runner instantiates it with [Q_of_float]).  The cast to f32 is the identity on the values
   the harness generates (multiples of 1/16). *)
Section Accessors.
  Variable fq : float -> option Q.
  Definition json_num (j : json) : option Q :=
    match j with
    | JInt z => Some (inject_Z z)
    | JFloat f => fq f
    | _ => None
    end.
  Definition get_num (q : json) (k : string) : res Q :=
    match jget q k with
    | None => Err (e_missing k)
    | Some j => match json_num j with None => Err (e_type k) | Some x => Ok x end
    end.
  Definition get_origin_coordinate (q : json) : res point :=
    do x <- get_num q "origin_x";
    do y <- get_num q "origin_y";
    Ok (x, y).
  Definition get_destination_coordinate (q : json) : res (option point) :=
    match jget q "destination_x", jget q "destination_y" with
    | None, None => Ok None
    | None, Some _ => Err (e_pair "destination_y" "destination_x")
    | Some _, None => Err (e_pair "destination_x" "destination_y")
    | Some jx, Some jy =>
        match json_num jx with
        | None => Err (e_type "destination_x")
        | Some x => match json_num jy with
                    | None => Err (e_type "destination_y")
                    | Some y => Ok (Some (x, y))
                    end
        end
    end.
End Accessors.
(* add_origin_vertex / add_destination_vertex / add_origin_edge / add_destination_edge *)
Definition set_field (q : json) (k : string) (v : json) : res json :=
  match q with
  | JObj m => Ok (JObj (oset m k v))
  | _ => Err e_structure
  end.

(* process(&mut query) mutates the query in place: the state at the moment of an error is what the
   caller packages into the error response. [finish st r]: final state and result. *)
Definition finish (st : json) (r : res json) : json * res unit :=
  match r with
  | Ok j => (j, Ok tt)
  | Err c => (st, Err c)
  | Panic w => (st, Panic w)
  | OutOfFuel => (st, OutOfFuel)
  end.

(* ---- haversine.rs: the range checks are modelled, the value is the oracle ---- *)
Definition in_lon (x : Q) : bool := Qle_bool (-180) x && Qle_bool x 180.
Definition in_lat (y : Q) : bool := Qle_bool (-90) y && Qle_bool y 90.
Definition in_range (p : point) : bool := in_lon (fst p) && in_lat (snd p).

(* RoadClassParser::read_query; every error is mapped to InputPluginFailed by the plugin *)
Fixpoint parse_u8_set (l : list json) : option (list Z) :=
  match l with
  | [] => Some []
  | JInt z :: r => if (0 <=? z)%Z && (z <=? 255)%Z
                   then option_map (cons z) (parse_u8_set r) else None
  | _ :: _ => None
  end.
Fixpoint parse_str_set (l : list json) : option (list string) :=
  match l with
  | [] => Some []
  | JStr s :: r => option_map (cons s) (parse_str_set r)
  | _ :: _ => None
  end.
Fixpoint assoc_str (m : list (string * Z)) (s : string) : option Z :=
  match m with
  | [] => None
  | (k, v) :: r => if String.eqb k s then Some v else assoc_str r s
  end.
Fixpoint map_classes (m : list (string * Z)) (l : list string) : option (list Z) :=
  match l with
  | [] => Some []
  | s :: r => match assoc_str m s with
              | None => None
              | Some z => option_map (cons z) (map_classes m r)
              end
  end.
Definition read_query (mapping : list (string * Z)) (query : json) : res (option (list Z)) :=
  match jget query "road_classes" with
  | None => Ok None
  | Some v =>
      match (match v with JArr l => parse_u8_set l | _ => None end) with
      | Some s => Ok (Some s)
      | None =>
          match mapping with
          | [] => Err e_failed
          | _ => match (match v with JArr l => parse_str_set l | _ => None end) with
                 | None => Err e_failed
                 | Some ss => match map_classes mapping ss with
                              | None => Err e_failed
                              | Some s => Ok (Some s)
                              end
                 end
          end
      end
  end.

(* `valid_class` of edge_rtree_input_plugin::search *)
Definition valid_class (rcq : option (list Z)) (lookup : option (list Z)) (c : cand) : res bool :=
  match rcq, lookup with
  | Some s, Some l =>
      match (if (cid c <? 0)%Z then None else nth_error l (Z.to_nat (cid c))) with
      | None => Err e_failed
      | Some k => Ok (existsb (Z.eqb k) s)
      end
  | _, _ => Ok true
  end.

Section Matcher.
  Variable N : Num.
  Variable fq : float -> option Q.                           (* exact value of a JSON float *)
  Variable gc : point -> point -> N.                         (* haversine oracle, metres *)
  Variable nn : point -> list cand -> option cand.           (* RTree::nearest_neighbor *)
  Variable nn_iter : point -> list cand -> list cand.        (* RTree::nearest_neighbor_iter *)

  (* the plugins' `tolerance` field as built by `new` *)
  Definition mk_tolerance (t : option N) (u : option dist_unit) : option (N * dist_unit) :=
    match t, u with
    | None, _ => None
    | Some t, None => Some (t, base_distance_unit)
    | Some t, Some u => Some (t, u)
    end.

  (* haversine::coord_distance_meters: Err(String) when a coordinate is out of range *)
  Definition hav (src dst : point) : res N :=
    if in_lon (fst src) && in_lon (fst dst) && in_lat (snd src) && in_lat (snd dst)
    then Ok (gc src dst) else Err e_failed.

  (* vertex_rtree::validate_tolerance:
       distance = Meters.convert(distance_meters, unit);  if distance > tolerance { Err } else { Ok }
     (a nearest vertex exactly AT the tolerance is accepted, as in the edge matcher) *)
  Definition validate_tolerance (src dst : point) (tol : option (N * dist_unit)) : res unit :=
    match tol with
    | None => Ok tt
    | Some (t, u) =>
        do dm <- hav src dst;
        if ltb t (convert_distance N Meters u dm) then Err e_failed else Ok tt
    end.

  (* edge_rtree::within_tolerance:
       tolerance_meters = unit.convert(tolerance, Meters);  distance_meters <= tolerance_meters *)
  Definition within_tolerance (tol : option (N * dist_unit)) (dm : N) : bool :=
    match tol with
    | None => true
    | Some (t, u) => leb dm (convert_distance N u Meters t)
    end.

  (* ---------------- vertex matcher ---------------- *)
  Section Vertex.
    Variable vs : list cand.
    Variable tol : option (N * dist_unit).

    Definition match_vertex (p : point) : res cand :=
      match nn p vs with
      | None => Err e_failed
      | Some v => do _ <- validate_tolerance p (cpt v) tol; Ok v
      end.

    Definition vertex_origin (query : json) : res (json * option point) :=
      do src <- get_origin_coordinate fq query;
      do dst <- get_destination_coordinate fq query;
      do v <- match_vertex src;
      do q1 <- set_field query k_origin_vertex (JInt (cid v));
      Ok (q1, dst).
    Definition vertex_destination (q1 : json) (dst : option point) : res json :=
      match dst with
      | None => Ok q1
      | Some d => do w <- match_vertex d; set_field q1 k_destination_vertex (JInt (cid w))
      end.
    Definition vertex_process (query : json) : json * res unit :=
      match vertex_origin query with
      | Ok (q1, dst) => finish q1 (vertex_destination q1 dst)
      | Err c => (query, Err c)
      | Panic w => (query, Panic w)
      | OutOfFuel => (query, OutOfFuel)
      end.
  End Vertex.

  (* ---------------- edge matcher ---------------- *)
  Section Edge.
    Variable es : list cand.                        (* edge id = row index, point = centroid (geo) *)
    Variable tol : option (N * dist_unit).
    Variable mapping : list (string * Z).           (* RoadClassParser mapping *)
    Variable lookup : option (list Z).              (* road class file *)
    Variable truck_ok : cand -> bool.               (* vehicle restrictions under the query's parameters *)

    (* the first admissible record decides: without a tolerance it is the match (no distance is computed);
       with one, its great-circle distance is tested *)
    Definition decide (p : point) (c : cand) : res (option cand) :=
      match tol with
      | None => Ok (Some c)
      | Some _ => do dm <- hav p (cpt c);
                  Ok (if within_tolerance tol dm then Some c else None)
      end.
    (* the body of `for record in rtree.nearest_neighbor_iter(&point)` *)
    Fixpoint scan (rcq : option (list Z)) (p : point) (l : list cand) : res (option cand) :=
      match l with
      | [] => Ok None
      | c :: r =>
          do vc <- valid_class rcq lookup c;
          if vc && truck_ok c then decide p c else scan rcq p r
      end.
    Definition search (rcq : option (list Z)) (p : point) : res (option cand) :=
      scan rcq p (nn_iter p es).
    (* search(..)?.ok_or_else(matching_error) *)
    Definition match_edge (rcq : option (list Z)) (p : point) : res cand :=
      do r <- search rcq p;
      match r with None => Err e_failed | Some e => Ok e end.

    Definition edge_run (query : json) : res json :=
      do rcq <- read_query mapping query;
      do src <- get_origin_coordinate fq query;
      do dst <- get_destination_coordinate fq query;
      do s <- match_edge rcq src;
      do dopt <- match dst with
                 | None => Ok None
                 | Some d => do e <- match_edge rcq d; Ok (Some e)
                 end;
      do q1 <- set_field query k_origin_edge (JInt (cid s));
      match dopt with
      | None => Ok q1
      | Some e => set_field q1 k_destination_edge (JInt (cid e))
      end.
    Definition edge_process (query : json) : json * res unit := finish query (edge_run query).
  End Edge.
End Matcher.

(* ---- specification vocabulary ---- *)
(* metres per unit, exact SI definitions (international mile / foot / inch) *)
Definition si_m (u : dist_unit) : Q :=
  match u with
  | Meters => 1 | Kilometers => 1000 | Miles => 1609344 # 1000 | Inches => 254 # 10000 | Feet => 3048 # 10000
  end%Q.
(* the tolerance in metres *)
Definition tol_m (t : Q) (u : dist_unit) : Q := (t * si_m u)%Q.
(* the conversion constants of the code are decimal approximations of the SI factors: a distance is
   "beyond" / "strictly within" the tolerance when it is so by more than this relative band (the worst
   constant, Meters->Miles 0.0006215040398, is off by 2.2e-4) *)
Definition unit_band : Q := (1 # 2000)%Q.
Definition beyond (t : Q) (u : dist_unit) (d : Q) : Prop := (tol_m t u * (1 + unit_band) < d)%Q.
Definition within (t : Q) (u : dist_unit) (d : Q) : Prop := (d < tol_m t u * (1 - unit_band))%Q.

(* every other field: the object without the four keys the matchers write *)
Definition is_match_key (k : string) : bool :=
  String.eqb k k_origin_vertex || String.eqb k k_destination_vertex
  || String.eqb k k_origin_edge || String.eqb k k_destination_edge.
Definition others (j : json) : json :=
  match j with
  | JObj m => JObj (filter (fun kv => negb (is_match_key (fst kv))) m)
  | _ => j
  end.

End MM.
