(* Runner for the C16 correspondence streams (`vertex`, `edge`).

   M line: the model of Model/MapMatch.v executed on the case -- tolerance arithmetic in binary64 ([FN]),
           great-circle distances looked up in the per-case table the harness filled from the real haversine
           function, rstar instantiated by the first-minimiser scan / stable sort.
   S line: the specification computed independently by an exhaustive scan in exact rationals: the set of
           (admissible) candidates at minimal squared coordinate distance, the tolerance in metres by the SI
           factor of its unit; coordinates in [-180,180] x [-90,90] INCLUSIVE are valid; a tolerance in Meters is
           decided exactly, equality included (d <= tol matches, in both matchers, see [spec_point]);
           "unspecified" when, in another unit, the distance is within the relative band [unit_band] of the
           tolerance (the property leaves the boundary open), when a coordinate is outside the haversine range
           with a tolerance configured, or when the case is compared by id and the minimiser is not unique.
   Payload: `Ok <query after>` or `Err <class> <query after>`.  In by-distance mode (tie cases) the matched ids
           in the query are replaced by the squared coordinate distance of that candidate to the coordinate. *)
From Coq Require Import ZArith QArith List String Bool Floats.
From RC Require Import Base.Show Base.Res Base.Num Base.Json Model.Units Model.MapMatch.
Import ListNotations.

Module MMRun.
Import Units MM.
Local Open Scope string_scope.

(* ---- the oracle table ---- *)
Definition pt_eqb (a b : point) : bool := Qeq_bool (fst a) (fst b) && Qeq_bool (snd a) (snd b).
Definition gctable := list ((point * point) * float).
Fixpoint gc_lookup (t : gctable) (a b : point) : float :=
  match t with
  | [] => PrimFloat.nan
  | ((a', b'), d) :: r => if pt_eqb a a' && pt_eqb b b' then d else gc_lookup r a b
  end.
Definition gc_lookup_q (t : gctable) (a b : point) : Q :=
  match Q_of_float (gc_lookup t a b) with Some q => q | None => (-1)%Q end.
Definition tol_q (t : option float) (u : option dist_unit) : option (Q * dist_unit) :=
  match mk_tolerance FN t u with
  | None => None
  | Some (f, u) => match Q_of_float f with Some q => Some (q, u) | None => None end
  end.
Definition truck_table := list (Z * bool).
Fixpoint truck_lookup (t : truck_table) (c : cand) : bool :=
  match t with
  | [] => true
  | (i, b) :: r => if Z.eqb i (cid c) then b else truck_lookup r c
  end.

(* ---- printing ---- *)
Definition coord_of (r : res point) : option point := match r with Ok p => Some p | _ => None end.
Definition dcoord_of (r : res (option point)) : option point := match r with Ok (Some p) => Some p | _ => None end.
Definition dist_json (c p : point) : json := JStr (show_Q (d2 c p)).
Definition mask_key (cands : list cand) (pt : option point) (key : string) (j : json) : json :=
  match j, pt with
  | JObj m, Some p =>
      match oget m key with
      | Some (JInt i) =>
          match find (fun c => Z.eqb (cid c) i) cands with
          | Some c => JObj (oset m key (dist_json (cpt c) p))
          | None => j
          end
      | _ => j
      end
  | _, _ => j
  end.
Definition mask (bydist : bool) (cands : list cand) (query : json) (ko kd : string) (j : json) : json :=
  if bydist
  then mask_key cands (dcoord_of (get_destination_coordinate Q_of_float query)) kd
         (mask_key cands (coord_of (get_origin_coordinate Q_of_float query)) ko j)
  else j.
Definition payload_ok (j : json) : string := "Ok " ++ show_json j.
Definition payload_err (c : string) (j : json) : string := "Err " ++ c ++ " " ++ show_json j.
Definition payload (out : json * res unit) (f : json -> json) : string :=
  match snd out with
  | Ok _ => payload_ok (f (fst out))
  | Err c => payload_err c (f (fst out))
  | Panic _ => "Panic"
  | OutOfFuel => "Hang"
  end.

(* ---- M lines ---- *)
Definition run_vertex (vs : list cand) (tolt : option float) (tolu : option dist_unit) (gct : gctable)
                      (query : json) : json * res unit :=
  vertex_process FN Q_of_float (gc_lookup gct) scan_nearest vs (mk_tolerance FN tolt tolu) query.
Definition line_vm (id : Z) (vs : list cand) (tolt : option float) (tolu : option dist_unit) (gct : gctable)
                   (bydist : bool) (query : json) : string :=
  line "M" id (payload (run_vertex vs tolt tolu gct query)
                       (mask bydist vs query k_origin_vertex k_destination_vertex)).

Definition run_edge (es : list cand) (tolt : option float) (tolu : option dist_unit) (gct : gctable)
                    (mapping : list (string * Z)) (lookup : option (list Z)) (truck : truck_table)
                    (query : json) : json * res unit :=
  edge_process FN Q_of_float (gc_lookup gct) sort_nearest es (mk_tolerance FN tolt tolu) mapping lookup
               (truck_lookup truck) query.
Definition line_em (id : Z) (es : list cand) (tolt : option float) (tolu : option dist_unit) (gct : gctable)
                   (mapping : list (string * Z)) (lookup : option (list Z)) (truck : truck_table)
                   (bydist : bool) (query : json) : string :=
  line "M" id (payload (run_edge es tolt tolu gct mapping lookup truck query)
                       (mask bydist es query k_origin_edge k_destination_edge)).

(* ---- S lines: exhaustive scan in exact arithmetic ---- *)
Inductive sres := SOk (v : json) | SErr | SUnspec.

(* [incl]: the convention AT the tolerance: "within tolerance always matches" - a distance EQUAL to the tolerance
   is a match (d <= tol), for both matchers (both callers pass true; the flag is kept so the other reading can be
   evaluated).  It is decided exactly when the tolerance is in Meters (no conversion, no rounding); in the other
   units the relative band around the SI tolerance stays unspecified. *)
Definition spec_point (incl : bool) (bydist : bool) (tol : option (Q * dist_unit)) (gcq : point -> point -> Q)
                      (cands : list cand) (p : point) : sres :=
  match minimisers p cands with
  | [] => SErr
  | c0 :: rest =>
      let ms := c0 :: rest in
      let pick := if bydist then SOk (dist_json (cpt c0) p)
                  else match rest with [] => SOk (JInt (cid c0)) | _ => SUnspec end in
      match tol with
      | None => pick
      | Some (t, u) =>
          (* not a WGS84 coordinate with a tolerance configured: haversine refuses it, the property is silent *)
          if negb (in_range p && forallb (fun c => in_range (cpt c)) ms) then SUnspec
          else
            let ds := map (fun c => gcq p (cpt c)) ms in
            match u with
            | Meters =>
                let ok := fun d => if incl then Qle_bool d t else Qltb d t in
                if forallb ok ds then pick
                else if forallb (fun d => negb (ok d)) ds then SErr
                else SUnspec
            | _ =>
                if forallb (fun d => Qltb d (tol_m t u * (1 - unit_band))%Q) ds then pick
                else if forallb (fun d => Qltb (tol_m t u * (1 + unit_band))%Q d) ds then SErr
                else SUnspec
            end
      end
  end.

Definition unspecified := "unspecified".
(* [mst]: the state of the query the model reports (only used to fill the payload of an Err) *)
Definition spec_process (match_pt : point -> sres) (ko kd : string) (mst : json) (query : json) : string :=
  match get_origin_coordinate Q_of_float query with
  | Ok src =>
      match get_destination_coordinate Q_of_float query with
      | Ok dst =>
          match match_pt src, query with
          | SUnspec, _ => unspecified
          | SErr, _ => payload_err e_failed mst
          | SOk a, JObj m =>
              match dst with
              | None => payload_ok (JObj (oset m ko a))
              | Some d =>
                  match match_pt d with
                  | SUnspec => unspecified
                  | SErr => payload_err e_failed mst
                  | SOk b => payload_ok (JObj (oset (oset m ko a) kd b))
                  end
              end
          | SOk _, _ => unspecified
          end
      | Err c => payload_err c mst
      | _ => unspecified
      end
  | Err c => payload_err c mst
  | _ => unspecified
  end.

Definition line_vs (id : Z) (vs : list cand) (tolt : option float) (tolu : option dist_unit) (gct : gctable)
                   (bydist : bool) (query : json) : string :=
  let mst := mask bydist vs query k_origin_vertex k_destination_vertex (fst (run_vertex vs tolt tolu gct query)) in
  line "S" id (spec_process (spec_point true bydist (tol_q tolt tolu) (gc_lookup_q gct) vs)
                            k_origin_vertex k_destination_vertex mst query).

Definition spec_adm (rcq : option (list Z)) (lookup : option (list Z)) (truck : truck_table) (c : cand) : bool :=
  match valid_class rcq lookup c with Ok b => b && truck_lookup truck c | _ => false end.
Definition line_es (id : Z) (es : list cand) (tolt : option float) (tolu : option dist_unit) (gct : gctable)
                   (mapping : list (string * Z)) (lookup : option (list Z)) (truck : truck_table)
                   (bydist : bool) (query : json) : string :=
  let mst := mask bydist es query k_origin_edge k_destination_edge
                  (fst (run_edge es tolt tolu gct mapping lookup truck query)) in
  line "S" id
    (match read_query mapping query with
     | Ok rcq =>
         spec_process (spec_point true bydist (tol_q tolt tolu) (gc_lookup_q gct) (filter (spec_adm rcq lookup truck) es))
                      k_origin_edge k_destination_edge mst query
     | Err c => payload_err c mst
     | _ => unspecified
     end).

(* ---- sequences: several queries processed one after the other by ONE plugin instance.  The plugins are
        stateless, so model and specification judge every query on its own (history-free); the payload is
        the per-query payloads joined by " | ".  One unspecified element makes the S line unspecified. ---- *)
Definition line_payload (l : string) : string := snd (split_space (snd (split_space l))).
Definition seq_line (tag : string) (id : Z) (parts : list string) : string :=
  line tag id (if existsb (String.eqb unspecified) parts then unspecified else join " | " parts).

Definition vstep := ((gctable * bool) * json)%type.                       (* oracle table, by-distance, query *)
Definition line_vm_seq (id : Z) (vs : list cand) (tolt : option float) (tolu : option dist_unit)
                       (steps : list vstep) : string :=
  seq_line "M" id (map (fun st => line_payload (line_vm id vs tolt tolu (fst (fst st)) (snd (fst st)) (snd st))) steps).
Definition line_vs_seq (id : Z) (vs : list cand) (tolt : option float) (tolu : option dist_unit)
                       (steps : list vstep) : string :=
  seq_line "S" id (map (fun st => line_payload (line_vs id vs tolt tolu (fst (fst st)) (snd (fst st)) (snd st))) steps).

Definition estep := (((gctable * truck_table) * bool) * json)%type.       (* oracle, vehicle verdicts, by-distance, query *)
Definition line_em_seq (id : Z) (es : list cand) (tolt : option float) (tolu : option dist_unit)
                       (mapping : list (string * Z)) (lookup : option (list Z)) (steps : list estep) : string :=
  seq_line "M" id (map (fun st => line_payload (line_em id es tolt tolu (fst (fst (fst st))) mapping lookup
                                                          (snd (fst (fst st))) (snd (fst st)) (snd st))) steps).
Definition line_es_seq (id : Z) (es : list cand) (tolt : option float) (tolu : option dist_unit)
                       (mapping : list (string * Z)) (lookup : option (list Z)) (steps : list estep) : string :=
  seq_line "S" id (map (fun st => line_payload (line_es id es tolt tolu (fst (fst (fst st))) mapping lookup
                                                          (snd (fst (fst st))) (snd (fst st)) (snd st))) steps).

(* ---- stages: the files of a case are rewritten in place and a new plugin is built from the same paths; every
        stage is an independent run of model / specification on the contents at its build time.  The argument
        is the list of the stages' complete lines. ---- *)
Definition stages_line (tag : string) (id : Z) (ls : list string) : string :=
  let parts := map line_payload ls in
  line tag id (if existsb (String.eqb unspecified) parts then unspecified else join " || " parts).

(* convenience for the case files *)
Definition C (i : Z) (x y : Q) : cand := mkCand i (x, y).
End MMRun.
