(* Model of routee_compass_core::util::multiset::MultiSet (rust/routee-compass-core/src/util/
   multiset.rs, CURRENT code: after "fix: degenerate grid_search sections no longer hang or
   panic").  Definitions only, no proofs.

   struct MultiSet { sets: &Vec<Vec<T>>, pos: Option<Vec<usize>>, final_pos: Vec<usize> }
   The fields are private and the only constructor is `From<&Vec<Vec<T>>>`, so every state has
   |pos| = |final_pos| = |sets|; the model relies on that (the loop of `next` runs over
   0..sets.len() and indexes next_pos / final_pos with the same idx). *)
From Coq Require Import List Arith Bool String.
From RC Require Import Base.Res.
Import ListNotations.

Module MS.
Section Defs.
  Context {A : Type}.

  Record t := mk { sets : list (list A); pos : option (list nat); final_pos : list nat }.

  Definition is_nil {B} (l : list B) : bool := match l with [] => true | _ => false end.

  (* fn from(sets):
       final_pos = sets.iter().map(|v| v.len().saturating_sub(1)).collect();
       pos = if sets.iter().any(|v| v.is_empty()) { None } else { Some(vec![0; sets.len()]) } *)
  Definition from (ss : list (list A)) : t :=
    mk ss
       (if existsb is_nil ss then None else Some (repeat 0 (List.length ss)))
       (map (fun v => List.length v - 1) ss).

  (* position.iter().zip(0..self.sets.len()).map(|(j, i)| self.sets[i][*j]).collect()
     (indexing panics when out of bounds; zip stops at the shorter side) *)
  Fixpoint pick_all (ss : list (list A)) (p : list nat) : res (list A) :=
    match p, ss with
    | j :: p', s :: ss' =>
        match nth_error s j with
        | Some a => do r <- pick_all ss' p'; Ok (a :: r)
        | None => Panic "index out of bounds"
        end
    | _, _ => Ok []
    end.

  (* The `for idx in 0..self.sets.len()` loop of `next`, entered at index idx with
     p = next_pos[idx..] and f = final_pos[idx..]; whenever idx > 0 is reached, the previous
     iteration took the third branch and zeroed next_pos[0..idx], hence the `0 ::` on the way
     back.  None = `finished = true`; Some q = the new next_pos[idx..] with finished = false.
        if next_pos[idx] < final_pos[idx] { next_pos[idx] += 1; break }
        else if idx == sets.len() - 1     { finished = true; break }
        else { for r in next_pos.iter_mut().take(idx + 1) { *r = 0 } }
     (for the empty family the body never runs: finished stays false, next_pos unchanged) *)
  Fixpoint tick (p f : list nat) : option (list nat) :=
    match p, f with
    | x :: p', fx :: f' =>
        if x <? fx then Some (S x :: p')
        else match p' with
             | [] => None
             | _ :: _ => match tick p' f' with
                         | Some q => Some (0 :: q)
                         | None => None
                         end
             end
    | _, _ => Some p
    end.

  (* Iterator::next: the produced item (None = exhausted) and the successor state *)
  Definition next (m : t) : res (option (list A) * t) :=
    match pos m with
    | None => Ok (None, m)
    | Some position =>
        do result <- pick_all (sets m) position;
        let new_pos :=
          match tick position (final_pos m) with
          | None => None                                        (* finished *)
          | Some np => if is_nil (sets m) then None else Some np  (* `|| self.sets.is_empty()` *)
          end in
        Ok (Some result, mk (sets m) new_pos (final_pos m))
    end.

  (* `.into_iter().collect()`: call next until it returns None.  The loop has no syntactic
     bound, hence fuel; Proofs/MultiSet.v shows that any fuel above the product of the set
     sizes is enough (OutOfFuel excluded for every family of sets). *)
  Fixpoint collect (fuel : nat) (m : t) : res (list (list A)) :=
    match fuel with
    | 0 => OutOfFuel
    | S k =>
        do r <- next m;
        match r with
        | (None, _) => Ok []
        | (Some x, m') => do rest <- collect k m'; Ok (x :: rest)
        end
    end.

  Definition total (ss : list (list A)) : nat := fold_right (fun s acc => List.length s * acc) 1 ss.

  Definition to_vec (ss : list (list A)) : res (list (list A)) := collect (S (total ss)) (from ss).
End Defs.
Arguments t : clear implicits.

(* ---- specification side (no reference to next / tick) ---- *)

(* Cartesian product of the sets, first set varying fastest *)
Fixpoint product {A} (ss : list (list A)) : list (list A) :=
  match ss with
  | [] => [[]]
  | s :: r => flat_map (fun tl => map (fun x => x :: tl) s) (product r)
  end.

(* the textbook product, first set varying slowest *)
Fixpoint product_be {A} (ss : list (list A)) : list (list A) :=
  match ss with
  | [] => [[]]
  | s :: r => flat_map (fun x => map (fun tl => x :: tl) (product_be r)) s
  end.

(* index vectors: the product of 0..n1-1, ..., 0..nm-1 *)
Definition index_sets (dims : list nat) : list (list nat) := map (seq 0) dims.
Definition size (dims : list nat) : nat := fold_right Nat.mul 1 dims.
(* p is a valid index vector for dims *)
Definition in_range (dims p : list nat) : Prop := Forall2 (fun n x => x < n) dims p.
End MS.
