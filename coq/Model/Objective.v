(* C02: the objective a query is searched under.  Faithful transcription, definitions only, generic in [N : Num]
   (QN in theorems, FN for bit-exact execution next to the Rust code).

     model/state/state_model.rs                 StateModel::add_distance / add_time           -> add_distance, add_time
     model/traversal/default/distance_traversal_model.rs   traverse_edge, estimate_traversal  -> d_traverse, d_estimate
     model/traversal/default/speed_traversal_model.rs      traverse_edge, estimate_traversal  -> s_traverse, s_estimate
     model/traversal/default/speed_traversal_engine.rs     get_max_speed, SpeedTraversalEngine::new
                                                                                               -> get_max_speed, s_engine
     algorithm/search/search_instance.rs        SearchInstance::estimate_traversal_cost  (x weight factor, as in
                                                a_star_algorithm.rs)                           -> estimate_cost
     algorithm/search/edge_traversal.rs         EdgeTraversal::{forward,reverse}_traversal with NoAccessModel
                                                                                               -> edge_step
     algorithm/search/search_algorithm.rs       which weight factor is in force               -> effective_weight_factor
     app/compass/config/cost_model/cost_model_service.rs   which weights / rates / aggregation are in force
                                                (the transcription of `build` itself is Cost.service_build)
                                                                                               -> effective

   Unit conversions and Time::create come from Model/Units.v, the cost model from Model/Cost.v.
   The great-circle distance (util/geo/haversine.rs, f32 trigonometry) is NOT modelled: every function below takes
   the distance in meters between the two vertices as an argument ([gcm]); the correspondence stream supplies the
   implementation's own value, the theorems quantify over an oracle [gc].

   State vectors are lists in state-model order; a traversal model writes the slots of the features named
   "distance" and "time" ([*_slot]), stored in the feature's own unit ([*_funit]). *)
From Coq Require Import ZArith List String Bool.
From RC Require Import Base.Num Base.Res Model.Units Model.Cost.
Import ListNotations.

Module Objective.
Import Units Cost.
Local Open Scope string_scope.

Section Model.
  Variable N : Num.

  (* StateModel::update_state on a known feature: replace slot i by f (old value) *)
  Fixpoint upd (st : list N) (i : nat) (f : N -> N) : res (list N) :=
    match st, i with
    | [], _ => Err "StateIndexOutOfBounds"
    | a :: r, O => Ok (f a :: r)
    | a :: r, S j => do r' <- upd r j f; Ok (a :: r')
    end.

  (* StateModel::add_distance(state, name, distance, from_unit):
       feature_unit = unit of the feature; prev = get_distance(state, name, feature_unit)   [feature_unit -> feature_unit]
       next = prev + from_unit.convert(distance, feature_unit); set_distance(state, name, next, feature_unit) *)
  Definition add_distance (st : list N) (slot : nat) (fu from : dist_unit) (x : N) : res (list N) :=
    upd st slot (fun a => convert_distance N fu fu (add (convert_distance N fu fu a) (convert_distance N from fu x))).
  Definition add_time (st : list N) (slot : nat) (fu from : time_unit) (x : N) : res (list N) :=
    upd st slot (fun a => convert_time N fu fu (add (convert_time N fu fu a) (convert_time N from fu x))).

  (* ---- DistanceTraversalModel ---- *)
  Record dmodel := mkD { dm_unit : dist_unit; dm_slot : nat; dm_funit : dist_unit }.
  (* traverse_edge: BASE_DISTANCE_UNIT.convert(edge.distance, self.distance_unit); add_distance *)
  Definition d_traverse (m : dmodel) (len_m : N) (st : list N) : res (list N) :=
    add_distance st (dm_slot m) (dm_funit m) (dm_unit m) (convert_distance N base_distance_unit (dm_unit m) len_m).
  (* estimate_traversal: haversine::coord_distance = DistanceUnit::Meters.convert(meters, self.distance_unit); add_distance *)
  Definition d_estimate (m : dmodel) (gcm : N) (st : list N) : res (list N) :=
    add_distance st (dm_slot m) (dm_funit m) (dm_unit m) (convert_distance N Meters (dm_unit m) gcm).

  (* ---- SpeedTraversalEngine / SpeedTraversalModel ---- *)
  (* get_max_speed: fold (Speed::ZERO, 0) (if acc_max > row then acc_max else row); Err when empty or when the maximum is zero *)
  Definition get_max_speed (tbl : list N) : res N :=
    let m := fold_left (fun acc row => if ltb row acc then acc else row) tbl zero in
    if Nat.eqb (List.length tbl) 0 then Err "BuildError"
    else if eqb m zero then Err "BuildError" else Ok m.

  Record smodel := mkSm {
    sm_speeds : list N; sm_su : speed_unit; sm_du : dist_unit; sm_tu : time_unit; sm_max : N;
    sm_dslot : nat; sm_dfunit : dist_unit; sm_tslot : nat; sm_tfunit : time_unit
  }.
  (* SpeedTraversalEngine::new (units default to the base units), placed in a state model *)
  Definition s_engine (tbl : list N) (su : speed_unit) (du : option dist_unit) (tu : option time_unit)
             (dslot : nat) (dfunit : dist_unit) (tslot : nat) (tfunit : time_unit) : res smodel :=
    do mx <- get_max_speed tbl;
    Ok (mkSm tbl su (match du with Some u => u | None => base_distance_unit end)
             (match tu with Some u => u | None => base_time_unit end) mx dslot dfunit tslot tfunit).

  (* traverse_edge: distance in the engine's unit; speed = table[edge id]; Time::create; add_time; add_distance *)
  Definition s_traverse (m : smodel) (e : nat) (len_m : N) (st : list N) : res (list N) :=
    let distance := convert_distance N base_distance_unit (sm_du m) len_m in
    match nth_error (sm_speeds m) e with
    | None => Err "TraversalModelFailure"
    | Some speed =>
        do t <- create_time N speed (sm_su m) distance (sm_du m) (sm_tu m);
        do st1 <- add_time st (sm_tslot m) (sm_tfunit m) (sm_tu m) t;
        add_distance st1 (sm_dslot m) (sm_dfunit m) (sm_du m) distance
    end.
  (* estimate_traversal: great-circle distance in the engine's unit; nothing when it is zero; time at max_speed *)
  Definition s_estimate (m : smodel) (gcm : N) (st : list N) : res (list N) :=
    let distance := convert_distance N Meters (sm_du m) gcm in
    if eqb distance zero then Ok st
    else
      do t <- create_time N (sm_max m) (sm_su m) distance (sm_du m) (sm_tu m);
      do st1 <- add_time st (sm_tslot m) (sm_tfunit m) (sm_tu m) t;
      add_distance st1 (sm_dslot m) (sm_dfunit m) (sm_du m) distance.

  Inductive tmodel := TDistance (m : dmodel) | TSpeed (m : smodel).
  Definition t_traverse (tm : tmodel) (e : nat) (len_m : N) (st : list N) : res (list N) :=
    match tm with TDistance m => d_traverse m len_m st | TSpeed m => s_traverse m e len_m st end.
  Definition t_estimate (tm : tmodel) (gcm : N) (st : list N) : res (list N) :=
    match tm with TDistance m => d_estimate m gcm st | TSpeed m => s_estimate m gcm st end.

  (* ---- SearchInstance::estimate_traversal_cost, times the weight factor (run_a_star) ---- *)
  Definition estimate_cost (cm : cost_model N) (tm : tmodel) (wf : N) (gcm : N) (st : list N) : res N :=
    do dst <- t_estimate tm gcm st;
    do c <- cost_estimate N cm st dst;
    Ok (mul c wf).

  (* ---- EdgeTraversal::{forward,reverse}_traversal with NoAccessModel (the state after "access" is the state
          before): (access cost, traversal cost, result state) ---- *)
  Definition edge_step (cm : cost_model N) (tm : tmodel) (d : direction) (e : nat) (prev : option nat)
             (len_m : N) (st : list N) : res (N * N * list N) :=
    do st' <- t_traverse tm e len_m st;
    do r <- edge_traversal N cm (Z.of_nat e) (option_map Z.of_nat prev) d st st st';
    Ok (fst r, snd r, st').

  (* ---- SearchAlgorithm::run_vertex_oriented: the query's "weight_factor" replaces the configured one (Dijkstra is
          A-star configured with Some 0); run_a_star uses 1 when there is none ---- *)
  Inductive algorithm := Dijkstra | AStar (wf : option N).
  Definition effective_weight_factor (a : algorithm) (query_wf : option N) : N :=
    match query_wf with
    | Some w => w
    | None => match a with
              | Dijkstra => zero
              | AStar (Some w) => w
              | AStar None => one
              end
    end.
End Model.
Arguments mkSm {N}. Arguments sm_speeds {N}. Arguments sm_su {N}. Arguments sm_du {N}. Arguments sm_tu {N}.
Arguments sm_max {N}. Arguments sm_dslot {N}. Arguments sm_dfunit {N}. Arguments sm_tslot {N}. Arguments sm_tfunit {N}.
Arguments TDistance {N} m. Arguments TSpeed {N} m.
Arguments Dijkstra {N}. Arguments AStar {N} wf.

(* CostModelService::build: a value given in the query replaces the configured one *)
Definition effective {A} (query : option A) (configured : A) : A :=
  match query with Some x => x | None => configured end.

End Objective.
