(* Runner for the C02 correspondence streams (counterpart of harness/src/bin/c02.rs).  Definitions only; the
   soundness of the certificate checker used by the S lines is proved in Proofs/OptimalCheck.v.

   stream `opt`  (table-driven worlds of Model/SearchRun.v, real search code, table costs)
     line_M   the model's run (SR.run over FN): route edge list + its cost re-computed from the RAW cost table in Q,
              or the per-vertex labels of the tree; TIE when the run popped among equal priorities
     line_S   the verified optimality check on the IMPLEMENTATION's route: the route is a permitted walk from
              origin to destination AND its table cost equals the potential of the destination, where the potentials
              (Bellman-Ford over Q, computed here) are verified to be feasible (so they are lower bounds of every
              walk: Proofs/OptimalCheck.v).  Prints the implementation's line back when it accepts.
   stream `real` (real traversal / cost models of the repository)
     rline_M  the objective model (Model/Objective.v + Cost.service_build over FN): cost of every edge traversed
              alone and the weighted estimate from every vertex to the target, bit for bit
     rline_S  the same certificate check on the routes Dijkstra and A-star returned, over the per-edge costs of the
              OBJECTIVE MODEL (model_costs: the objective in force by the specification), tolerance 1e-9 relative;
              plus edge-locality, admissibility of the implementation's estimates, and max_speed = table maximum *)
From Coq Require Import ZArith QArith Qround List Arith Bool String Floats.
From stdpp Require Import gmap.
From RC Require Import Base.Show Base.Res Base.Num Model.Units Model.Cost Model.Objective.
From RC Require Import Model.Search Model.SearchSpec Model.SearchRun.
Import ListNotations.
Local Open Scope string_scope.

Module OR.
Import RC.Model.Search.Search SearchSpec.

(* ---------------------------------------------------------------- exact values of doubles *)
Definition Q_of_float (f : float) : Q :=
  match Prim2SF f with
  | S754_finite s m e => Qred ((if s then (-1) else 1) * (Zpos m # 1) * Qpower 2 e)
  | _ => 0%Q
  end.

Fixpoint set_nth {A} (l : list A) (i : nat) (x : A) : list A :=
  match l, i with
  | [], _ => []
  | _ :: r, O => x :: r
  | a :: r, S j => a :: set_nth r j x
  end.

(* ---------------------------------------------------------------- certificates *)
(* arcs of the search graph in the search direction: (near vertex, far vertex, cost), permitted edges only *)
Definition arc := (nat * nat * Q)%type.
Fixpoint arcs_from (d : dir) (ok : nat -> bool) (c : nat -> Q) (es : list edge) (i : nat) : list arc :=
  match es with
  | [] => []
  | e :: r => if ok i then (term_vertex d e, key_vertex d e, c i) :: arcs_from d ok c r (S i)
              else arcs_from d ok c r (S i)
  end.
Definition arcs (g : graph) (d : dir) (ok : nat -> bool) (c : nat -> Q) : list arc := arcs_from d ok c (gedges g) 0.

Definition pot := list (option Q).
Definition pot_at (p : pot) (v : nat) : option Q := nth v p None.

(* Bellman-Ford over Q: an UNTRUSTED producer of potentials (its output is checked by [feasible]) *)
Definition bf_round (a : list arc) (p : pot) : pot :=
  fold_left (fun p x => let '(u, v, c) := x in
               match pot_at p u with
               | None => p
               | Some du => let cand := Qred (du + c) in
                            match pot_at p v with
                            | Some dv => if Qltb cand dv then set_nth p v (Some cand) else p
                            | None => set_nth p v (Some cand)
                            end
               end) a p.
Fixpoint bf_iter (k : nat) (a : list arc) (p : pot) : pot :=
  match k with O => p | S k' => bf_iter k' a (bf_round a p) end.
Definition bf (n : nat) (a : list arc) (s : nat) : pot := bf_iter n a (set_nth (repeat None n) s (Some 0%Q)).

(* the checked property of potentials: the origin is at most 0 and no arc is violated *)
Definition feasible (a : list arc) (s : nat) (p : pot) : bool :=
  match pot_at p s with Some x => Qle_bool x 0 | None => false end
  && forallb (fun x => let '(u, v, c) := x in
                match pot_at p u with
                | None => true
                | Some pu => match pot_at p v with Some pv => Qle_bool pv (pu + c) | None => false end
                end) a.

Definition cost_of (c : nat -> Q) (r : list nat) : Q := fold_left (fun a e => a + c e)%Q r 0%Q.
(* short text of a rational for messages: millionths, rounded down *)
Definition show_micro (q : Q) : string :=
  if Z.eqb (Qfloor (q * 1000000)) 0 && negb (Qeq_bool q 0)
  then show_Z (Qfloor (q * 1000000000000000000)) ++ "e-18"      (* costs far below one millionth *)
  else show_Z (Qfloor (q * 1000000)) ++ "e-6".

(* verdict on one returned route: None = accepted (optimal up to the relative tolerance tol) *)
Definition check_opt (g : graph) (d : dir) (ok : nat -> bool) (c : nat -> Q) (tol : Q) (s t : nat) (r : list nat)
  : option string :=
  let a := arcs g d ok c in
  let p := bf (nverts g) a s in
  if negb (walk_b g d s r t && forallb ok r) then Some "not-a-permitted-walk"
  else if negb (feasible a s p) then Some "certificate-rejected"
  else match pot_at p t with
       | None => Some "certificate-unreachable"
       | Some pt => if Qle_bool (cost_of c r) (pt * (1 + tol)) then None
                    else Some ("suboptimal:route=" ++ show_micro (cost_of c r) ++ ",min=" ++ show_micro pt)
       end.
(* verdict on "no path": accepted when the feasible potentials leave the destination unreachable *)
Definition check_nopath (g : graph) (d : dir) (ok : nat -> bool) (c : nat -> Q) (s t : nat) : option string :=
  let a := arcs g d ok c in
  let p := bf (nverts g) a s in
  if negb (feasible a s p) then Some "certificate-rejected"
  else match pot_at p t with None => None | Some pt => Some ("path-exists:min=" ++ show_micro pt) end.

(* ---------------------------------------------------------------- stream `opt` *)
Definition okw (w : SR.world FN) (e : nat) : bool := negb (SR.memn e (SR.w_forbid FN w)).
Definition cq_of (cq : list Q) (e : nat) : Q := nth e cq 0%Q.

(* the vertex pair a query is about, and the part of a route that is searched between them *)
Definition endpoints (w : SR.world FN) (q : SR.query FN) : option (nat * option nat) :=
  let g := SR.graph_of FN w in
  match SR.q_orient FN q with
  | SR.OVertex => Some (SR.q_source FN q, SR.q_target FN q)
  | SR.OEdge =>
      match get_edge g (SR.q_source FN q) with
      | None => None
      | Some e1 =>
          match SR.q_target FN q with
          | None => Some (key_vertex (SR.q_dir FN q) e1, None)
          | Some te => match get_edge g te with
                       | None => None
                       | Some e2 => Some (key_vertex (SR.q_dir FN q) e1, Some (term_vertex (SR.q_dir FN q) e2))
                       end
          end
      end
  end.
Definition inner (o : SR.orient) (r : list nat) : list nat :=
  match o with SR.OVertex => r | SR.OEdge => removelast (tl r) end.

Definition show_route (it : nat) (r : list nat) (c : Q) : string :=
  "Ok it=" ++ show_nat it ++ " r=" ++ show_list show_nat r ++ " c=" ++ show_Q c.
Definition show_labels (l : list (nat * Q)) : string :=
  "Ok labels=" ++ show_list (fun x => show_nat (fst x) ++ ":" ++ show_Q (snd x)) l.

(* payload of an outcome (the model's or the implementation's): route + its cost over the raw table, or labels *)
Definition payload (cq : list Q) (q : SR.query FN) (o : SR.outcome FN) : string :=
  if negb (String.eqb (SR.o_status FN o) "Ok") then SR.o_status FN o
  else match SR.q_target FN q with
       | Some _ =>
           match SR.o_routes FN o with
           | r :: _ => let es := SR.route_edges FN r in
                       show_route (SR.o_iters FN o) es (cost_of (cq_of cq) (inner (SR.q_orient FN q) es))
           | [] => "Ok noroute"
           end
       | None =>
           match SR.o_trees FN o with
           | t :: _ => show_labels (map (fun x => let '(v, _, _, _, _, st) := x in (v, Q_of_float st)) t)
           | [] => "Ok notree"
           end
       end.

Definition line_M (fuel : nat) (id : Z) (w : SR.world FN) (cq : list Q) (q : SR.query FN) : string :=
  line "M" id (if SR.has_tie FN fuel w q then "TIE" else payload cq q (SR.outcome_of FN (SR.run FN fuel w q))).

(* labels the potentials give to the vertices of the implementation's tree *)
Definition spec_labels (p : pot) (vs : list nat) : list (nat * Q) :=
  map (fun v => (v, match pot_at p v with Some x => Qred x | None => (-1)%Q end)) vs.

(* [claim] = false: the case is outside the property's hypothesis (inconsistent heuristic, factor > 1, ...):
   nothing is specified *)
Definition consistentb (w : SR.world FN) (cq hq : list Q) (d : dir) : bool :=
  forallb (fun x => let '(u, v, c) := x in Qle_bool (nth u hq 0%Q) (c + nth v hq 0%Q))
          (arcs (SR.graph_of FN w) d (okw w) (cq_of cq)).

Definition line_S (id : Z) (w : SR.world FN) (cq hq : list Q) (q : SR.query FN) (o : SR.outcome FN) (claim : bool) : string :=
  line "S" id
    (if negb claim then "unspecified" else
     (* the hypothesis of astar_optimal, re-checked on the tables: hq = weight factor x heuristic table *)
     if negb (consistentb w cq hq (SR.q_dir FN q)) then "GENERATOR-BUG(heuristic not consistent)" else
     let g := SR.graph_of FN w in
     let d := SR.q_dir FN q in
     match endpoints w q with
     | None => payload cq q o
     | Some (s, tgt) =>
         if String.eqb (SR.o_status FN o) "Ok" then
           match tgt with
           | Some t =>
               match SR.o_routes FN o with
               | r :: _ =>
                   let es := SR.route_edges FN r in
                   match check_opt g d (okw w) (cq_of cq) 0 s t (inner (SR.q_orient FN q) es) with
                   | None => payload cq q o
                   | Some why => "REJECT(" ++ why ++ ") r=" ++ show_list show_nat es
                   end
               | [] => "REJECT(no route)"
               end
           | None =>
               (* the tree: every label must be the potential of its vertex (orientation Vertex only) *)
               match SR.o_trees FN o with
               | t :: _ =>
                   let a := arcs g d (okw w) (cq_of cq) in
                   let p := bf (nverts g) a s in
                   if feasible a s p
                   then show_labels (spec_labels p (map (fun x => let '(v, _, _, _, _, _) := x in v) t))
                   else "REJECT(certificate-rejected)"
               | [] => payload cq q o
               end
           end
         else if String.eqb (SR.o_status FN o) "nopath" then
           match tgt with
           | Some t => match check_nopath g d (okw w) (cq_of cq) s t with
                       | None => "nopath"
                       | Some why => "REJECT(" ++ why ++ ")"
                       end
           | None => "nopath"
           end
         else payload cq q o
     end).

(* ---------------------------------------------------------------- stream `real` *)
Section Real.
  Variable N : Num.
  Context `{SR.ShowNum N}.

  Record rworld := mkRW {
    rw_names : list string;                       (* state model, in index order *)
    rw_init : list N;
    rw_tm : res (Objective.tmodel N);          (* Err: the engine could not be built *)
    rw_len : list N;                              (* Edge::distance *)
    rw_gct : list N;                              (* implementation's coord_distance_meters (v, target) *)
    rw_cfg_w : list (string * N); rw_cfg_v : list (string * Cost.vrate N); rw_cfg_n : list (string * Cost.nrate N);
    rw_cfg_a : Cost.agg; rw_ign : bool;
    rw_q_w : option (list (string * N)); rw_q_v : option (list (string * Cost.vrate N)); rw_q_a : option Cost.agg;
    rw_wf : N
  }.

  Definition rw_cm (w : rworld) : res (Cost.cost_model N) :=
    Cost.service_build N (rw_cfg_w w) (rw_cfg_v w) (rw_cfg_n w) (rw_cfg_a w) (rw_ign w) (rw_q_w w) (rw_q_v w) (rw_q_a w)
                       (rw_names w).

  Definition show_res_num (r : res N) : string :=
    match r with Ok x => SR.show_num x | Err c => "Err" | Panic _ => "Panic" | OutOfFuel => "Hang" end.

  (* EdgeTraversal::forward_traversal(e, None, initial state).total_cost() for every edge *)
  Definition mk_speed (tbl : list N) (su : Units.speed_unit) (du : option Units.dist_unit) (tu : option Units.time_unit)
             (dslot : nat) (dfunit : Units.dist_unit) (tslot : nat) (tfunit : Units.time_unit) : res (Objective.tmodel N) :=
    do m <- Objective.s_engine N tbl su du tu dslot dfunit tslot tfunit; Ok (Objective.TSpeed m).

  Definition edge_costs (w : rworld) (tm : Objective.tmodel N) (cm : Cost.cost_model N) : list (res N) :=
    map (fun x => let '(e, l) := x in
           do r <- Objective.edge_step N cm tm Cost.Forward e None l (rw_init w);
           let '(ac, tc, _) := r in Ok (Cost.enforce_strictly_positive N (add ac tc)))
        (combine (seq 0 (List.length (rw_len w))) (rw_len w)).
  (* estimate_traversal_cost(v, target, initial state) * weight factor for every vertex *)
  Definition estimates (w : rworld) (tm : Objective.tmodel N) (cm : Cost.cost_model N) : list (res N) :=
    map (fun gcm => Objective.estimate_cost N cm tm (rw_wf w) gcm (rw_init w)) (rw_gct w).

  (* edge-locality measured: the state after walking the first k edges of a route from the initial state
     (EdgeTraversal::forward_traversal, previous edge passed on), then the cost of edge e traversed from that state *)
  Fixpoint walk_state (w : rworld) (tm : Objective.tmodel N) (cm : Cost.cost_model N) (st : list N) (prev : option nat)
           (r : list nat) (k : nat) : res (list N) :=
    match k, r with
    | O, _ => Ok st
    | S k', e :: r' =>
        do x <- Objective.edge_step N cm tm Cost.Forward e prev (nth e (rw_len w) zero) st;
        let '(_, _, st') := x in walk_state w tm cm st' (Some e) r' k'
    | S _, [] => Ok st
    end.
  Definition loc_costs (w : rworld) (tm : Objective.tmodel N) (cm : Cost.cost_model N) (e : nat) (r : list nat)
             (ks : list nat) : list (res N) :=
    map (fun k => do st <- walk_state w tm cm (rw_init w) None r k;
                  do x <- Objective.edge_step N cm tm Cost.Forward e None (nth e (rw_len w) zero) st;
                  let '(ac, tc, _) := x in Ok (Cost.enforce_strictly_positive N (add ac tc))) ks.

  Definition rline_M (id : Z) (w : rworld) (loc_edge : nat) (loc_route loc_pos : list nat) : string :=
    line "M" id
      (match rw_tm w, rw_cm w with
       | Ok tm, Ok cm => "ec=" ++ show_list show_res_num (edge_costs w tm cm)
                         ++ " est=" ++ show_list show_res_num (estimates w tm cm)
                         ++ " loc=" ++ show_list show_res_num (loc_costs w tm cm loc_edge loc_route loc_pos)
                         (* SpeedTraversalEngine::max_speed: get_max_speed of the table *)
                         ++ " mx=" ++ match tm with
                                      | Objective.TSpeed m => SR.show_num (Objective.sm_max m)
                                      | Objective.TDistance _ => "-"
                                      end
       | _, _ => "build-error"
       end).
End Real.

(* one returned route: status and edge list *)
Definition rroute := (string * list nat)%type.
Definition show_rroute (tag : string) (r : rroute) (verdict : string) : string :=
  tag ++ "=" ++ (if String.eqb (fst r) "Ok" then show_list show_nat (snd r) ++ ":" ++ verdict else fst r).
Definition judge (g : graph) (d : dir) (c : nat -> Q) (tol : Q) (s t : nat) (r : rroute) : string :=
  if String.eqb (fst r) "Ok" then
    match check_opt g d (fun _ => true) c tol s t (snd r) with None => "OK" | Some why => why end
  else if String.eqb (fst r) "nopath" then
    match check_nopath g d (fun _ => true) c s t with None => "" | Some why => why end
  else "".
Definition show_judged (tag : string) (g : graph) (d : dir) (c : nat -> Q) (tol : Q) (s t : nat) (r : rroute) : string :=
  if String.eqb (fst r) "Ok" then show_rroute tag r (judge g d c tol s t r)
  else if String.eqb (fst r) "nopath" then
    (match judge g d c tol s t r with "" => tag ++ "=nopath" | why => tag ++ "=nopath:REJECT(" ++ why ++ ")" end)
  else tag ++ "=" ++ fst r.

(* spec-side per-edge costs are the exact values of the doubles the specification-side cost model produced *)
(* edge-locality on the implementation: the costs of ONE edge traversed from the states reached after 0, some and all
   hops of the returned route agree within the relative tolerance *)
Definition loc_verdict (tol : Q) (l : list Q) : string :=
  match l with
  | [] => "loc=OK"
  | x :: r =>
      let mx := fold_left (fun a b => if Qle_bool a b then b else a) r x in
      let mn := fold_left (fun a b => if Qle_bool a b then a else b) r x in
      if Qle_bool (mx - mn) (tol * mx) then "loc=OK"
      else "loc=NOT-EDGE-LOCAL(min=" ++ show_micro mn ++ ",max=" ++ show_micro mx ++ ")"
  end.

(* per-edge costs of the OBJECTIVE MODEL for the case (exact values of the model's doubles): the objective in force
   by the specification - Cost.service_build semantics for the query's overrides, sequential Combined rates, ... *)
Definition model_costs (w : rworld FN) : option (list Q) :=
  match rw_tm FN w, rw_cm FN w with
  | Ok tm, Ok cm =>
      (fix go (l : list (res float)) : option (list Q) :=
         match l with
         | [] => Some []
         | Ok x :: r => match go r with Some r' => Some (Q_of_float x :: r') | None => None end
         | _ :: _ => None
         end) (edge_costs FN w tm cm)
  | _, _ => None
  end.

Definition flip (d : dir) : dir := match d with Forward => Reverse | Reverse => Forward end.

(* admissibility measured: the implementation's weighted estimate of every vertex is at most the remaining cost to
   the target (feasible potentials of the reversed search from the target are lower bounds of it) *)
Definition adm_verdict (g : graph) (d : dir) (c : nat -> Q) (tol : Q) (t : nat) (est : list Q) : string :=
  let a := arcs g (flip d) (fun _ => true) c in
  let p := bf (nverts g) a t in
  if negb (feasible a t p) then "adm=certificate-rejected" else
  match find (fun x => match pot_at p (fst x) with
                       | Some rem => negb (Qle_bool (snd x) (rem * (1 + tol)))
                       | None => false
                       end) (combine (seq 0 (List.length est)) est) with
  | None => "adm=OK"
  | Some x => "adm=INADMISSIBLE(v=" ++ show_nat (fst x) ++ ",estimate=" ++ show_micro (snd x) ++ ",remaining="
              ++ show_micro (match pot_at p (fst x) with Some r => r | None => 0 end) ++ ")"
  end.

(* the engine's free-flow bound is the maximum of its speed table *)
Definition mx_verdict (mx : option Q) (tbl : list Q) : string :=
  match mx with
  | None => "mx=OK"
  | Some m =>
      let tm := fold_left (fun a b => if Qle_bool a b then b else a) tbl 0%Q in
      if Qeq_bool m tm then "mx=OK"
      else "mx=NOT-TABLE-MAX(engine=" ++ show_micro m ++ ",table=" ++ show_micro tm ++ ")"
  end.

Definition rline_S (id : Z) (w : rworld FN) (n : nat) (edges : list (nat * nat)) (d : dir) (s t : nat)
           (dj ast : rroute) (as_claim : bool) (loc est : list Q) (mx : option Q) (tbl : list Q) : string :=
  let g := mkGraph n (map (fun p => mkEdge (fst p) (snd p)) edges) in
  let tol := (1 # 1000000000)%Q in
  line "S" id
    (match model_costs w with
     | None => "model-cost-error"
     | Some costs =>
         let c := fun e => nth e costs 0%Q in
         show_judged "dj" g d c tol s t dj ++ " "
         ++ (if as_claim then show_judged "as" g d c tol s t ast else "as=noclaim")
         ++ " " ++ loc_verdict tol loc
         ++ " " ++ (if as_claim then adm_verdict g d c tol t est else "adm=noclaim")
         ++ " " ++ mx_verdict mx tbl ++ " seq=OK"
     end).

End OR.
