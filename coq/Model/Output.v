(* C20 -- model of the output side of routee-compass:
     routee-compass/src/plugin/output/default/traversal/plugin.rs
         TraversalPlugin::{from_file, process}, construct_route_output
     routee-compass/src/plugin/output/default/traversal/traversal_output_format.rs
         TraversalOutputFormat::{generate_route_output, generate_tree_output}
     routee-compass/src/plugin/output/default/traversal/traversal_ops.rs
         create_route_linestring, create_tree_multilinestring, create_route_geojson,
         create_tree_geojson, create_geojson_feature
     routee-compass-core/src/util/geo/geo_io_utils.rs   concat_linestrings, (parse_wkt_linestring)
     routee-compass-core/src/util/fs/read_utils.rs      read_raw_file (row-by-row, first error aborts)
     routee-compass/src/plugin/output/default/uuid/{plugin.rs, output_json_extensions.rs}
         UUIDOutputPlugin::{from_file, process}, get_od_vertex_ids (the identifier file is modelled
         from its raw text: line splitting as BufRead::lines, no row dropped or trimmed)
     routee-compass/src/plugin/output/default/summary/plugin.rs   SummaryOutputPlugin::process
     routee-compass/src/app/compass/compass_app.rs      apply_output_processing
     routee-compass/src/plugin/output/output_plugin_ops.rs  create_initial_output, package_error

   Definitions only, no proofs.  The property is structural: coordinates [C] and the numbers of
   an edge traversal [N] (costs, state variables) are opaque type parameters.  The encoders
   (wkt / wkb / geojson / serde_json text) are not modelled: a format's value is the structure
   the encoder is given (the correspondence harness re-parses the encoded text with the same
   crates).

   Rust failure modes are values of [res]; the classes used here:
     Err "build"             a geometry-file row does not parse (TraversalPlugin::from_file)
     Err "search"            the search result itself is an Err (create_initial_output)
     Err "empty_route"       construct_route_output on an empty route
     Err "missing_geometry"  geoms.get(edge_id) = None
     Err "cost"              the state/cost model cannot serialise the last edge's state
     Err "bad_request"       get_od_vertex_ids: request / origin_vertex / destination_vertex
                             absent or not of the expected JSON type
     Err "missing_uuid"      uuids.get(vertex) = None

   A HashMap<VertexId, SearchTreeBranch> is modelled as an association list with distinct keys
   in *some* order (its unspecified iteration order); Proofs/Output.v shows every tree format is
   a multiset that does not depend on that order. *)
From Coq Require Import List String Ascii Bool Arith.
From RC Require Import Base.Res.
Import ListNotations.
Open Scope string_scope.
Open Scope nat_scope.

Module OUT.

(* iter().map(f).collect::<Result<Vec<_>, _>>(): evaluation stops at the first Err *)
Fixpoint collect {A B} (f : A -> res B) (l : list A) : res (list B) :=
  match l with
  | [] => Ok []
  | x :: r => do b <- f x; do bs <- collect f r; Ok (b :: bs)
  end.

Fixpoint last_opt {A} (l : list A) : option A :=
  match l with
  | [] => None
  | [a] => Some a
  | _ :: r => last_opt r
  end.

(* ---------- read_utils.rs: read_raw_file = BufRead::lines().enumerate().map(op).collect() ----------
   BufRead::lines splits the text at every '\n' and removes that '\n' together with one '\r'
   directly before it; a last line without terminator counts as a line (its '\r', if any, stays);
   nothing after the final '\n' is not a line.  Blank and whitespace-only lines ARE lines: row i of
   the file is index i of the table, whatever it contains. *)
Definition nl : ascii := "010"%char.
Definition cr : ascii := "013"%char.
(* the pieces between '\n's, the last one being the unterminated remainder (possibly empty) *)
Fixpoint segments (s : string) : list string :=
  match s with
  | EmptyString => [EmptyString]
  | String c r =>
      if Ascii.eqb c nl then EmptyString :: segments r
      else match segments r with
           | l :: t => String c l :: t
           | [] => [String c EmptyString]
           end
  end.
Fixpoint strip_cr (s : string) : string :=
  match s with
  | EmptyString => EmptyString
  | String c EmptyString => if Ascii.eqb c cr then EmptyString else s
  | String c r => String c (strip_cr r)
  end.
Definition read_lines (text : string) : list string :=
  let segs := segments text in
  map strip_cr (removelast segs)
  ++ (match last segs EmptyString with EmptyString => [] | l => [l] end).

(* UUIDOutputPlugin::from_file: read_raw_file(filename, |_idx, row| Ok(row)): every line, verbatim *)
Definition uuid_from_file (text : string) : res (list string) := Ok (read_lines text).

Inductive format := Wkt | Wkb | Json | GeoJson | EdgeId.

(* the value stored at the route / tree key: null, the single output, or an array of outputs *)
Inductive packed (A : Type) := PNull | POne (a : A) | PMany (l : list A).
Arguments PNull {A}.
Arguments POne {A} a.
Arguments PMany {A} l.
Definition pack {A} (l : list A) : packed A :=
  match l with
  | [] => PNull
  | [a] => POne a
  | _ => PMany l
  end.

(* what serde_json's as_u64 makes of a request field *)
Inductive field := FMissing | FBad | FNat (n : nat).
(* the value at output["request"] *)
Inductive request := ReqNotObject | ReqObj (origin_vertex destination_vertex : field).

Section Output.
  Context {C N : Type}.

  Definition point := (C * C)%type.
  Definition linestring := list point.
  (* TraversalPlugin.geoms: Box<[LineString<f32>]>, indexed by edge id *)
  Definition geoms := list linestring.

  Record traversal := mkT {
    edge_id : nat; access_cost : N; traversal_cost : N; result_state : list N }.
  Record branch := mkB { terminal_vertex : nat; edge_traversal : traversal }.
  Definition route := list traversal.
  Definition tree := list (nat * branch).
  Definition values (t : tree) : list branch := map snd t.

  (* geojson::Feature { id, geometry, properties } *)
  Record feature := mkF { f_id : nat; f_geom : linestring; f_props : traversal }.

  Inductive route_path :=
  | PIds (l : list nat)
  | PRecs (l : list traversal)
  | PFeats (l : list feature)
  | PWkt (g : linestring)
  | PWkb (g : linestring).
  Inductive tree_out :=
  | TIds (l : list nat)
  | TRecs (l : list branch)
  | TFeats (l : list feature)
  | TWkt (g : list linestring)
  | TWkb (g : list linestring).

  (* ---------- geo_io_utils.rs ---------- *)
  (* linestrings.iter().flat_map(|ls| ls.points()).collect() *)
  Definition concat_linestrings (ls : list linestring) : linestring := flat_map (fun l => l) ls.

  (* ---------- traversal_ops.rs ---------- *)
  (* geoms.get(eid.0).ok_or_else(|| OutputPluginFailed("geometry table missing edge id ..")) *)
  Definition lookup (g : geoms) (e : nat) : res linestring :=
    match nth_error g e with
    | Some l => Ok l
    | None => Err "missing_geometry"
    end.

  Definition create_route_linestring (r : route) (g : geoms) : res linestring :=
    let edge_ids := map edge_id r in
    do edge_linestrings <- collect (lookup g) edge_ids;
    Ok (concat_linestrings edge_linestrings).

  Definition create_tree_multilinestring (t : tree) (g : geoms) : res (list linestring) :=
    let edge_ids := map (fun b => edge_id (edge_traversal b)) (values t) in
    collect (lookup g) edge_ids.

  (* serde_json::to_value(EdgeTraversal) is always an object, so the InternalError arm is dead;
     id = edge id, geometry = the given linestring, properties = the serialised traversal *)
  Definition create_geojson_feature (t : traversal) (l : linestring) : res feature :=
    Ok (mkF (edge_id t) l t).

  Definition create_route_geojson (r : route) (g : geoms) : res (list feature) :=
    collect (fun t => do l <- lookup g (edge_id t); create_geojson_feature t l) r.

  Definition create_tree_geojson (t : tree) (g : geoms) : res (list feature) :=
    collect (fun b => do l <- lookup g (edge_id (edge_traversal b));
                      create_geojson_feature (edge_traversal b) l) (values t).

  (* ---------- traversal_output_format.rs ---------- *)
  Definition generate_route_output (f : format) (r : route) (g : geoms) : res route_path :=
    match f with
    | Wkt => do l <- create_route_linestring r g; Ok (PWkt l)
    | Wkb => do l <- create_route_linestring r g; Ok (PWkb l)
    | Json => Ok (PRecs r)
    | GeoJson => do fs <- create_route_geojson r g; Ok (PFeats fs)
    | EdgeId => Ok (PIds (map edge_id r))
    end.

  Definition generate_tree_output (f : format) (t : tree) (g : geoms) : res tree_out :=
    match f with
    | Wkt => do ls <- create_tree_multilinestring t g; Ok (TWkt ls)
    | Wkb => do ls <- create_tree_multilinestring t g; Ok (TWkb ls)
    | Json => Ok (TRecs (values t))
    | GeoJson => do fs <- create_tree_geojson t g; Ok (TFeats fs)
    | EdgeId => Ok (TIds (map (fun b => edge_id (edge_traversal b)) (values t)))
    end.

  (* ---------- the response under construction ---------- *)
  (* { traversal_summary, state_model, cost_model, cost, path }: the state-derived entries are
     functions of the last edge's result state, kept as that state *)
  Record route_out := mkRO { traversal_summary : list N; path : route_path }.

  Record response := mkR {
    r_request : option request;                (* "request" *)
    r_route : option (packed route_out);       (* "route" *)
    r_tree : option (packed tree_out);         (* "tree" *)
    r_origin_uuid : option string;             (* "origin_vertex_uuid" *)
    r_destination_uuid : option string;        (* "destination_vertex_uuid" *)
    r_route_edges : option nat;                (* "route_edges" *)
    r_tree_size_count : option nat }.          (* "tree_size_count" *)

  Inductive search_result :=
  | SErr
  | SOk (routes : list route) (trees : list tree).

  (* the state model / cost model of the search instance, as far as the output side sees them:
     whether serialize_cost accepts a state vector *)
  Variable state_ok : list N -> bool.

  (* ---------- plugin.rs (traversal) ---------- *)
  Definition construct_route_output (r : route) (f : format) (g : geoms) : res route_out :=
    match last_opt r with
    | None => Err "empty_route"
    | Some last_edge =>
        do path_json <- generate_route_output f r g;
        if state_ok (result_state last_edge)
        then Ok (mkRO (result_state last_edge) path_json)
        else Err "cost"
    end.

  Definition set_route (o : response) (v : packed route_out) : response :=
    mkR (r_request o) (Some v) (r_tree o) (r_origin_uuid o) (r_destination_uuid o)
        (r_route_edges o) (r_tree_size_count o).
  Definition set_tree (o : response) (v : packed tree_out) : response :=
    mkR (r_request o) (r_route o) (Some v) (r_origin_uuid o) (r_destination_uuid o)
        (r_route_edges o) (r_tree_size_count o).

  Definition traversal_process (g : geoms) (route_fmt tree_fmt : option format)
             (output : response) (sr : search_result) : res response :=
    match sr with
    | SErr => Ok output
    | SOk routes trees =>
        do output1 <- match route_fmt with
                      | None => Ok output
                      | Some route_args =>
                          do routes_serialized <-
                             collect (fun r => construct_route_output r route_args g) routes;
                          Ok (set_route output (pack routes_serialized))
                      end;
        match tree_fmt with
        | None => Ok output1
        | Some tree_args =>
            do trees_serialized <- collect (fun t => generate_tree_output tree_args t g) trees;
            Ok (set_tree output1 (pack trees_serialized))
        end
    end.

  (* TraversalPlugin::from_file: read_raw_file(parse_wkt_linestring) row by row; a row that does
     not parse fails the build (it is never skipped, so later rows never move to another id).
     A row is [Some linestring] when it parses and [None] otherwise. *)
  Definition traversal_from_file (rows : list (option linestring)) : res geoms :=
    collect (fun row => match row with Some l => Ok l | None => Err "build" end) rows.

  (* ---------- uuid ---------- *)
  Definition get_od_vertex_ids (output : response) : res (nat * nat) :=
    match r_request output with
    | None => Err "bad_request"
    | Some ReqNotObject => Err "bad_request"
    | Some (ReqObj o d) =>
        match o with
        | FMissing | FBad => Err "bad_request"
        | FNat origin_vertex_id =>
            match d with
            | FMissing | FBad => Err "bad_request"
            | FNat destination_vertex_id => Ok (origin_vertex_id, destination_vertex_id)
            end
        end
    end.

  Definition uuid_lookup (uuids : list string) (v : nat) : res string :=
    match nth_error uuids v with
    | Some s => Ok s
    | None => Err "missing_uuid"
    end.

  Definition set_uuids (o : response) (ou du : string) : response :=
    mkR (r_request o) (r_route o) (r_tree o) (Some ou) (Some du)
        (r_route_edges o) (r_tree_size_count o).

  Definition uuid_process (uuids : list string) (output : response) (sr : search_result)
    : res response :=
    match sr with
    | SErr => Ok output
    | SOk _ _ =>
        do od <- get_od_vertex_ids output;
        do origin_uuid <- uuid_lookup uuids (fst od);
        do destination_uuid <- uuid_lookup uuids (snd od);
        Ok (set_uuids output origin_uuid destination_uuid)
    end.

  (* ---------- summary ---------- *)
  Definition sum_nat (l : list nat) : nat := fold_left Nat.add l 0.
  Definition set_counts (o : response) (re ts : nat) : response :=
    mkR (r_request o) (r_route o) (r_tree o) (r_origin_uuid o) (r_destination_uuid o)
        (Some re) (Some ts).
  Definition summary_process (output : response) (sr : search_result) : res response :=
    match sr with
    | SErr => Ok output
    | SOk routes trees =>
        let route_edges := sum_nat (map (@List.length _) routes) in
        let tree_edges := sum_nat (map (@List.length _) trees) in
        Ok (set_counts output route_edges tree_edges)
    end.

  (* ---------- the plugin chain ---------- *)
  Inductive plugin :=
  | PlTraversal (g : geoms) (route_fmt tree_fmt : option format)
  | PlUuid (uuids : list string)
  | PlSummary.

  Definition process (p : plugin) (output : response) (sr : search_result) : res response :=
    match p with
    | PlTraversal g rf tf => traversal_process g rf tf output sr
    | PlUuid uuids => uuid_process uuids output sr
    | PlSummary => summary_process output sr
    end.

  (* create_initial_output: { "request": req, "output_plugin_executed_time": .. } *)
  Definition initial_output (req : request) : response :=
    mkR (Some req) None None None None None None.

  (* the `for output_plugin in output_plugins` loop: the first plugin error becomes the response *)
  Fixpoint run_plugins (ps : list plugin) (output : response) (sr : search_result) : res response :=
    match ps with
    | [] => Ok output
    | p :: rest =>
        match process p output sr with
        | Ok output' => run_plugins rest output' sr
        | e => e
        end
    end.

  (* an [Err] result is the error response { "request", "error" } *)
  Definition apply_output_processing (req : request) (sr : search_result) (ps : list plugin)
    : res response :=
    match sr with
    | SErr => Err "search"
    | SOk _ _ => run_plugins ps (initial_output req) sr
    end.
End Output.

Arguments traversal : clear implicits.
Arguments branch : clear implicits.
Arguments route : clear implicits.
Arguments tree : clear implicits.
Arguments feature : clear implicits.
Arguments route_path : clear implicits.
Arguments tree_out : clear implicits.
Arguments route_out : clear implicits.
Arguments response : clear implicits.
Arguments search_result : clear implicits.
Arguments plugin : clear implicits.
Arguments point : clear implicits.
Arguments linestring : clear implicits.
Arguments geoms : clear implicits.
End OUT.
