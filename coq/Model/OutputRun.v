(* Runner of the C20 correspondence stream `output`.
   A case = geometry-file rows, uuid-file rows, the request, a search result (routes + trees or an
   error) and a list of plugin chains.  For every chain the model line [M] prints the response of
   Model/Output.v's apply_output_processing; the specification line [S] prints what the property
   demands, computed from the raw route / tree / table with map / flat_map / nth only (none of the
   model's format functions).  Coordinates and numbers are integers (the harness generates
   coordinates k/8 and prints k).  Tree outputs are printed as sorted multisets. *)
From Coq Require Import ZArith List String Bool Arith.
From RC Require Import Base.Show Base.Res Model.Output.
Import ListNotations.
Import OUT.
Open Scope string_scope.
From Coq Require Import Ascii.

Notation trav := (traversal Z).
Notation br := (branch Z).
Definition T (e : nat) (a t : Z) (s : list Z) : trav := mkT e a t s.
Definition B (v : nat) (t : trav) : br := mkB v t.

Inductive pcfg := CTraversal (rf tf : option format) | CUuid | CSummary.

(* the harness's search instance has a one-feature state model ("distance"): serialize_cost
   needs index 0, serialize_state shows the first entry *)
Definition state_ok (s : list Z) : bool := Nat.leb 1 (List.length s).

(* ---------- printers (the harness prints the re-parsed implementation output the same way) *)
Definition show_pt (p : Z * Z) : string := show_Z (fst p) ++ ":" ++ show_Z (snd p).
Definition show_ls (l : list (Z * Z)) : string := show_list show_pt l.
Definition show_trav (t : trav) : string :=
  show_nat (edge_id t) ++ "/" ++ show_Z (access_cost t) ++ "/" ++ show_Z (traversal_cost t)
  ++ "/" ++ show_list show_Z (result_state t).
Definition show_branch (b : br) : string := show_nat (terminal_vertex b) ++ ">" ++ show_trav (edge_traversal b).
Definition show_feat (f : feature Z Z) : string :=
  show_nat (f_id f) ++ "@" ++ show_ls (f_geom f) ++ "@" ++ show_trav (f_props f).

Fixpoint insert_str (s : string) (l : list string) : list string :=
  match l with
  | [] => [s]
  | x :: r => if String.leb x s then x :: insert_str s r else s :: x :: r
  end.
Definition sort_str (l : list string) : list string := fold_left (fun acc s => insert_str s acc) l [].
Definition show_bag (l : list string) : string := "[" ++ join "," (sort_str l) ++ "]".
Definition show_seq (l : list string) : string := "[" ++ join "," l ++ "]".

Definition show_packed {A} (f : A -> string) (p : packed A) : string :=
  match p with
  | PNull => "null"
  | POne a => f a
  | PMany l => "many" ++ show_list f l
  end.
Definition show_opt {A} (f : A -> string) (o : option A) : string :=
  match o with None => "-" | Some a => f a end.

Definition quote (s : string) : string := "'" ++ s ++ "'".
(* the identifier file the harness writes: rows joined by the line terminator, optionally terminated *)
Definition eol (crlf : bool) : string := if crlf then String cr (String nl EmptyString) else String nl EmptyString.
Fixpoint render_table (rows : list string) (crlf trailing : bool) : string :=
  match rows with
  | [] => ""
  | [r] => if trailing then r ++ eol crlf else r
  | r :: t => r ++ eol crlf ++ render_table t crlf trailing
  end.

Definition show_path (p : route_path Z Z) : string :=
  match p with
  | PIds l => "ids" ++ show_list show_nat l
  | PRecs l => "recs" ++ show_list show_trav l
  | PFeats l => "feats" ++ show_list show_feat l
  | PWkt g => "wkt" ++ show_ls g
  | PWkb g => "wkb" ++ show_ls g
  end.
Definition show_route_out (ro : route_out Z Z) : string :=
  "{last=" ++ show_list show_Z (firstn 1 (traversal_summary ro)) ++ ";path=" ++ show_path (path ro) ++ "}".
Definition show_tree_out (o : tree_out Z Z) : string :=
  match o with
  | TIds l => "ids" ++ show_bag (map show_nat l)
  | TRecs l => "recs" ++ show_bag (map show_branch l)
  | TFeats l => "feats" ++ show_bag (map show_feat l)
  | TWkt g => "wkt" ++ show_bag (map show_ls g)
  | TWkb g => "wkb" ++ show_bag (map show_ls g)
  end.
Definition show_fields (route tree ou du edges tsize : string) : string :=
  "OK route=" ++ route ++ " tree=" ++ tree ++ " ou=" ++ ou ++ " du=" ++ du
  ++ " edges=" ++ edges ++ " tsize=" ++ tsize.
Definition show_response (r : response Z Z) : string :=
  show_fields (show_opt (show_packed show_route_out) (r_route r))
              (show_opt (show_packed show_tree_out) (r_tree r))
              (show_opt quote (r_origin_uuid r)) (show_opt quote (r_destination_uuid r))
              (show_opt show_nat (r_route_edges r)) (show_opt show_nat (r_tree_size_count r)).
Definition show_result (r : res (response Z Z)) : string :=
  match r with
  | Ok a => show_response a
  | Err c => "ERR(" ++ c ++ ")"
  | Panic _ => "PANIC"
  | OutOfFuel => "HANG"
  end.

(* ---------- the model line ---------- *)
Definition build (g : res (geoms Z)) (uuids : res (list string)) (c : pcfg) : res (plugin Z) :=
  match c with
  | CTraversal rf tf => do gg <- g; Ok (PlTraversal gg rf tf)
  | CUuid => do uu <- uuids; Ok (PlUuid uu)
  | CSummary => Ok PlSummary
  end.

Definition errpass_chain : list pcfg := [CTraversal (Some Wkt) (Some Wkt); CUuid; CSummary].

Definition model_chain rows (utext : string) req (sr : search_result Z) (chain : list pcfg) : string :=
  match collect (build (traversal_from_file rows) (uuid_from_file utext)) chain with
  | Ok ps => show_result (apply_output_processing state_ok req sr ps)
  | _ => "BUILDERR"
  end.
(* every plugin called directly with a failed search: the output is passed through untouched *)
Definition model_errpass rows (utext : string) req : string :=
  match collect (build (traversal_from_file rows) (uuid_from_file utext)) errpass_chain with
  | Ok ps => show_result (run_plugins state_ok ps (initial_output req) SErr)
  | _ => "BUILDERR"
  end.

(* every format asked for the trees alone: entries per tree, read from the model's tree outputs *)
Definition all_formats : list format := [EdgeId; Json; GeoJson; Wkt; Wkb].
Definition format_name (f : format) : string :=
  match f with EdgeId => "edge_id" | Json => "json" | GeoJson => "geo_json" | Wkt => "wkt" | Wkb => "wkb" end.
Definition tree_out_count (o : tree_out Z Z) : nat :=
  match o with
  | TIds l => List.length l
  | TRecs l => List.length l
  | TFeats l => List.length l
  | TWkt l | TWkb l => List.length l
  end.
Definition packed_list {A} (p : packed A) : list A :=
  match p with PNull => [] | POne a => [a] | PMany l => l end.
Definition model_tcount rows (utext : string) req (sr : search_result Z) : string :=
  "tcount " ++ join " " (map (fun f =>
    format_name f ++ ":" ++
    match collect (build (traversal_from_file rows) (uuid_from_file utext)) [CTraversal None (Some f)] with
    | Ok ps => match apply_output_processing state_ok req sr ps with
               | Ok r => match r_tree r with
                         | Some p => show_list show_nat (map tree_out_count (packed_list p))
                         | None => "?no-tree"
                         end
               | _ => "E"
               end
    | _ => "E"
    end) all_formats).

Definition line_m (id : Z) (rows : list (option (list (Z * Z)))) (uuids : list string) (crlf trailing : bool)
           (req : request) (sr : search_result Z) (chains : list (list pcfg)) : string :=
  let utext := render_table uuids crlf trailing in
  line "M" id (join " | " (map (model_chain rows utext req sr) chains
                           ++ [model_errpass rows utext req; model_tcount rows utext req sr])).

(* ---------- the specification line ---------- *)
Section Spec.
  Variable rows : list (option (list (Z * Z))).
  Variable uuids : list string.
  Variable req : request.

  Definition s_rows_ok : bool := forallb (fun r => match r with Some _ => true | None => false end) rows.
  Definition s_present (e : nat) : bool := Nat.ltb e (List.length rows).
  Definition s_stored (e : nat) : list (Z * Z) := match nth e rows None with Some l => l | None => [] end.
  Definition s_geo (f : format) : bool := match f with Wkt | Wkb | GeoJson => true | _ => false end.
  Definition s_bedge (b : br) : nat := edge_id (edge_traversal b).

  (* --- expected text of each format, straight from the route / tree and the table --- *)
  Definition s_route_text (f : format) (r : list trav) : string :=
    match f with
    | EdgeId => "ids" ++ show_seq (map (fun t => show_nat (edge_id t)) r)
    | Json => "recs" ++ show_seq (map show_trav r)
    | GeoJson => "feats" ++ show_seq (map (fun t => show_nat (edge_id t) ++ "@" ++ show_ls (s_stored (edge_id t))
                                                      ++ "@" ++ show_trav t) r)
    | Wkt => "wkt" ++ show_ls (flat_map (fun t => s_stored (edge_id t)) r)
    | Wkb => "wkb" ++ show_ls (flat_map (fun t => s_stored (edge_id t)) r)
    end.
  Definition s_route_out (f : format) (r : list trav) : string :=
    "{last=" ++ show_list show_Z (firstn 1 (result_state (last r (T 0 0 0 [])))) ++ ";path=" ++ s_route_text f r ++ "}".
  Definition s_tree_text (f : format) (t : list (nat * br)) : string :=
    match f with
    | EdgeId => "ids" ++ show_bag (map (fun vb => show_nat (s_bedge (snd vb))) t)
    | Json => "recs" ++ show_bag (map (fun vb => show_branch (snd vb)) t)
    | GeoJson => "feats" ++ show_bag (map (fun vb => show_nat (s_bedge (snd vb)) ++ "@" ++ show_ls (s_stored (s_bedge (snd vb)))
                                                      ++ "@" ++ show_trav (edge_traversal (snd vb))) t)
    | Wkt => "wkt" ++ show_bag (map (fun vb => show_ls (s_stored (s_bedge (snd vb)))) t)
    | Wkb => "wkb" ++ show_bag (map (fun vb => show_ls (s_stored (s_bedge (snd vb)))) t)
    end.
  Definition s_pack (l : list string) : string :=
    match l with [] => "null" | [a] => a | _ => "many" ++ show_seq l end.

  (* --- the first error a plugin must raise, if any --- *)
  Definition s_route_errors (f : format) (routes : list (list trav)) : list string :=
    flat_map (fun r => match r with
                       | [] => ["empty_route"]
                       | _ => if s_geo f && existsb (fun t => negb (s_present (edge_id t))) r
                              then ["missing_geometry"]
                              else if state_ok (result_state (last r (T 0 0 0 []))) then [] else ["cost"]
                       end) routes.
  Definition s_tree_errors (f : format) (trees : list (list (nat * br))) : list string :=
    if s_geo f && existsb (fun t => existsb (fun vb => negb (s_present (s_bedge (snd vb)))) t) trees
    then ["missing_geometry"] else [].
  Definition s_od : option (nat * nat) :=
    match req with
    | ReqObj (FNat o) (FNat d) => Some (o, d)
    | _ => None
    end.
  Definition s_plugin_errors (c : pcfg) routes trees : list string :=
    match c with
    | CTraversal rf tf =>
        (match rf with Some f => s_route_errors f routes | None => [] end)
        ++ (match tf with Some f => s_tree_errors f trees | None => [] end)
    | CUuid =>
        match s_od with
        | None => ["bad_request"]
        | Some (o, d) => if Nat.ltb o (List.length uuids) && Nat.ltb d (List.length uuids) then [] else ["missing_uuid"]
        end
    | CSummary => []
    end.

  Definition s_last_some {A} (l : list (option A)) : option A :=
    fold_left (fun acc x => match x with Some a => Some a | None => acc end) l None.
  Definition s_has (p : pcfg -> bool) (chain : list pcfg) : bool := existsb p chain.

  Definition spec_chain (sr : search_result Z) (chain : list pcfg) : string :=
    if s_has (fun c => match c with CTraversal _ _ => true | _ => false end) chain && negb s_rows_ok
    then "BUILDERR"
    else match sr with
         | SErr => "ERR(search)"
         | SOk routes trees =>
             match flat_map (fun c => s_plugin_errors c routes trees) chain with
             | c :: _ => "ERR(" ++ c ++ ")"
             | [] =>
                 let rf := s_last_some (map (fun c => match c with CTraversal rf _ => rf | _ => None end) chain) in
                 let tf := s_last_some (map (fun c => match c with CTraversal _ tf => tf | _ => None end) chain) in
                 let uu := s_has (fun c => match c with CUuid => true | _ => false end) chain in
                 let su := s_has (fun c => match c with CSummary => true | _ => false end) chain in
                 show_fields
                   (match rf with Some f => s_pack (map (s_route_out f) routes) | None => "-" end)
                   (match tf with Some f => s_pack (map (s_tree_text f) trees) | None => "-" end)
                   (match s_od with Some (o, _) => if uu then quote (nth o uuids "") else "-" | None => "-" end)
                   (match s_od with Some (_, d) => if uu then quote (nth d uuids "") else "-" | None => "-" end)
                   (if su then show_nat (List.length (List.concat routes)) else "-")
                   (if su then show_nat (List.length (List.concat trees)) else "-")
             end
         end.
  Definition spec_errpass : string :=
    if s_rows_ok then show_fields "-" "-" "-" "-" "-" "-" else "BUILDERR".
  (* cross-format agreement: every tree format has exactly as many entries as the tree has branches
     - the same number under all five formats - unless the format needs a geometry that is missing *)
  Definition spec_tcount (sr : search_result Z) : string :=
    "tcount " ++ join " " (map (fun f =>
      format_name f ++ ":" ++
      match sr with
      | SErr => "E"
      | SOk _ trees =>
          if negb s_rows_ok then "E"
          else match s_tree_errors f trees with
               | _ :: _ => "E"
               | [] => show_list show_nat (map (@List.length _) trees)
               end
      end) all_formats).
End Spec.

(* the specification reads the identifier table as "row i of the file belongs to vertex i", blank and
   whitespace-only rows included; the line terminator style is irrelevant to it *)
Definition line_s (id : Z) (rows : list (option (list (Z * Z)))) (uuids : list string) (crlf trailing : bool)
           (req : request) (sr : search_result Z) (chains : list (list pcfg)) : string :=
  line "S" id (join " | " (map (spec_chain rows uuids req sr) chains ++ [spec_errpass rows; spec_tcount rows sr])).

(* ====================================================================================
   Long routes and big trees (1023 .. 5000 edges).  The case is a formula, not a literal: the
   harness and this file generate the same route / tree / geometry table from (kind, n).  Printing
   5000-edge structures would dominate the run, so every format's content is compared through a
   digest of its flattened integer sequence (order-sensitive for routes, an order-insensitive sum
   of entry digests for trees) together with its length; the harness adds, on the implementation
   side, the first index at which two formats of the same route disagree (the specification says
   they never do: "agree=T"). *)
From Coq Require Import Uint63.

(* generators over binary integers (unary arithmetic on 5000-element indices is what would dominate) *)
Fixpoint zseq (fuel : nat) (i : Z) : list Z :=
  match fuel with 0 => [] | S f => i :: zseq f (i + 1)%Z end.
Definition long_edge (kind : nat) (n i : Z) : Z :=
  match kind with
  | 0 => i                                                          (* chain *)
  | 1 => if Z.even i then (i / 2)%Z else (n - 1 - i / 2)%Z           (* zig-zag: a permutation *)
  | _ => if Z.eqb i (n - n / 5)%Z then (n + 3)%Z else i             (* chain, one edge without a row *)
  end.
Definition long_geom (z : Z) : list (Z * Z) :=
  ([(z, z mod 7); (z + 1, (z + 3) mod 5)] ++ (if Z.eqb (z mod 3) 0 then [(z + 2, 1)] else []))%Z%list.
Definition long_trav (kind : nat) (n i : Z) : trav :=
  T (Z.to_nat (long_edge kind n i)) (i mod 4)%Z (10 + i mod 13)%Z [i].
Definition long_rows (n : nat) : list (option (list (Z * Z))) := map (fun e => Some (long_geom e)) (zseq n 0%Z).
Definition long_route (kind n : nat) : list trav := map (long_trav kind (Z.of_nat n)) (zseq n 0%Z).
Definition long_tree (kind n : nat) : list (nat * br) :=
  map (fun i => (Z.to_nat (i + 1), B (Z.to_nat (i / 2)) (long_trav kind (Z.of_nat n) i))) (zseq n 0%Z).

Definition dstep (h : int) (x : Z) : int := (h * 1000003 + Uint63.of_Z x)%uint63.
Definition dig (l : list Z) : Z := Uint63.to_Z (fold_left dstep l 7%uint63).
Definition msum (ls : list (list Z)) : Z :=
  Uint63.to_Z (fold_left (fun acc l => (acc + fold_left dstep l 7%uint63)%uint63) ls 0%uint63).

Definition flat_pts (l : list (Z * Z)) : list Z := flat_map (fun p => [fst p; snd p]) l.
Definition flat_trav (t : trav) : list Z :=
  [Z.of_nat (edge_id t); access_cost t; traversal_cost t; Z.of_nat (List.length (result_state t))] ++ result_state t.
Definition flat_feat (f : feature Z Z) : list Z :=
  [Z.of_nat (f_id f); Z.of_nat (List.length (f_geom f))] ++ flat_pts (f_geom f) ++ flat_trav (f_props f).
Definition show_dig (n : nat) (d : Z) : string := show_nat n ++ ":" ++ show_Z d.

Definition dig_path (p : route_path Z Z) : string :=
  match p with
  | PIds l => show_dig (List.length l) (dig (map Z.of_nat l))
  | PRecs l => show_dig (List.length l) (dig (flat_map flat_trav l))
  | PFeats l => show_dig (List.length l) (dig (flat_map flat_feat l))
  | PWkt g | PWkb g => show_dig (List.length g) (dig (flat_pts g))
  end.
Definition dig_tree (o : tree_out Z Z) : string :=
  match o with
  | TIds l => show_dig (List.length l) (msum (map (fun e => [Z.of_nat e]) l))
  | TRecs l => show_dig (List.length l) (msum (map (fun b => Z.of_nat (terminal_vertex b) :: flat_trav (edge_traversal b)) l))
  | TFeats l => show_dig (List.length l) (msum (map flat_feat l))
  | TWkt g | TWkb g => show_dig (List.length g) (msum (map (fun l => Z.of_nat (List.length l) :: flat_pts l) g))
  end.

Definition long_fmt_m (kind n : nat) (with_tree : bool) (f : format) : string :=
  format_name f ++ " " ++
  match traversal_from_file (long_rows n) with
  | Ok g =>
      match apply_output_processing state_ok (ReqObj (FNat 0) (FNat 0))
              (SOk [long_route kind n] (if with_tree then [long_tree kind n] else []))
              [PlTraversal g (Some f) (Some f)] with
      | Ok r => "r=" ++ show_opt (show_packed (fun ro => dig_path (path ro))) (r_route r)
                ++ " t=" ++ show_opt (show_packed dig_tree) (r_tree r)
      | Err c => "ERR(" ++ c ++ ")"
      | _ => "PANIC"
      end
  | _ => "BUILDERR"
  end.

(* the specification, from the generators alone *)
Definition long_fmt_s (kind n : nat) (with_tree : bool) (f : format) : string :=
  let route := long_route kind n in
  let tree := long_tree kind n in
  let table := map long_geom (zseq n 0%Z) in
  let stored e := nth e table [] in
  let geo := match f with Wkt | Wkb | GeoJson => true | _ => false end in
  let missing := existsb (fun t => negb (Nat.ltb (edge_id t) n)) route in
  format_name f ++ " " ++
  if geo && missing then "ERR(missing_geometry)"
  else
    let feat (t : trav) : list Z :=
      ([Z.of_nat (edge_id t); Z.of_nat (List.length (stored (edge_id t)))]
         ++ flat_pts (stored (edge_id t)) ++ flat_trav t)%list in
    "r=" ++ (match f with
             | EdgeId => show_dig n (dig (map (fun t => Z.of_nat (edge_id t)) route))
             | Json => show_dig n (dig (flat_map flat_trav route))
             | GeoJson => show_dig n (dig (flat_map feat route))
             | Wkt | Wkb => let g := flat_map (fun t => stored (edge_id t)) route in
                            show_dig (List.length g) (dig (flat_pts g))
             end)
    ++ " t=" ++ (if with_tree then
                   match f with
                   | EdgeId => show_dig n (msum (map (fun vb => [Z.of_nat (edge_id (edge_traversal (snd vb)))]) tree))
                   | Json => show_dig n (msum (map (fun vb => Z.of_nat (terminal_vertex (snd vb)) :: flat_trav (edge_traversal (snd vb))) tree))
                   | GeoJson => show_dig n (msum (map (fun vb => feat (edge_traversal (snd vb))) tree))
                   | Wkt | Wkb => show_dig n (msum (map (fun vb => let l := stored (edge_id (edge_traversal (snd vb))) in
                                                                    Z.of_nat (List.length l) :: flat_pts l) tree))
                   end
                 else "null").

(* the implementation renders every long case [reps] times (its defect classes are schedule dependent) *)
Definition long_line (tag : string) (fmt : nat -> nat -> bool -> format -> string) (id : Z) (kind n : nat)
           (with_tree : bool) (reps : nat) : string :=
  let one := join "; " (map (fmt kind n with_tree) all_formats) ++ "; agree=T" in
  line tag id (join " || " (repeat one reps)).
Definition line_m_long := long_line "M" long_fmt_m.
Definition line_s_long := long_line "S" long_fmt_s.

(* ====================================================================================
   Sequences: several geometry tables written one after the other to the SAME path, a set of
   plugins (one per format) built after every write and all kept alive, then several calls with the
   same request (same origin / destination) but different routes, each on the plugins of one build.
   The code modelled is a function of (table at build time, route of this call) only - no state is
   carried from one build or one call to the next - so the model and the specification evaluate
   every call on its own: call k under format f renders route k over the table of its build. *)
Definition seq_line (tag : string)
           (chainf : list (option (list (Z * Z))) -> request -> search_result Z -> list pcfg -> string)
           (id : Z) (tables : list (list (option (list (Z * Z))))) (req : request)
           (calls : list (nat * list trav)) : string :=
  line tag id (join " | " (flat_map (fun c =>
     map (fun f => chainf (nth (fst c) tables []) req (SOk [snd c] []) [CTraversal (Some f) None]) all_formats) calls)).
Definition line_m_seq := seq_line "M" (fun rows req sr chain => model_chain rows "" req sr chain).
Definition line_s_seq := seq_line "S" (fun rows req sr chain => spec_chain rows [] req sr chain).
