(* C12 - the control skeleton of CompassApp::run (routee-compass/src/app/compass/compass_app.rs)
   over Base/Json.v values, with Rust's failure modes as values.  Definitions only.

   Transcribed functions (file : function):
     compass_json_extensions.rs : get_queries
     input_plugin_ops.rs        : package_error, package_invariant_error (request part), json_array_op,
                                  json_array_flatten_in_place, json_array_flatten
     compass_app.rs             : apply_input_plugins, the chunk-size arithmetic + par_chunks, the
                                  (queries, error responses) partition, the weight partition,
                                  run_single_query, apply_output_processing, run_batch_with_responses /
                                  run_batch_without_responses, CompassApp::run
     compass_app_ops.rs         : apply_load_balancing_policy, min_bin
     input_json_extensions.rs   : get_query_weight_estimate, add_query_weight_estimate
     inject_plugin.rs           : InjectInputPlugin::process
     load_balancer/             : LoadBalancerPlugin::process with CustomWeightType::Numeric
     grid_search/plugin.rs      : GridSearchPlugin::process (the Cartesian enumeration itself is the
                                  structural [combos]; the iterator MultiSet::next is property C17's)
     output_plugin_ops.rs       : create_initial_output, package_error
     search_algorithm.rs / ksp_query.rs / yens_algorithm.rs : the dispatch on the algorithm, the
                                  effective k, and the outer loops of Yen's algorithm (the `len() - 2`
                                  range and the `while accepted.len() < k` loop) over abstract spur searches
   Components the property quantifies over are function arguments: every input plugin
   ([plugin]), the per-query search ([json -> res R]), every output plugin, the response sink; the
   f64 arithmetic of the load balancer is used through the interface [wops] (binary64 instance in
   Model/PipelineRun.v, execution only).
   State of /repo mirrored here (fix: commits): empty batch (451668c), degenerate grid sections
   (58a440b), inject on a non-object (06993a7), ill-typed weight estimate (7f9ad24), json_array_flatten
   echoes the offending element (e0aa2c2), non-object queries refused up front (80828c4), error
   responses written to the sink (cecf7b8).  NOT fixed and modelled as it is: Yen's algorithm (D-YEN). *)
From Coq Require Import ZArith String Ascii List Floats Bool Arith.
From RC Require Import Base.Show Base.Res Base.Json.
Import ListNotations.
Open Scope string_scope.

Module PL.

(* ------------------------------------------------------------------ small JSON helpers *)
Definition is_arr (j : json) : bool := match j with JArr _ => true | _ => false end.
Definition is_obj (j : json) : bool := match j with JObj _ => true | _ => false end.

(* The f64 weights of the load balancer are used through this interface only (Value::as_f64,
   json!(w), 0.0, 1.0, +, OrderedFloat's <): theorems hold for every instance, execution uses the
   binary64 instance of Model/PipelineRun.v. *)
Record wops := {
  wt : Type;
  w_zero : wt;
  w_one : wt;
  w_add : wt -> wt -> wt;
  w_lt : wt -> wt -> bool;           (* OrderedFloat order: NaN is the greatest element *)
  w_of_json : json -> option wt;     (* Value::as_f64 *)
  w_to_json : wt -> json             (* json!(w) *)
}.
(* Value::as_u64 *)
Definition as_u64 (j : json) : option Z :=
  match j with JInt z => if (0 <=? z)%Z then Some z else None | _ => None end.

(* does [needle] occur in [hay] *)
Fixpoint contains (needle hay : string) : bool :=
  if String.prefix needle hay then true
  else match hay with EmptyString => false | String _ r => contains needle r end.

(* ------------------------------------------------------------------ error packaging *)
(* input_plugin_ops::package_error and output_plugin_ops::package_error; the message text is
   represented by its class only *)
Definition package_error (q : json) (cls : string) : json :=
  JObj [("request", q); ("error", JStr cls)].
(* package_invariant_error (query, sub_section): the request is the query when it can still be
   displayed, otherwise a placeholder object *)
Definition no_display : json := JObj [("error", JStr "unable to display query")].
Definition invariant_error (query : option json) : json :=
  package_error (match query with Some q => q | None => no_display end) "invariant".

(* ------------------------------------------------------------------ components *)
(* an input plugin works in place on `&mut Value`: on success the value is q'; on Err the value may
   already have been modified (the error response echoes the modified value) *)
Inductive pout :=
| PDone (q' : json)
| PFail (q' : json) (cls : string)
| PPanic (why : string)
| PHang.
Definition plugin := json -> pout.
Definition pbenign (o : pout) : bool :=
  match o with PDone _ | PFail _ _ => true | _ => false end.

Inductive crash := CPanic (why : string) | CHang.
Inductive st3 (A : Type) :=
| SOk (a : A)
| SErr (resp : json)          (* an error response, already packaged *)
| SCrash (c : crash).
Arguments SOk {A} a. Arguments SErr {A} resp. Arguments SCrash {A} c.

(* ------------------------------------------------------------------ json_array_op & co *)
(* for q in queries.iter_mut() { op(q).map_err(|e| package_error(q, e))?; } *)
Fixpoint op_each (p : plugin) (qs : list json) : st3 (list json) :=
  match qs with
  | [] => SOk []
  | q :: r =>
      match p q with
      | PDone q' => match op_each p r with SOk r' => SOk (q' :: r') | SErr e => SErr e | SCrash c => SCrash c end
      | PFail q' c => SErr (package_error q' c)
      | PPanic w => SCrash (CPanic w)
      | PHang => SCrash CHang
      end
  end.
Definition flatten1 (l : list json) : list json :=
  flat_map (fun v => match v with JArr s => s | o => [o] end) l.
Definition flatten_in_place (st : json) : st3 json :=
  match st with
  | JArr top => if forallb (fun v => negb (is_arr v)) top then SOk st else SOk (JArr (flatten1 top))
  | other => SErr (invariant_error (Some other))
  end.
Definition json_array_op (st : json) (p : plugin) : st3 json :=
  match st with
  | JArr qs =>
      match op_each p qs with
      | SOk qs' => flatten_in_place (JArr qs')
      | SErr e => SErr e
      | SCrash c => SCrash c
      end
  | _ => SErr (invariant_error None)
  end.
(* json_array_flatten: every element must be an object; the error response answers the offending
   element (the LAST one that is not an object: the loop overwrites `error`) *)
Definition json_array_flatten (st : json) : st3 (list json) :=
  match st with
  | JArr l => match rev (filter (fun v => negb (is_obj v)) l) with
              | [] => SOk l
              | bad :: _ => SErr (invariant_error (Some bad))
              end
  | other => SErr (invariant_error (Some other))
  end.
Fixpoint apply_plugins (ps : list plugin) (st : json) : st3 json :=
  match ps with
  | [] => SOk st
  | p :: r => match json_array_op st p with
              | SOk st' => apply_plugins r st'
              | SErr e => SErr e
              | SCrash c => SCrash c
              end
  end.
(* compass_app::apply_input_plugins: a query that is not a JSON object is refused up front *)
Definition apply_input_plugins (ps : list plugin) (q : json) : st3 (list json) :=
  if negb (is_obj q) then SErr (package_error q "query is not a JSON object")
  else match apply_plugins ps (JArr [q]) with
       | SOk st => json_array_flatten st
       | SErr e => SErr e
       | SCrash c => SCrash c
       end.

(* ------------------------------------------------------------------ get_queries *)
Definition get_queries (user : json) : res (list json) :=
  match user with
  | JArr qs => Ok qs
  | JObj m => match oget m "queries" with
              | None => Ok [user]
              | Some (JArr qs) => Ok qs
              | Some _ => Err "CompassFailure"
              end
  | _ => Err "CompassFailure"
  end.

(* ------------------------------------------------------------------ chunking *)
Fixpoint chunks_aux {A} (fuel n : nat) (l : list A) : list (list A) :=
  match fuel with
  | 0 => []
  | S f => match l with [] => [] | _ => firstn n l :: chunks_aux f n (skipn n l) end
  end.
(* slice::par_chunks panics on chunk size 0 *)
Definition par_chunks {A} (n : nat) (l : list A) : res (list (list A)) :=
  if Nat.eqb n 0 then Panic "chunk_size must not be zero" else Ok (chunks_aux (List.length l) n l).
(* ((len as f64 / parallelism as f64).ceil() as usize).max(1).  For len, parallelism < 2^26 the
   binary64 quotient followed by ceil is the exact ceiling.  parallelism = 0: 0/0 = NaN casts to 0,
   len/0 = +inf saturates to usize::MAX; any size >= len chunks identically, the model uses len. *)
Definition ceil_div (a b : nat) : nat := (a + b - 1) / b.
Definition chunk_size (len par : nat) : nat :=
  Nat.max 1 (if Nat.eqb par 0 then len else ceil_div len par).

(* ------------------------------------------------------------------ weights and load balancing *)
Section W.
Variable wo : wops.
Notation W := (wt wo).
(* get_query_weight_estimate: None when absent, Err when present and not a number *)
Definition weight_estimate (q : json) : res (option W) :=
  match jget q "query_weight_estimate" with
  | None => Ok None
  | Some v => match w_of_json wo v with Some f => Ok (Some f) | None => Err "QueryFieldHasInvalidType" end
  end.
(* Iterator::min_by_key returns the FIRST minimal element *)
Fixpoint min_idx_from (i : nat) (best_i : nat) (best : W) (l : list W) : nat :=
  match l with
  | [] => best_i
  | x :: r => if w_lt wo x best then min_idx_from (S i) i x r else min_idx_from (S i) best_i best r
  end.
Definition min_bin (bins : list W) : option nat :=
  match bins with [] => None | x :: r => Some (min_idx_from 1 0 x r) end.
Fixpoint upd {A} (i : nat) (f : A -> A) (l : list A) : list A :=
  match l, i with
  | [], _ => []
  | x :: r, 0 => f x :: r
  | x :: r, S i' => x :: upd i' f r
  end.
(* apply_load_balancing_policy(queries, parallelism, 1.0); bins keep insertion order *)
Fixpoint balance (qs : list json) (totals : list W) (bins : list (list json)) : res (list (list json)) :=
  match qs with
  | [] => Ok bins
  | q :: r =>
      match weight_estimate q with
      | Ok w =>
          match min_bin totals with
          | None => Err "InternalError: cannot find min bin of empty slice"
          | Some i =>
              let w' := match w with Some f => f | None => w_one wo end in
              balance r (upd i (fun t => w_add wo t w') totals) (upd i (fun b => app b [q]) bins)
          end
      | Err c => Err c
      | Panic w => Panic w
      | OutOfFuel => OutOfFuel
      end
  end.
Definition load_balance (qs : list json) (par : nat) : res (list (list json)) :=
  match qs with
  | [] => Ok []
  | _ => balance qs (repeat (w_zero wo) par) (repeat [] par)
  end.

(* ------------------------------------------------------------------ sequential / parallel composition *)
(* a sequential loop stops at the first result that is not Ok *)
Fixpoint seq_map {A B} (f : A -> res B) (l : list A) : res (list B) :=
  match l with
  | [] => Ok []
  | x :: r => match f x with
              | Ok y => match seq_map f r with Ok ys => Ok (y :: ys) | Err c => Err c | Panic w => Panic w | OutOfFuel => OutOfFuel end
              | Err c => Err c
              | Panic w => Panic w
              | OutOfFuel => OutOfFuel
              end
  end.
(* joining parallel jobs that all run: a job that never returns blocks the join; otherwise a
   panic is propagated; otherwise the first Err; otherwise all results in job order *)
Definition is_hang {B} (r : res B) : bool := match r with OutOfFuel => true | _ => false end.
Fixpoint first_panic {B} (rs : list (res B)) : option string :=
  match rs with
  | [] => None
  | Panic w :: _ => Some w
  | _ :: r => first_panic r
  end.
Fixpoint all_ok {B} (rs : list (res B)) : res (list B) :=
  match rs with
  | [] => Ok []
  | Ok y :: r => match all_ok r with Ok ys => Ok (y :: ys) | e => e end
  | Err c :: _ => Err c
  | Panic w :: _ => Panic w
  | OutOfFuel :: _ => OutOfFuel
  end.
Definition par_join {B} (rs : list (res B)) : res (list B) :=
  if existsb is_hang rs then OutOfFuel
  else match first_panic rs with Some w => Panic w | None => all_ok rs end.

(* ------------------------------------------------------------------ the run *)
Section Run.
  Variable R : Type.                                   (* SearchAppResult * SearchInstance *)
  Variable plugins : list plugin.                      (* app.input_plugins *)
  Variable search : json -> res R.                     (* SearchApp::run on one processed query *)
  Variable oplugins : list (R -> json -> res json).    (* app.output_plugins: output -> output' *)
  Variable sink : json -> res json.                    (* ResponseSink::write_response *)
  Variable par_app : nat.                              (* self.parallelism *)
  Variable par_run : nat.                              (* run-config override, else self.parallelism *)
  Variable persist : bool.                             (* PersistResponseInMemory ? *)

  (* one query through the input stage: Left = processed queries, Right = one error response *)
  Definition input_stage (q : json) : res (list json + json) :=
    match apply_input_plugins plugins q with
    | SOk qs => Ok (inl qs)
    | SErr e => Ok (inr e)
    | SCrash (CPanic w) => Panic w
    | SCrash CHang => OutOfFuel
    end.
  Definition lefts {A B} (l : list (A + B)) : list A :=
    flat_map (fun x => match x with inl a => [a] | inr _ => [] end) l.
  Definition rights {A B} (l : list (A + B)) : list B :=
    flat_map (fun x => match x with inl _ => [] | inr b => [b] end) l.

  (* create_initial_output + the output plugins; a search Err is packaged directly *)
  Definition initial_output (q : json) : json :=
    JObj [("request", q); ("output_plugin_executed_time", JStr "now")].
  Fixpoint run_oplugins (ops : list (R -> json -> res json)) (q : json) (r : R) (out : json) : res json :=
    match ops with
    | [] => Ok out
    | op :: rest =>
        match op r out with
        | Ok out' => run_oplugins rest q r out'
        | Err c => Ok (package_error q c)
        | Panic w => Panic w
        | OutOfFuel => OutOfFuel
        end
    end.
  Definition run_single_query (q : json) : res json :=
    match search q with
    | Ok r => run_oplugins oplugins q r (initial_output q)
    | Err c => Ok (package_error q c)
    | Panic w => Panic w
    | OutOfFuel => OutOfFuel
    end.
  (* one load-balanced bin: run, write, keep *)
  Definition run_bin (qs : list json) : res (list json) :=
    seq_map (fun q => match run_single_query q with
                      | Ok resp => sink resp
                      | Err c => Err c | Panic w => Panic w | OutOfFuel => OutOfFuel
                      end) qs.
  (* run_batch_without_responses: `fold(initial, |_, q| ...)` ignores the accumulator, so the value
     AND the error of every step are dropped and every step runs *)
  Fixpoint run_bin_discard (qs : list json) : res (list json) :=
    match qs with
    | [] => Ok []
    | q :: r =>
        match (match run_single_query q with
               | Ok resp => sink resp
               | Err c => Err c | Panic w => Panic w | OutOfFuel => OutOfFuel
               end) with
        | Ok _ | Err _ => run_bin_discard r
        | Panic w => Panic w
        | OutOfFuel => OutOfFuel
        end
    end.

  Definition weight_ok (q : json) : bool := match weight_estimate q with Ok _ => true | _ => false end.
  Definition weight_error (q : json) : json := package_error q "QueryFieldHasInvalidType".

  Definition run (queries : list json) : res (list json) :=
    do chunks <- par_chunks (chunk_size (List.length queries) par_app) queries;
    do staged <- par_join (map (seq_map input_stage) chunks);
    let staged := concat staged in
    let processed := concat (lefts staged) in
    let stage_errors := rights staged in
    let good := filter weight_ok processed in
    let bad := filter (fun q => negb (weight_ok q)) processed in
    do bins <- load_balance good par_run;
    (* responses produced before the search are written to the sink too, one after the other *)
    do errors <- seq_map sink (app stage_errors (map weight_error bad));
    match bins with
    | [] => Ok errors
    | _ =>
        do rs <- par_join (map (if persist then run_bin else run_bin_discard) bins);
        Ok (app (concat rs) errors)
    end.

  (* what the command line does with the user's JSON document *)
  Definition run_user (user : json) : res (list json) :=
    do qs <- get_queries user; run qs.
End Run.

(* ------------------------------------------------------------------ concrete input plugins *)
(* InjectInputPlugin::process *)
Definition inject (key : string) (value : json) (overwrite : bool) : plugin := fun q =>
  match q with
  | JObj m =>
      if negb overwrite && (match oget m key with Some _ => true | None => false end)
      then PFail q "InputPluginFailed"
      else PDone (JObj (oset m key value))
  | _ => PFail q "UnexpectedQueryStructure"
  end.

(* LoadBalancerPlugin::process with WeightHeuristic::Custom { Numeric { column_name } } *)
Definition lb_numeric (column : option string) : plugin := fun q =>
  let col := match column with Some c => c | None => "query_weight_estimate" end in
  match jget q col with
  | None => PFail q "QueryFieldHasInvalidType"
  | Some v =>
      match w_of_json wo v with
      | None => PFail q "QueryFieldHasInvalidType"
      | Some w => match q with
                  | JObj m => PDone (JObj (oset m "query_weight_estimate" (w_to_json wo w)))
                  | _ => PFail q "UnexpectedQueryStructure"
                  end
      end
  end.

End W.

(* GridSearchPlugin::process *)
(* serde_json::to_string(section).contains("grid_search"): the text can only occur inside a key
   or a string value *)
Fixpoint mentions (needle : string) (j : json) : bool :=
  match j with
  | JStr s => contains needle s
  | JArr l => existsb (mentions needle) l
  | JObj m => existsb (fun kv => contains needle (fst kv) || mentions needle (snd kv)) m
  | _ => false
  end.
(* the Cartesian product in MultiSet order: the FIRST axis varies fastest; a family with an
   empty axis has no combination, the empty family has exactly one *)
Fixpoint combos {A} (axes : list (list A)) : list (list A) :=
  match axes with
  | [] => [[]]
  | s :: rest => flat_map (fun tail => map (fun x => x :: tail) s) (combos rest)
  end.
(* one combination written into a copy of the parent: object choices are merged key by key,
   any other choice is stored under the axis' key *)
Fixpoint apply_choice (inst : list (string * json)) (keys : list string) (vals : list json) : list (string * json) :=
  match keys, vals with
  | k :: kr, v :: vr =>
      let inst' := match v with
                   | JObj o => fold_left (fun acc kv => oset acc (fst kv) (snd kv)) o inst
                   | _ => oset inst k v
                   end in
      apply_choice inst' kr vr
  | _, _ => inst
  end.
Definition grid_search : plugin := fun q =>
  match jget q "grid_search" with
  | None => PDone q
  | Some section =>
      if mentions "grid_search" section then PFail q "InputPluginFailed"
      else match section, q with
           | JObj sm, JObj qm =>
               let axes := flat_map (fun kv => match snd kv with JArr l => [(fst kv, l)] | _ => [] end) sm in
               let initial := oremove qm "grid_search" in
               let result := map (fun c => JObj (apply_choice initial (map fst axes) c)) (combos (map snd axes)) in
               match result with
               | [] => PFail q "InputPluginFailed"
               | _ => PDone (JArr result)
               end
           | _, _ => PFail q "UnexpectedQueryStructure"
           end
  end.

(* ------------------------------------------------------------------ the search entry: algorithm dispatch *)
(* SearchAlgorithm::run_vertex_oriented as far as termination and panics are concerned.  Routes are
   lists of edge ids.  The underlying searches are components:
     shortest q            : the underlying algorithm's routes for the query (Err = SearchError)
     spur acc best prev i  : one pass of the body of `for spur_idx in ..` (spur search, candidate,
                             similarity tests): the new best candidate, or a SearchError *)
Inductive algorithm := AStar | Dijkstra | SingleVia (k : nat) | Yens (k : nat).
(* KspQuery::new: the query's own "k" overrides the configured one *)
Definition effective_k (k_default : nat) (q : json) : res Z :=
  match jget q "k" with
  | None => Ok (Z.of_nat k_default)
  | Some v => match as_u64 v with Some z => Ok z | None => Err "BuildError" end
  end.
Section Yens.
  Definition route := list nat.
  Variable spur : list route -> option route -> route -> nat -> res (option route).
  (* for spur_idx in 0..prev.len()-2 { ...; if let Some(best) = best_candidate { accepted.push(best) } } *)
  Fixpoint spur_loop (idxs : list nat) (accepted : list route) (best : option route) (prev : route)
    : res (list route) :=
    match idxs with
    | [] => Ok accepted
    | i :: r =>
        match spur accepted best prev i with
        | Ok best' =>
            spur_loop r (match best' with Some b => app accepted [b] | None => accepted end) best' prev
        | Err c => Err c
        | Panic w => Panic w
        | OutOfFuel => OutOfFuel
        end
    end.
  (* while accepted.len() < k { if terminate(k, len) {break}; ... } with the default `Exact` criterion
     (len == k, never true inside the loop).  overflow-checks build: `len() - 2` panics below 2. *)
  Fixpoint yens_while (fuel : nat) (k : Z) (accepted : list route) : res (list route) :=
    match fuel with
    | 0 => OutOfFuel
    | S f =>
        if (k <=? Z.of_nat (List.length accepted))%Z then Ok accepted
        else match rev accepted with
             | [] => Err "InternalError"
             | prev :: _ =>
                 if Nat.ltb (List.length prev) 2 then Panic "attempt to subtract with overflow"
                 else match spur_loop (seq 0 (List.length prev - 2)) accepted None prev with
                      | Ok acc' => yens_while f k acc'
                      | Err c => Err c
                      | Panic w => Panic w
                      | OutOfFuel => OutOfFuel
                      end
             end
    end.
  Definition yens_run (fuel : nat) (k : Z) (shortest : res (list route)) : res (list route) :=
    match shortest with
    | Ok [] => Ok []
    | Ok (p :: _) => yens_while fuel k [p]
    | Err c => Err c
    | Panic w => Panic w
    | OutOfFuel => OutOfFuel
    end.
End Yens.
Section Entry.
  Variable alg : algorithm.
  Variable shortest : json -> res (list route).     (* a* / dijkstra / single-via on this query *)
  Variable spur : json -> list route -> option route -> route -> nat -> res (option route).
  Definition search_entry (fuel : nat) (q : json) : res (list route) :=
    match alg with
    | Yens k0 => do k <- effective_k k0 q; yens_run (spur q) fuel k (shortest q)
    | _ => shortest q
    end.
  (* the class of the known finding D-YEN *)
  Definition K_yens_k_ge_2 (q : json) : bool :=
    match alg with
    | Yens k0 => match effective_k k0 q with Ok k => (2 <=? k)%Z | _ => false end
    | _ => false
    end.
End Entry.

End PL.
