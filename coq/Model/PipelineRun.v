(* Runner of the C12 correspondence stream: prints, for one case (plugin configuration, user JSON
   document, oracle tables for the opaque components), the model's outcome line (M) and the
   property checker's verdict on the implementation's observed outcome (S). *)
From Coq Require Import ZArith String Ascii List Floats Bool Arith.
From RC Require Import Base.Show Base.Res Base.Json Model.Pipeline.
Import ListNotations.
Open Scope string_scope.

Module PR.
Import PL.

(* ---- the binary64 instance of the weight interface (execution only) *)
(* serde_json: Value::from(u64/i64) as f64 is the correctly rounded conversion *)
Definition float_of_Z (z : Z) : float :=
  match z with
  | Z0 => PrimFloat.zero
  | Zpos p => SF2Prim (binary_normalize 53 1024 (Zpos p) 0 false)
  | Zneg p => PrimFloat.opp (SF2Prim (binary_normalize 53 1024 (Zpos p) 0 false))
  end.
Definition as_f64 (j : json) : option float :=
  match j with JInt z => Some (float_of_Z z) | JFloat f => Some f | _ => None end.
Definition is_nan (f : float) : bool := negb (PrimFloat.eqb f f).
Definition of_lt (a b : float) : bool :=
  if is_nan a then false else if is_nan b then true else PrimFloat.ltb a b.
Definition fw : wops :=
  {| wt := float; w_zero := PrimFloat.zero; w_one := PrimFloat.one; w_add := PrimFloat.add;
     w_lt := of_lt; w_of_json := as_f64; w_to_json := JFloat |}.

(* ---- canonical text of an outcome: "Ok n | cls:request;cls:request;..." | Err | Panic | Hang *)
Definition resp_class (r : json) : string :=
  match r with
  | JObj m => match oget m "request", oget m "error" with
              | Some _, Some _ => "err"
              | Some _, None => "ok"
              | None, _ => "bad"
              end
  | _ => "bad"
  end.
Definition resp_request (r : json) : json :=
  match jget r "request" with Some q => q | None => r end.
Definition show_pairs (l : list (string * json)) : string :=
  "Ok " ++ show_nat (List.length l) ++ " | " ++ join ";" (map (fun p => fst p ++ ":" ++ show_sorted (snd p)) l).
Definition show_outcome (o : res (list json)) : string :=
  match o with
  | Ok rs => show_pairs (map (fun r => (resp_class r, resp_request r)) rs)
  | Err _ => "Err"
  | Panic _ => "Panic"
  | OutOfFuel => "Hang"
  end.

(* ---- plugin configurations *)
Inductive pspec :=
| PGrid
| PInject (key : string) (value : json) (overwrite : bool)
| PLbNumeric (column : option string)
(* an opaque plugin (map matching, haversine / categorical weights, debug) replayed from the calls
   recorded on the real plugin: input (sorted text) -> value after the call, error class if any *)
| POracle (tbl : list (string * (json * bool))).
Fixpoint lookup {A} (k : string) (t : list (string * A)) : option A :=
  match t with
  | [] => None
  | (k', v) :: r => if String.eqb k' k then Some v else lookup k r
  end.
Definition plugin_of (p : pspec) : plugin :=
  match p with
  | PGrid => grid_search
  | PInject k v o => inject k v o
  | PLbNumeric c => lb_numeric fw c
  | POracle t => fun q => match lookup (show_sorted q) t with
                          | Some (q', true) => PDone q'
                          | Some (q', false) => PFail q' "oracle"
                          | None => PPanic "input not in the recorded oracle table"
                          end
  end.

Record cfg := { c_plugins : list pspec; c_par_app : nat; c_par_run : nat; c_persist : bool }.

(* the per-query search + output plugins, replayed from the real responses: processed query ->
   did it end in a success response *)
Definition search_of (t : list (string * bool)) : json -> res unit := fun q =>
  match lookup (show_sorted q) t with
  | Some true => Ok tt
  | Some false => Err "search"
  | None => Panic "query not in the recorded search table"
  end.

Definition model_outcome (c : cfg) (stbl : list (string * bool)) (user : json) : res (list json) :=
  run_user fw unit (map plugin_of (c_plugins c)) (search_of stbl) [] (fun r => Ok r)
           (c_par_app c) (c_par_run c) (c_persist c) user.
Definition line_M (id : Z) (c : cfg) (stbl : list (string * bool)) (user : json) : string :=
  line "M" id (show_outcome (model_outcome c stbl user)).
(* responses discarded from memory: the class of a search is not observable, every search is taken
   to succeed (only input-stage error responses are returned either way) *)
Definition line_M_blind (id : Z) (c : cfg) (user : json) : string :=
  line "M" id (show_outcome (run_user fw unit (map plugin_of (c_plugins c)) (fun _ => Ok tt) [] (fun r => Ok r)
                               (c_par_app c) (c_par_run c) (c_persist c) user)).

(* Yen's algorithm cases (known finding K_yens_k_ge_2): the search of the single query is the
   model's search entry on top of the recorded underlying shortest route; no spur candidate is
   ever accepted (the recorded networks have no second route) *)
Definition yens_search (k0 : nat) (first : list route) (fuel : nat) : json -> res unit := fun q =>
  match search_entry (Yens k0) (fun _ => Ok first) (fun _ _ _ _ _ => Ok None) fuel q with
  | Ok _ => Ok tt
  | Err c => Err c
  | Panic w => Panic w
  | OutOfFuel => OutOfFuel
  end.
Definition line_M_yens (id : Z) (c : cfg) (k0 : nat) (first : list route) (user : json) : string :=
  line "M" id (show_outcome (run_user fw unit (map plugin_of (c_plugins c)) (yens_search k0 first 64) []
                               (fun r => Ok r) (c_par_app c) (c_par_run c) (c_persist c) user)).

(* ---- the property as a checker on the implementation's observed outcome *)
Inductive observed :=
| OOk (rs : list (string * json))      (* (class, request) of every response, in order *)
| OErr | OPanic | OHang.
Definition show_observed (o : observed) : string :=
  match o with OOk rs => show_pairs rs | OErr => "Err" | OPanic => "Panic" | OHang => "Hang" end.

Definition tag_of (q : json) : option string :=
  match jget q "tag" with Some (JStr s) => Some s | _ => None end.
(* does response request [r] echo query [q]: same tag for tagged objects, equal value otherwise *)
Definition echoes (q r : json) : bool :=
  match tag_of q with
  | Some t => match tag_of r with Some t' => String.eqb t t' | None => false end
  | None => json_eqb q r
  end.
Definition count {A} (f : A -> bool) (l : list A) : nat := List.length (filter f l).
(* size of the grid-search expansion the query asks for: product of the array-valued fields *)
Definition grid_size (q : json) : nat :=
  match jget q "grid_search" with
  | Some (JObj sm) => fold_left Nat.mul (flat_map (fun kv => match snd kv with JArr l => [List.length l] | _ => [] end) sm) 1
  | _ => 1
  end.

Record spec := {
  s_grid : bool;                 (* the configuration contains the grid_search plugin *)
  s_persist : bool;              (* responses are kept in memory *)
  s_must_err : list string       (* tags of queries malformed in a way the property names *)
}.
Definition check_responses (s : spec) (qs : list json) (rs : list (string * json)) : option string :=
  let reqs := map snd rs in
  if negb (forallb (fun p => String.eqb (fst p) "ok" || String.eqb (fst p) "err") rs)
  then Some "a response is not {request, ...}"
  else if negb (forallb (fun r => existsb (fun q => echoes q r) qs) reqs)
  then Some "a response echoes no query of the batch"
  else if negb (forallb (fun q => existsb (fun r => echoes q r) reqs) qs)
  then Some "a query of the batch has no response"
  else if negb (forallb (fun q =>
                  let mine := filter (fun p => echoes q (snd p)) rs in
                  let n := List.length mine in
                  match tag_of q with
                  | Some _ =>
                      let g := if s_grid s then grid_size q else 1 in
                      Nat.eqb n g || (Nat.eqb n 1 && forallb (fun p => String.eqb (fst p) "err") mine)
                  | None => Nat.eqb n (count (json_eqb q) qs)
                  end) qs)
  then Some "wrong number of responses for a query"
  else if negb (forallb (fun p => match tag_of (snd p) with
                                  | Some t => negb (existsb (String.eqb t) (s_must_err s)) || String.eqb (fst p) "err"
                                  | None => is_obj (snd p) || String.eqb (fst p) "err"
                                  end) rs)
  then Some "a malformed query was answered without an error"
  else None.
Definition check (s : spec) (user : json) (o : observed) : option string :=
  match get_queries user with
  | Ok qs =>
      match o with
      | OOk rs =>
          if s_persist s then check_responses s qs rs
          else (* responses discarded: only input-stage error responses come back *)
            if forallb (fun p => String.eqb (fst p) "err") rs then None else Some "a discarded response was returned"
      | OErr => Some "the call returned Err for the whole batch"
      | OPanic => Some "the call panicked"
      | OHang => Some "the call did not return"
      end
  | _ => match o with OErr => None | _ => Some "a document that holds no batch must be refused with Err" end
  end.
(* cases whose strings are not plain ASCII are compared through the payload hash on both sides
   (printing of such strings is not canonical; the hash is over the UTF-8 bytes); only response
   lists contain such text *)
Definition force_hash (s : string) : string :=
  let (tag, r) := split_space s in
  let (id, payload) := split_space r in
  if String.prefix "Ok " payload then tag ++ " " ++ id ++ " #" ++ show_Z (hash payload)
  else s.   (* Panic / Hang / Err / VIOLATED: ... are plain text *)
(* run-length form of long repetitive string literals in the case files (type-checking a string
   literal costs ~60 us per byte) *)
Fixpoint rep (u : string) (n : nat) : string :=
  match n with 0 => "" | S k => u ++ rep u k end.
Definition line_S (id : Z) (s : spec) (user : json) (o : observed) : string :=
  line "S" id (match check s user o with
               | None => show_observed o
               | Some why => "VIOLATED: " ++ why
               end).
End PR.
