(* C05: graph reachability through permitted edges, independent of the search model.
     pjoins / reachable / pwalk    the Prop-level specification ("can be reached through permitted edges")
     reach_set / reachb            an executable closure (round-based, over std++ gsets)
     bf / bf_stable                Bellman-Ford over Q with a stability check (least walk costs)
   Everything is relative to the search direction d: an edge "joins a to b" when its [term_vertex d]
   (src for Forward, dst for Reverse) is a and its [key_vertex d] is b (as in Model/SearchSpec.v), and it is
   permitted when the edge-local restriction [ok] accepts its id.
   Definitions only; proofs are in Proofs/ReachSet.v. *)
From Coq Require Import List Arith Bool QArith.
From stdpp Require Import gmap.
From RC Require Import Model.Search.
Import ListNotations.

Module Reach.
Import Search.

Definition pjoins (ok : nat -> bool) (d : dir) (g : graph) (e a b : nat) : Prop :=
  exists ed, get_edge g e = Some ed /\ ok e = true /\ term_vertex d ed = a /\ key_vertex d ed = b.

(* the inductive closure of a over permitted edges in direction d *)
Inductive reachable (ok : nat -> bool) (d : dir) (g : graph) (a : nat) : nat -> Prop :=
| reach_refl : reachable ok d g a a
| reach_step b c e : reachable ok d g a b -> pjoins ok d g e b c -> reachable ok d g a c.

(* [pwalk ok d g a es b]: the permitted edges es form a contiguous walk from a to b *)
Inductive pwalk (ok : nat -> bool) (d : dir) (g : graph) : nat -> list nat -> nat -> Prop :=
| pwalk_nil a : pwalk ok d g a [] a
| pwalk_cons a e b r c : pjoins ok d g e a b -> pwalk ok d g b r c -> pwalk ok d g a (e :: r) c.

(* edge-oriented: the two query edges are given, the edges between them must be permitted *)
Definition ereachable (ok : nat -> bool) (d : dir) (g : graph) (e1 e2 : nat) : Prop :=
  exists ed1 ed2, get_edge g e1 = Some ed1 /\ get_edge g e2 = Some ed2 /\
    reachable ok d g (key_vertex d ed1) (term_vertex d ed2).

(* ---------------------------------------------------------------- executable closure *)
(* the edges with their ids *)
Definition iedges (g : graph) : list (nat * edge) := combine (seq 0 (List.length (gedges g))) (gedges g).

(* one round: add the far end of every permitted edge whose near end is in R *)
Definition step_set (ok : nat -> bool) (d : dir) (g : graph) (R : gset nat) : gset nat :=
  fold_left (fun acc ie => if ok (fst ie) && bool_decide (term_vertex d (snd ie) ∈ R)
                           then {[ key_vertex d (snd ie) ]} ∪ acc else acc) (iedges g) R.

Fixpoint iter_set (ok : nat -> bool) (d : dir) (g : graph) (k : nat) (R : gset nat) : gset nat :=
  match k with
  | 0 => R
  | S k' => iter_set ok d g k' (step_set ok d g R)
  end.

(* every vertex that can ever be added *)
Definition universe (d : dir) (g : graph) (a : nat) : gset nat :=
  {[ a ]} ∪ list_to_set (map (key_vertex d) (gedges g)).

Definition reach_set (ok : nat -> bool) (d : dir) (g : graph) (a : nat) : gset nat :=
  iter_set ok d g (size (universe d g a)) {[ a ]}.

Definition reachb (ok : nat -> bool) (d : dir) (g : graph) (a b : nat) : bool :=
  bool_decide (b ∈ reach_set ok d g a).

(* boolean walk check on a list of edge ids *)
Fixpoint pwalkb (ok : nat -> bool) (d : dir) (g : graph) (a : nat) (es : list nat) (b : nat) : bool :=
  match es with
  | [] => Nat.eqb a b
  | e :: r =>
      match get_edge g e with
      | Some ed => ok e && Nat.eqb (term_vertex d ed) a && pwalkb ok d g (key_vertex d ed) r b
      | None => false
      end
  end.

(* ---------------------------------------------------------------- least walk costs over Q *)
Definition wcost (cost : nat -> Q) (es : list nat) (z : Q) : Q := fold_left (fun acc e => (acc + cost e)%Q) es z.

Definition bf_relax (ok : nat -> bool) (d : dir) (cost : nat -> Q) (L : gmap nat Q) (ie : nat * edge) : gmap nat Q :=
  if ok (fst ie) then
    match L !! term_vertex d (snd ie) with
    | None => L
    | Some l =>
        let t := (l + cost (fst ie))%Q in
        match L !! key_vertex d (snd ie) with
        | None => <[ key_vertex d (snd ie) := t ]> L
        | Some x => if Qle_bool x t then L else <[ key_vertex d (snd ie) := t ]> L
        end
    end
  else L.

Definition bf_round (ok : nat -> bool) (d : dir) (g : graph) (cost : nat -> Q) (L : gmap nat Q) : gmap nat Q :=
  fold_left (bf_relax ok d cost) (iedges g) L.

Fixpoint bf_iter (ok : nat -> bool) (d : dir) (g : graph) (cost : nat -> Q) (k : nat) (L : gmap nat Q) : gmap nat Q :=
  match k with
  | 0 => L
  | S k' => bf_iter ok d g cost k' (bf_round ok d g cost L)
  end.

Definition bf (ok : nat -> bool) (d : dir) (g : graph) (cost : nat -> Q) (a : nat) : gmap nat Q :=
  bf_iter ok d g cost (size (universe d g a)) {[ a := 0%Q ]}.

(* no permitted edge can still improve a label, and the origin's label is 0 *)
Definition bf_stable (ok : nat -> bool) (d : dir) (g : graph) (cost : nat -> Q) (a : nat) (L : gmap nat Q) : bool :=
  match L !! a with
  | Some z => Qle_bool z 0%Q
  | None => false
  end
  && forallb (fun ie =>
       negb (ok (fst ie))
       || match L !! term_vertex d (snd ie) with
          | None => true
          | Some l => match L !! key_vertex d (snd ie) with
                      | None => false
                      | Some x => Qle_bool x (l + cost (fst ie))%Q
                      end
          end) (iedges g).

End Reach.
