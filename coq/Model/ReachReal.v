(* C05: runner of the `real_world` family of stream `reach` (harness/src/bin/c05.rs): the graph is LOADED by
   Graph::from_files from generated CSV files, the frontier model is a REAL one (vehicle restrictions, road classes,
   combined) built by the application's builders from generated files and the query's parameters.
   The set of edges the SPECIFICATION refuses is computed here from the raw restriction rows, the class table and the
   query JSON by C04's specification Model/FrontierSpec.v (exact rationals, exact unit factors of Model/Units.v over
   Gen/UnitTables.v; shares no code with the model's valid_frontier) and becomes the forbid table of the world:
     line_M   the search model on that world (binary64)
     line_S   RR.line_S on that world: reachable through the edges the specification admits => route / tree vertex,
              unreachable => NoPath / absent
   When the specification does not decide some edge (Unknown: a limit within 1e-9 of the vehicle's quantity, an
   ill-formed query) both lines print "unspecified".  Definitions only. *)
From Coq Require Import ZArith QArith List Arith Bool String.
From RC Require Import Base.Show Base.Res Base.Num Base.Json Model.Units Model.Frontier Model.FrontierSpec
  Model.Search Model.SearchRun Model.Reach Model.ReachRun.
Import ListNotations.
Local Open Scope string_scope.

Module RW.
Import Search SR.

(* Some (edges refused by the specification), or None when it leaves some edge undecided.
   Vertex-oriented searches with edge-level restrictions: the verdict does not depend on the previous edge. *)
Fixpoint spec_forbid_from (c : Frontier.config FN) (fquery : json) (e m : nat) : option (list nat) :=
  match m with
  | O => Some []
  | S m' =>
      match FrontierSpec.admits c fquery e None, spec_forbid_from c fquery (S e) m' with
      | FrontierSpec.Unknown, _ => None
      | _, None => None
      | FrontierSpec.Yes, Some r => Some r
      | FrontierSpec.No, Some r => Some (e :: r)
      end
  end.

Definition set_forbid (N : Num) (w : world N) (fb : list nat) : world N :=
  mkW N (w_n N w) (w_edges N w) (w_cost N w) (w_h N w) (w_turn N w) fb (w_fturn N w) (w_ferr N w) (w_terr N w)
      (w_term N w) (w_init N w).

Definition line_M (fuel : nat) (id : Z) (c : Frontier.config FN) (fquery : json) (w : world FN) (q : query FN) : string :=
  match spec_forbid_from c fquery 0 (List.length (w_edges FN w)) with
  | None => line "M" id "unspecified"
  | Some fb => RR.line_M FN fuel id (set_forbid FN w fb) q
  end.

Definition line_S (id : Z) (c : Frontier.config FN) (fquery : json) (w : world QN) (q : query QN) (status : string)
           (trees : list (list (nat * Q))) (routes : list (list nat)) (text : string) : string :=
  match spec_forbid_from c fquery 0 (List.length (w_edges QN w)) with
  | None => line "S" id "unspecified"
  | Some fb => RR.line_S id (set_forbid QN w fb) q status trees routes text
  end.

End RW.
