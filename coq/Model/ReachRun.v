(* C05: runner of the correspondence stream `reach` (counterpart of harness/src/bin/c05.rs).
     line_M   the search model (Model/Search.v through Model/SearchRun.v, binary64 instance) on the case, printed as
              status / route edges (destination) or tree vertex set + per-vertex state labels (no destination)
     line_S   the property, evaluated independently of the search model from the exact-rational world:
              the verified closure reachb (Proofs/ReachSet.v: reachb_spec) decides what the answer must be,
              the verified walk check pwalkb judges the implementation's route, the tree's vertex set must be the
              reachable set, and its labels must be the least walk costs computed by Bellman-Ford with the
              stability check (Proofs/ReachSet.v: bf_least).  Prints the implementation's line back when it
              meets the property, REJECT(..) otherwise, "unspecified" outside the property's hypotheses.
   Definitions only. *)
From Coq Require Import ZArith QArith List Arith Bool String.
From stdpp Require Import gmap.
From RC Require Import Base.Show Base.Res Base.Num Model.Search Model.SearchRun Model.Reach.
Import ListNotations.
Local Open Scope string_scope.

Module RR.
Import Search SR Reach.
Local Arguments o_status {N} _. Local Arguments o_trees {N} _. Local Arguments o_routes {N} _. Local Arguments o_iters {N} _.
Local Arguments q_target {N} _. Local Arguments q_source {N} _. Local Arguments q_dir {N} _. Local Arguments q_orient {N} _.
Local Arguments w_n {N} _. Local Arguments w_edges {N} _. Local Arguments w_cost {N} _. Local Arguments w_forbid {N} _.
Local Arguments w_fturn {N} _. Local Arguments w_ferr {N} _. Local Arguments w_terr {N} _. Local Arguments w_turn {N} _.
Local Arguments w_term {N} _. Local Arguments w_init {N} _.

(* ---------------------------------------------------------------- M: the model's answer, summarised *)
Section M.
  Variable N : Num.
  Context `{ShowNum N}.

  Definition show_label (x : nat * nat * nat * N * N * N) : string :=
    let '(v, _, _, _, _, st) := x in show_nat v ++ ":" ++ show_num st.
  Definition vertex_of (x : nat * nat * nat * N * N * N) : nat := let '(v, _, _, _, _, _) := x in v.

  (* identical to c05.rs::summary *)
  Definition summary (q : query N) (o : outcome N) : string :=
    if String.eqb (o_status o) "Ok" then
      match q_target q with
      | Some _ => "Ok routes=" ++ show_list (fun r => show_list show_nat (route_edges N r)) (o_routes o)
      | None => "Ok verts=" ++ show_list (fun t => show_list show_nat (map vertex_of t)) (o_trees o)
                ++ " labels=" ++ show_list (show_list show_label) (o_trees o)
      end
    else o_status o.

  (* with a destination the route depends on how the queue breaks ties; without one the vertex set and the
     labels do not *)
  Definition line_M (fuel : nat) (id : Z) (w : world N) (q : query N) : string :=
    let o := outcome_of N (run N fuel w q) in
    line "M" id (match q_target q with
                 | Some _ => if has_tie N fuel w q then "TIE:" ++ o_status o else summary q o
                 | None =>
                     (* zero / clamped edge costs: equal cost labels can carry different states, the parent then
                        depends on the tie-break *)
                     if negb (forallb (fun c => leb (lit 1 (-2)) c) (w_cost w)) && has_tie N fuel w q
                     then "TIE:" ++ o_status o else summary q o
                 end).
End M.

(* ---------------------------------------------------------------- S: the property *)
Definition okb (w : world QN) (e : nat) : bool := negb (memn e (w_forbid w)).
Definition costq (w : world QN) (e : nat) : Q := nth e (w_cost w) 0%Q.

(* the hypotheses of the property: restrictions that depend only on the edge, edge costs that do not depend on
   how the edge was reached, nothing fails, no limit *)
Definition in_class (w : world QN) : bool :=
  match w_fturn w, w_ferr w, w_terr w, w_turn w, w_term w with
  | [], [], [], [], TUnlimited => true
  | _, _, _, _, _ => false
  end.
(* the state label of a tree entry is compared with the exact least cost only when binary64 sums of the cost table are
   exact: every cost is a positive multiple of 1/64 not above 2^21 (no clamping to MIN_COST, no absorption) *)
Definition costs_positive (w : world QN) : bool :=
  forallb (fun c => negb (Qle_bool c 0) && Qle_bool c (2097152 # 1)
                    && Pos.eqb (Qden (Qred (c * (64 # 1)))) 1) (w_cost w).

Fixpoint ins_nat (x : nat) (l : list nat) : list nat :=
  match l with
  | [] => [x]
  | y :: r => if Nat.leb x y then x :: l else y :: ins_nat x r
  end.
Definition sorted_elements (X : gset nat) : list nat := fold_right ins_nat [] (elements X).

Fixpoint list_eqb (a b : list nat) : bool :=
  match a, b with
  | [], [] => true
  | x :: a', y :: b' => Nat.eqb x y && list_eqb a' b'
  | _, _ => false
  end.

(* every (vertex, label) of the implementation equals init + the least cost of the vertex *)
Definition labels_ok (init : Q) (L : gmap nat Q) (root : option nat) (labs : list (nat * Q)) : bool :=
  forallb (fun vl =>
    if (match root with Some r => Nat.eqb (fst vl) r | None => false end) then Qeq_bool (snd vl) init
    else match L !! fst vl with
         | Some l => Qeq_bool (snd vl) (init + l)
         | None => false
         end) labs.

Definition in_graph (w : world QN) (v : nat) : bool := Nat.ltb v (w_n w).
Definition edges_in_graph (w : world QN) : bool :=
  forallb (fun p => in_graph w (fst p) && in_graph w (snd p)) (w_edges w).

(* split e1 :: mid ++ [e2] *)
Definition eroute_mid (e1 e2 : nat) (r : list nat) : option (list nat) :=
  match r with
  | f :: rest =>
      match rev rest with
      | l :: midr => if Nat.eqb f e1 && Nat.eqb l e2 then Some (rev midr) else None
      | [] => None
      end
  | [] => None
  end.

(* None = the implementation's answer meets the property; Some why = it does not *)
Definition judge (w : world QN) (q : query QN) (status : string)
           (trees : list (list (nat * Q))) (routes : list (list nat)) : option string :=
  let g := graph_of QN w in
  let ok := okb w in
  let d := q_dir q in
  let is_ok := String.eqb status "Ok" in
  let is_nopath := String.eqb status "nopath" in
  (* destination-less: one tree with exactly these vertices and labels *)
  let tree_case (src : nat) (extra : option nat) :=
    if negb is_ok then Some "expected Ok" else
    match trees, routes with
    | [t], [] =>
        let R := reach_set ok d g src ∖ {[ src ]} in
        let R' := match extra with Some b => R ∪ {[ b ]} | None => R end in
        if negb (list_eqb (map fst t) (sorted_elements R')) then Some "tree vertices are not the reachable set" else
        if negb (costs_positive w) then None else
        let L := bf ok d g (costq w) src in
        if negb (bf_stable ok d g (costq w) src L) then Some "oracle: Bellman-Ford not stable" else
        if labels_ok (w_init w) L extra t then None else Some "a label is not the least cost"
    | _, _ => Some "expected one tree and no route"
    end in
  match q_orient q with
  | OVertex =>
      let s := q_source q in
      match q_target q with
      | Some t =>
          if reachb ok d g s t then
            if negb is_ok then Some "reachable: expected a route" else
            match routes with
            | [r] => if match r with [] => true | _ => false end then Some "empty route"
                     else if pwalkb ok d g s r t then None else Some "not a permitted walk from origin to destination"
            | _ => Some "expected one route"
            end
          else if is_nopath then None else Some "unreachable: expected nopath"
      | None => tree_case s None
      end
  | OEdge =>
      match get_edge g (q_source q) with
      | None => Some "unknown edge"
      | Some ed1 =>
          let a1 := term_vertex d ed1 in
          let b1 := key_vertex d ed1 in
          match q_target q with
          | Some e2 =>
              match get_edge g e2 with
              | None => Some "unknown edge"
              | Some ed2 =>
                  let a2 := term_vertex d ed2 in
                  if reachb ok d g b1 a2 then
                    if negb is_ok then Some "reachable: expected a route" else
                    match routes with
                    | [r] => match eroute_mid (q_source q) e2 r with
                             | Some mid => if pwalkb ok d g b1 mid a2 then None
                                           else Some "not a permitted walk between the two edges"
                             | None => Some "route does not start with the origin edge and end with the destination edge"
                             end
                    | _ => Some "expected one route"
                    end
                  else if is_nopath then None else Some "unreachable: expected nopath"
              end
          | None =>
              tree_case b1 (if negb (Nat.eqb a1 b1) && negb (reachb ok d g b1 a1) then Some b1 else None)
          end
      end
  end.

(* is the case inside the property's hypotheses? (distinct, known origin and destination) *)
Definition specified (w : world QN) (q : query QN) : bool :=
  in_class w && edges_in_graph w &&
  match q_orient q with
  | OVertex => in_graph w (q_source q)
               && match q_target q with Some t => in_graph w t && negb (Nat.eqb t (q_source q)) | None => true end
  | OEdge => Nat.ltb (q_source q) (List.length (w_edges w))
             && match q_target q with
                | Some t => Nat.ltb t (List.length (w_edges w)) && negb (Nat.eqb t (q_source q))
                | None => true
                end
  end.

Definition line_S (id : Z) (w : world QN) (q : query QN) (status : string)
           (trees : list (list (nat * Q))) (routes : list (list nat)) (text : string) : string :=
  line "S" id (if negb (specified w q) then "unspecified"
               else match judge w q status trees routes with
                    | None => text
                    | Some why => "REJECT(" ++ why ++ ") " ++ status
                    end).

End RR.
