(* Executable model of routee-compass-core/src/algorithm/component/scc.rs (Kosaraju's two-pass
   strongly-connected-components algorithm) over the part of model/network/graph.rs it uses.
   Definitions only; proofs are in Proofs/Scc*.v.

   Graph: `n_vertices` plus the edge list; EdgeId = position in the list (as in graph.rs, where
   ids are consecutive from zero).  `adj` / `rev` are the per-vertex CompactOrderedHashMap<EdgeId,_>
   filled by edge_loader.rs in edge order; their key iteration order is insertion order (C11), so
   `out_edges v` / `in_edges v` yield the ids of the edges leaving / entering `v` in increasing id
   order, and nothing for a vertex id outside `adj` (`None => empty`).

   Rust containers: `visited: HashSet<VertexId>` is used only through contains / insert / clear and
   is a list here; a `Vec` used as a stack (`push` / `pop`) is a list whose HEAD is the last pushed
   element.  `dst_vertex_id(&edge)?` / `src_vertex_id(&edge)?` keep their error path
   (EdgeNotFound).  Since /repo 5cf0f14 (fixed defect D-SCC-STACK) the two searches are ITERATIVE: they keep
   explicit frames (vertex, its incident edge ids, position of the next edge), mark a vertex visited
   when its frame is pushed and push it on the output stack when its edge list is exhausted.  That
   is the recursion below unrolled: [dfs] marks v, runs through `incident v` in order descending
   into every unvisited end point, then pushes v - same visiting order, same finishing order, same
   output (the tie is measured by the scc stream, I = M on every case).  The model keeps the
   recursive form, on explicit fuel = nesting depth of the frames;
   Proofs/SccDfs.v (dfs_fuel) and Proofs/SccKosaraju.v show that any fuel > n_vertices is enough. *)
From Coq Require Import List Arith Bool String.
From RC Require Import Base.Res.
Import ListNotations.

Module Scc.

Record graph := mkGraph { nv : nat; edges : list (nat * nat) }.   (* (src, dst), id = position *)

(* a directed graph proper: every edge joins two existing vertices *)
Definition wf (g : graph) : Prop := forall s d, In (s, d) (edges g) -> s < nv g /\ d < nv g.
Definition wfb (g : graph) : bool :=
  forallb (fun e => (fst e <? nv g) && (snd e <? nv g)) (edges g).

Fixpoint enum_from {A} (i : nat) (l : list A) : list (nat * A) :=
  match l with [] => [] | x :: r => (i, x) :: enum_from (S i) r end.

(* Graph::out_edges / in_edges: edge ids, in id order *)
Definition out_edges (g : graph) (v : nat) : list nat :=
  if v <? nv g then map fst (filter (fun ie => fst (snd ie) =? v) (enum_from 0 (edges g))) else [].
Definition in_edges (g : graph) (v : nat) : list nat :=
  if v <? nv g then map fst (filter (fun ie => snd (snd ie) =? v) (enum_from 0 (edges g))) else [].
(* Graph::src_vertex_id / dst_vertex_id *)
Definition src_vertex_id (g : graph) (e : nat) : res nat :=
  match nth_error (edges g) e with Some sd => Ok (fst sd) | None => Err "EdgeNotFound" end.
Definition dst_vertex_id (g : graph) (e : nat) : res nat :=
  match nth_error (edges g) e with Some sd => Ok (snd sd) | None => Err "EdgeNotFound" end.

Definition mem (v : nat) (l : list nat) : bool := existsb (Nat.eqb v) l.

(* (visited, stack) *)
Definition state := (list nat * list nat)%type.

(* `for x in l { s = f(s, x)? }` *)
Fixpoint fold_res {A S : Type} (f : S -> A -> res S) (l : list A) (s : S) : res S :=
  match l with
  | [] => Ok s
  | a :: r => do s' <- f s a; fold_res f r s'
  end.

(* depth_first_search and reverse_depth_first_search are the same text up to
   (out_edges, dst_vertex_id) vs (in_edges, src_vertex_id): one definition, two instances. *)
Section Dfs.
  Variable incident : nat -> list nat.
  Variable terminal : nat -> res nat.
  Fixpoint dfs (fuel : nat) (v : nat) (st : state) : res state :=
    match fuel with
    | 0 => OutOfFuel
    | S f =>
        if mem v (fst st) then Ok st                          (* visited.contains(vertex) *)
        else
          do st2 <- fold_res (fun s e => do w <- terminal e; dfs f w s)
                             (incident v) (v :: fst st, snd st);   (* visited.insert; for edge in edges *)
          Ok (fst st2, v :: snd st2)                           (* stack.push(vertex) *)
    end.
End Dfs.
Definition depth_first_search (g : graph) := dfs (out_edges g) (dst_vertex_id g).
Definition reverse_depth_first_search (g : graph) := dfs (in_edges g) (src_vertex_id g).

(* pass 2: `while let Some(v) = container.pop()`; state = (visited, result) *)
Definition pass2_step (fuel : nat) (g : graph) (s : list nat * list (list nat)) (v : nat)
  : res (list nat * list (list nat)) :=
  if mem v (fst s) then Ok s
  else do st <- reverse_depth_first_search g fuel v (fst s, []);
       Ok (fst st, snd s ++ [snd st]).

Definition all_sccs_fuel (fuel : nat) (g : graph) : res (list (list nat)) :=
  do st <- fold_res (fun s v => depth_first_search g fuel v s) (seq 0 (nv g)) ([], []);
  do r <- fold_res (pass2_step fuel g) (snd st) ([], []);
  Ok (snd r).

Definition all_strongly_connected_components (g : graph) : res (list (list nat)) :=
  all_sccs_fuel (S (nv g)) g.

(* largest_strongly_connected_component: first component of strictly greater length *)
Definition largest_of (comps : list (list nat)) : list nat :=
  fold_left (fun best c => if List.length best <? List.length c then c else best) comps [].
Definition largest_strongly_connected_component (g : graph) : res (list nat) :=
  rmap largest_of (all_strongly_connected_components g).

(* ------------------------------------------------------------------------------------------ *)
(* Specification: reachability along directed edges.                                          *)
Inductive reach (g : graph) : nat -> nat -> Prop :=
| reach_refl x : reach g x x
| reach_step x y z : In (x, y) (edges g) -> reach g y z -> reach g x z.
Definition mutual (g : graph) (u v : nat) : Prop := reach g u v /\ reach g v u.

(* every vertex 0..n-1 occurs exactly once in the concatenation of the components *)
Definition partition (n : nat) (comps : list (list nat)) : Prop :=
  NoDup (List.concat comps) /\ (forall v, In v (List.concat comps) <-> v < n) /\ ~ In [] comps.
Definition same_comp (comps : list (list nat)) (u v : nat) : Prop :=
  exists c, In c comps /\ In u c /\ In v c.
(* C18: comps partitions the vertices and its blocks are exactly the mutual-reachability classes *)
Definition scc_classes (g : graph) (comps : list (list nat)) : Prop :=
  partition (nv g) comps
  /\ (forall u v, same_comp comps u v -> mutual g u v)
  /\ (forall u v, u < nv g -> mutual g u v -> same_comp comps u v).

(* ------------------------------------------------------------------------------------------ *)
(* Verified checker, run on the IMPLEMENTATION's output: decides "comps is a partition of the
   vertices into mutual-reachability classes".  Reachable sets are computed by a fuelled
   worklist closure and then CHECKED to be closed, so the soundness proof does not depend on
   the fuel being large enough.                                                               *)
Definition succs (g : graph) (v : nat) : list nat := map snd (filter (fun e => fst e =? v) (edges g)).
Definition preds (g : graph) (v : nat) : list nat := map fst (filter (fun e => snd e =? v) (edges g)).

Fixpoint closure (next : nat -> list nat) (fuel : nat) (vis work : list nat) : list nat :=
  match fuel with
  | 0 => vis
  | S f => match work with
           | [] => vis
           | v :: w => if mem v vis then closure next f vis w
                       else closure next f (v :: vis) (next v ++ w)
           end
  end.
Definition closedb (next : nat -> list nat) (R : list nat) : bool :=
  forallb (fun v => forallb (fun w => mem w R) (next v)) R.
Definition subsetb (a b : list nat) : bool := forallb (fun x => mem x b) a.
Fixpoint nodupb (l : list nat) : bool :=
  match l with [] => true | x :: r => negb (mem x r) && nodupb r end.

Definition check_comp (g : graph) (fuel : nat) (c : list nat) : bool :=
  match c with
  | [] => false
  | r :: _ =>
      let F := closure (succs g) fuel [] [r] in
      let B := closure (preds g) fuel [] [r] in
      mem r F && mem r B && closedb (succs g) F && closedb (preds g) B
      && subsetb c F && subsetb c B
      && forallb (fun x => negb (mem x B) || mem x c) F
  end.
Definition check_partition (n : nat) (comps : list (list nat)) : bool :=
  let all := List.concat comps in
  forallb (fun v => v <? n) all && nodupb all && forallb (fun v => mem v all) (seq 0 n).
Definition check_fuel (g : graph) : nat := nv g + List.length (edges g) + 2.
Definition check_scc (g : graph) (comps : list (list nat)) : bool :=
  wfb g && check_partition (nv g) comps && forallb (check_comp g (check_fuel g)) comps.

(* the reported largest component: one of the components (or [] when there is none), and no
   component is longer *)
Fixpoint list_eqb (a b : list nat) : bool :=
  match a, b with
  | [], [] => true
  | x :: a', y :: b' => (x =? y) && list_eqb a' b'
  | _, _ => false
  end.
Definition check_largest (comps : list (list nat)) (l : list nat) : bool :=
  forallb (fun c => List.length c <=? List.length l) comps
  && (existsb (list_eqb l) comps || (match comps, l with [], [] => true | _, _ => false end)).

End Scc.
