(* C18, "deep" family (graphs of 4500..20000 vertices whose depth-first search follows one very long
   path): a near-linear boolean checker for "comps is the partition of the vertices into
   mutual-reachability classes", over binary vertex ids (N) and radix-tree maps (PositiveMap).
   The nat/list checker of Model/Scc.v is quartic on unary numerals and cannot be run at this size.
   Definitions only; soundness (deep_check = true -> scc_classes) is in Proofs/SccDeep.v.

   The checker needs comps listed in an order in which no edge leads from a later block to an earlier
   one (a topological order of the condensation).  That order is a CERTIFICATE: it is computed by
   the harness from the implementation's components and only checked here; a wrong or missing order
   can make the checker reject, never accept (soundness does not depend on where the order came from). *)
From Coq Require Import List NArith PArith FMapPositive Bool.
Import ListNotations.

Module SccDeep.
Module PM := PositiveMap.

Record graph := mkGraph { nv : N; edges : list (N * N) }.   (* (src, dst) *)

(* ---- specification (the definitions of Model/Scc.v over N) ---- *)
Inductive reach (g : graph) : N -> N -> Prop :=
| reach_refl x : reach g x x
| reach_step x y z : In (x, y) (edges g) -> reach g y z -> reach g x z.
Definition mutual (g : graph) (u v : N) : Prop := reach g u v /\ reach g v u.
Definition partition (n : N) (comps : list (list N)) : Prop :=
  NoDup (List.concat comps) /\ (forall v, In v (List.concat comps) <-> (v < n)%N) /\ ~ In [] comps.
Definition same_comp (comps : list (list N)) (u v : N) : Prop :=
  exists c, In c comps /\ In u c /\ In v c.
Definition scc_classes (g : graph) (comps : list (list N)) : Prop :=
  partition (nv g) comps
  /\ (forall u v, same_comp comps u v -> mutual g u v)
  /\ (forall u v, (u < nv g)%N -> mutual g u v -> same_comp comps u v).

(* ---- checker ---- *)
Definition key (v : N) : positive := N.succ_pos v.

(* adjacency lists *)
Definition adj := PM.t (list N).
Definition nbrs (m : adj) (v : N) : list N :=
  match PM.find (key v) m with Some l => l | None => [] end.
Definition add_edge (m : adj) (s d : N) : adj := PM.add (key s) (d :: nbrs m s) m.
Definition succ_map (es : list (N * N)) : adj :=
  fold_left (fun m e => add_edge m (fst e) (snd e)) es (PM.empty _).
Definition pred_map (es : list (N * N)) : adj :=
  fold_left (fun m e => add_edge m (snd e) (fst e)) es (PM.empty _).

(* vertex -> position of its block *)
Fixpoint tag (i : N) (comps : list (list N)) : list (N * N) :=
  match comps with
  | [] => []
  | c :: r => map (fun v => (v, i)) c ++ tag (N.succ i) r
  end.
Fixpoint build_idx (n : N) (l : list (N * N)) (m : PM.t N) : option (PM.t N) :=
  match l with
  | [] => Some m
  | (v, i) :: r =>
      if (v <? n)%N then
        match PM.find (key v) m with
        | Some _ => None                                   (* listed twice *)
        | None => build_idx n r (PM.add (key v) i m)
        end
      else None                                            (* not a vertex *)
  end.

Fixpoint upto (k : nat) (i : N) : list N :=
  match k with O => [] | S k' => i :: upto k' (N.succ i) end.

Definition edge_ok (m : PM.t N) (e : N * N) : bool :=
  match PM.find (key (fst e)) m, PM.find (key (snd e)) m with
  | Some a, Some b => (a <=? b)%N
  | _, _ => false
  end.

(* vertices reachable from the work list along [next], never leaving the block [inC] *)
Fixpoint closure (next : N -> list N) (inC : N -> bool) (fuel : nat) (vis : PM.t unit) (work : list N)
  : PM.t unit :=
  match fuel with
  | O => vis
  | S f =>
      match work with
      | [] => vis
      | v :: w =>
          if PM.mem (key v) vis || negb (inC v) then closure next inC f vis w
          else closure next inC f (PM.add (key v) tt vis) (next v ++ w)
      end
  end.

Definition check_comp (sm pm : adj) (m : PM.t N) (fuel : nat) (i : N) (c : list N) : bool :=
  match c with
  | [] => false
  | r :: _ =>
      let inC := fun v => match PM.find (key v) m with Some j => (j =? i)%N | None => false end in
      let F := closure (nbrs sm) inC fuel (PM.empty _) [r] in
      let B := closure (nbrs pm) inC fuel (PM.empty _) [r] in
      forallb (fun u => PM.mem (key u) F && PM.mem (key u) B) c
  end.
Fixpoint check_comps (sm pm : adj) (m : PM.t N) (fuel : nat) (i : N) (comps : list (list N)) : bool :=
  match comps with
  | [] => true
  | c :: r => check_comp sm pm m fuel i c && check_comps sm pm m fuel (N.succ i) r
  end.

Definition deep_check (g : graph) (comps : list (list N)) : bool :=
  match build_idx (nv g) (tag 0 comps) (PM.empty _) with
  | None => false
  | Some m =>
      forallb (fun v => PM.mem (key v) m) (upto (N.to_nat (nv g)) 0)
      && forallb (edge_ok m) (edges g)
      && check_comps (succ_map (edges g)) (pred_map (edges g)) m
                     (N.to_nat (nv g) + List.length (edges g) + 2) 0 comps
  end.

(* the reported largest component is one of the components and none is longer *)
Fixpoint list_eqb (a b : list N) : bool :=
  match a, b with
  | [], [] => true
  | x :: a', y :: b' => (x =? y)%N && list_eqb a' b'
  | _, _ => false
  end.
Definition check_largest (comps : list (list N)) (l : list N) : bool :=
  let k := List.length l in
  forallb (fun c => Nat.leb (List.length c) k) comps
  && (existsb (list_eqb l) comps || (match comps, l with [], [] => true | _, _ => false end)).

End SccDeep.
