(* Runner for the "deep" family of the C18 stream `scc` (Model/SccDeep.v).
   The nat model of Model/Scc.v is not evaluated at this size: the M line only repeats the summary
   of the implementation's output embedded in the term; the S line is the verified checker
   [SccDeep.deep_check] / [SccDeep.check_largest] on that output (components listed in the
   certificate order computed by the harness).
   Coq needs ~0.2 ms per numeral to elaborate a literal, so edge lists and component lists of
   20000 vertices are written run-length encoded by the harness and decoded here. *)
From Coq Require Import List NArith ZArith String Bool.
From RC Require Import Base.Show Model.SccDeep.
Import ListNotations.
Open Scope string_scope.

(* a, a+d, a+2d, ... (k numbers), d = +1 / -1 *)
Fixpoint run_go (k : nat) (a : Z) (d : Z) : list N :=
  match k with O => [] | S k' => Z.to_N a :: run_go k' (a + d)%Z d end.
Definition run (r : N * N * bool) : list N :=
  let '(a, k, up) := r in run_go (N.to_nat k) (Z.of_N a) (if up then 1 else -1)%Z.

(* components: a block given by runs, or k one-vertex blocks a, a+-1, ... *)
Inductive citem :=
| Blk (runs : list (N * N * bool))
| Singles (a : N) (k : N) (up : bool).
Definition decode_item (c : citem) : list (list N) :=
  match c with
  | Blk runs => [List.concat (map run runs)]
  | Singles a k up => map (fun v => [v]) (run (a, k, up))
  end.
Definition decode_comps (l : list citem) : list (list N) := List.concat (map decode_item l).
Definition decode_list (runs : list (N * N * bool)) : list N := List.concat (map run runs).

(* edges: k edges (s + i*ds, d + i*dd), i = 0..k-1 *)
Fixpoint erun_go (k : nat) (s d ds dd : Z) : list (N * N) :=
  match k with O => [] | S k' => (Z.to_N s, Z.to_N d) :: erun_go k' (s + ds)%Z (d + dd)%Z ds dd end.
Definition erun (r : N * N * Z * Z * N) : list (N * N) :=
  let '(s, d, ds, dd, k) := r in erun_go (N.to_nat k) (Z.of_N s) (Z.of_N d) ds dd.
Definition decode_edges (l : list (N * N * Z * Z * N)) : list (N * N) := List.concat (map erun l).

Definition deep_payload (comps : list (list N)) (largest : list N) : string :=
  "Ok deep ncomps=" ++ show_nat (List.length comps) ++ " largest_len=" ++ show_nat (List.length largest).

Definition line_deep_echo (id : Z) (comps : list citem) (largest : list (N * N * bool)) : string :=
  line "M" id (deep_payload (decode_comps comps) (decode_list largest)).

Definition line_deep_spec (id : Z) (n : N) (es : list (N * N * Z * Z * N)) (comps : list citem)
           (largest : list (N * N * bool)) : string :=
  let g := SccDeep.mkGraph n (decode_edges es) in
  let cs := decode_comps comps in
  let lg := decode_list largest in
  let a := SccDeep.deep_check g cs in
  let b := SccDeep.check_largest cs lg in
  line "S" id
    (if a && b then deep_payload cs lg
     else "REJECT classes=" ++ show_bool a ++ " largest=" ++ show_bool b).
