(* Runner used by the C18 correspondence stream `scc`.
   M line: the model's components (canonical: each sorted, list sorted) and its largest component.
   S line: the verified checker [Scc.check_scc] / [Scc.check_largest] evaluated on the
           IMPLEMENTATION's raw output (embedded in the term by the harness); when it accepts, the
           line repeats the canonical form of that output (so I = S), otherwise it says REJECT. *)
From Coq Require Import List Arith Bool String ZArith.
From RC Require Import Base.Show Base.Res Model.Scc.
Import ListNotations.
Open Scope string_scope.

Fixpoint ins_nat (x : nat) (l : list nat) : list nat :=
  match l with [] => [x] | y :: r => if Nat.leb x y then x :: l else y :: ins_nat x r end.
Definition sort_nat (l : list nat) : list nat := fold_right ins_nat [] l.

(* lexicographic order of Rust's Vec<usize>: a proper prefix is smaller *)
Fixpoint lex_leb (a b : list nat) : bool :=
  match a, b with
  | [], _ => true
  | _ :: _, [] => false
  | x :: a', y :: b' => if Nat.ltb x y then true else if Nat.ltb y x then false else lex_leb a' b'
  end.
Fixpoint ins_list (x : list nat) (l : list (list nat)) : list (list nat) :=
  match l with [] => [x] | y :: r => if lex_leb x y then x :: l else y :: ins_list x r end.
Definition canon (comps : list (list nat)) : list (list nat) :=
  fold_right ins_list [] (map sort_nat comps).

Definition show_comp (c : list nat) : string := show_list show_nat c.
Definition payload (comps : list (list nat)) (largest : list nat) : string :=
  "comps=" ++ show_list show_comp (canon comps) ++ " largest=" ++ show_comp (sort_nat largest).

Definition mkG (n : nat) (es : list (nat * nat)) : Scc.graph := Scc.mkGraph n es.

Definition line_model (id : Z) (g : Scc.graph) : string :=
  line "M" id
    (match Scc.all_strongly_connected_components g, Scc.largest_strongly_connected_component g with
     | Ok comps, Ok l => "Ok " ++ payload comps l
     | Ok _, r => show_res show_comp r
     | r, _ => show_res (fun _ => "") r
     end).

Definition line_spec (id : Z) (g : Scc.graph) (comps : list (list nat)) (largest : list nat) : string :=
  line "S" id
    (if negb (Scc.wfb g) then "unspecified"
     else if Scc.check_scc g comps && Scc.check_largest comps largest
          then "Ok " ++ payload comps largest
          else "REJECT classes=" ++ show_bool (Scc.check_scc g comps)
               ++ " largest=" ++ show_bool (Scc.check_largest comps largest)).

(* Cases built through Graph::from_files: an edge list that references a vertex missing from the
   vertex list is not a digraph and must be refused by the loader (LoadErr), decided here from wfb. *)
Definition line_model_files (id : Z) (g : Scc.graph) : string :=
  if Scc.wfb g then line_model id g else line "M" id "LoadErr".
Definition line_spec_files (id : Z) (g : Scc.graph) (comps : list (list nat)) (largest : list nat) : string :=
  if Scc.wfb g then line_spec id g comps largest else line "S" id "LoadErr".
Definition line_load_failed (id : Z) (g : Scc.graph) : string :=
  line "S" id (if Scc.wfb g then "a loaded graph" else "LoadErr").

(* SEQUENCE cases: several analyses in a row on one thread; every step is judged for its own
   graph.  A step whose Graph value mentions an edge id missing from the edge table is not a
   graph of the model: the specified outcome is the error (constant "Err EdgeNotFound" written
   by the harness into both lists).  The M / S line joins the per-step payloads. *)
Definition payload_model (g : Scc.graph) : string :=
  match Scc.all_strongly_connected_components g, Scc.largest_strongly_connected_component g with
  | Ok comps, Ok l => "Ok " ++ payload comps l
  | Ok _, r => show_res show_comp r
  | r, _ => show_res (fun _ => "") r
  end.
Definition payload_spec (g : Scc.graph) (comps : list (list nat)) (largest : list nat) : string :=
  if negb (Scc.wfb g) then "unspecified"
  else if Scc.check_scc g comps && Scc.check_largest comps largest
       then "Ok " ++ payload comps largest
       else "REJECT classes=" ++ show_bool (Scc.check_scc g comps)
            ++ " largest=" ++ show_bool (Scc.check_largest comps largest).
Definition line_seq (tag : string) (id : Z) (parts : list string) : string :=
  line tag id (join " || " parts).
