(* Executable model of the search core of routee-compass-core:
     algorithm/search/a_star/a_star_algorithm.rs   run_a_star, advance_search, get_last_traversed_edge_id
     algorithm/search/direction.rs                 incident edges, tree key / terminal vertex
     algorithm/search/backtrack.rs                 vertex_oriented_route
     algorithm/search/search_algorithm.rs          run_vertex_oriented (Dijkstra / A-star), run_edge_oriented
     util/priority_queue.rs + priority_queue crate push / push_increase / pop
   Definitions only (proofs live in Proofs/Search*.v).

   Everything a query configures is a Section variable, so theorems quantify over it:
     C, clt, cadd, czero      the cost type with f64's strict comparison and addition
     cfloor                   Cost::enforce_strictly_positive (the floor inside EdgeTraversal::total_cost)
     St                       the state vector
     frontier                 FrontierModel::valid_frontier        (edge, state, previous edge)
     traverse                 Direction::perform_edge_traversal    -> (access cost, traversal cost, result state)
     estimate                 SearchInstance::estimate_traversal_cost times the weight factor
     init_state               StateModel::initial_state
     terminate                TerminationModel::test as a function of (tree size, iterations);
                              the wall clock is a function of the iteration count in the model
   Labels (traversal_costs) and the tree (solution) are std++ gmaps keyed by vertex id; a missing
   label stands for Cost::INFINITY (finite, NaN-free costs are assumed throughout). *)
From Coq Require Import List Arith Bool String.
From stdpp Require Import gmap.
From RC Require Import Base.Res.
Import ListNotations.
Local Open Scope string_scope.

Module Search.

Inductive dir := Forward | Reverse.

Record edge := mkEdge { esrc : nat; edst : nat }.
(* edge id = position in the list; vertices are 0 .. nverts-1 *)
Record graph := mkGraph { nverts : nat; gedges : list edge }.

Definition get_edge (g : graph) (e : nat) : option edge := nth_error (gedges g) e.

Fixpoint edges_where (f : edge -> bool) (l : list edge) (i : nat) : list nat :=
  match l with
  | [] => []
  | e :: r => if f e then i :: edges_where f r (S i) else edges_where f r (S i)
  end.
(* Graph::out_edges_iter / in_edges_iter: adjacency keys in insertion order = ascending edge id *)
Definition out_edges (g : graph) (v : nat) : list nat := edges_where (fun e => Nat.eqb (esrc e) v) (gedges g) 0.
Definition in_edges (g : graph) (v : nat) : list nat := edges_where (fun e => Nat.eqb (edst e) v) (gedges g) 0.
Definition incident (d : dir) (g : graph) (v : nat) : list nat :=
  match d with Forward => out_edges g v | Reverse => in_edges g v end.
(* Direction::tree_key_vertex_id / terminal_vertex_id *)
Definition key_vertex (d : dir) (e : edge) : nat := match d with Forward => edst e | Reverse => esrc e end.
Definition term_vertex (d : dir) (e : edge) : nat := match d with Forward => esrc e | Reverse => edst e end.

Section Search.
  Context {C St : Type}.
  Variable clt : C -> C -> bool.
  Variable cadd : C -> C -> C.
  Variable czero : C.
  Variable cfloor : C -> C.      (* Cost::enforce_strictly_positive: the floor applied by EdgeTraversal::total_cost *)

  (* EdgeTraversal *)
  Record etrav := mkEt { et_edge : nat; et_access : C; et_trav : C; et_state : St }.
  (* EdgeTraversal::total_cost (as of /repo 693929c): the positive floor is enforced on the sum too *)
  Definition et_total (t : etrav) : C := cfloor (cadd (et_access t) (et_trav t)).
  (* SearchTreeBranch *)
  Record branch := mkBranch { b_term : nat; b_et : etrav }.

  Variable g : graph.
  Variable frontier : nat -> St -> option nat -> res bool.
  Variable traverse : dir -> nat -> option nat -> St -> res (C * C * St).
  Variable estimate : nat -> nat -> St -> res C.
  Variable init_state : res St.
  Variable terminate : nat -> nat -> option string.

  (* ---- priority queue: item -> cost, minimum cost first ---- *)
  Definition pqueue := list (nat * C).
  Fixpoint pq_push_increase (q : pqueue) (v : nat) (c : C) : pqueue :=
    match q with
    | [] => [(v, c)]
    | (v', c') :: r =>
        if Nat.eqb v' v then (if clt c c' then (v', c) :: r else (v', c') :: r)
        else (v', c') :: pq_push_increase r v c
    end.
  (* first entry of minimal cost (the crate's tie-breaking is unspecified; tie-free cases only
     are compared by equality with the implementation) *)
  Fixpoint pq_min (q : pqueue) : option (nat * C) :=
    match q with
    | [] => None
    | (v, c) :: r =>
        match pq_min r with
        | None => Some (v, c)
        | Some (v', c') => if clt c' c then Some (v', c') else Some (v, c)
        end
    end.
  Fixpoint pq_remove (q : pqueue) (v : nat) : pqueue :=
    match q with
    | [] => []
    | (v', c') :: r => if Nat.eqb v' v then r else (v', c') :: pq_remove r v
    end.
  Definition pq_pop (q : pqueue) : option (nat * C * pqueue) :=
    match pq_min q with
    | None => None
    | Some (v, c) => Some (v, c, pq_remove q v)
    end.

  Record sstate := mkS {
    s_pq : pqueue;                  (* costs *)
    s_g : gmap nat C;               (* traversal_costs *)
    s_tree : gmap nat branch;       (* solution *)
    s_iters : nat
  }.

  (* the body of the `for edge_id in incident_edge_iterator` loop *)
  Definition relax (d : dir) (target : option nat) (cur_state : St) (last_edge : option nat)
             (s : sstate) (eid : nat) : res sstate :=
    match get_edge g eid with
    | None => Err "graph: unknown edge"
    | Some e =>
        let tv := term_vertex d e in
        let kv := key_vertex d e in
        do ok <- frontier eid cur_state last_edge;
        if negb ok then Ok s else
        do r <- traverse d eid last_edge cur_state;
        let '(ac, tc, st') := r in
        let et := mkEt eid ac tc st' in
        match s_g s !! tv with
        | None => Ok s                      (* INFINITY + c < x is false *)
        | Some gcur =>
            let tentative := cadd gcur (et_total et) in
            let better := match s_g s !! kv with None => true | Some ex => clt tentative ex end in
            if better then
              do h <- match target with
                      | None => Ok czero
                      | Some t => estimate kv t cur_state
                      end;
              Ok (mkS (pq_push_increase (s_pq s) kv (cadd tentative h))
                      (<[kv := tentative]> (s_g s))
                      (<[kv := mkBranch tv et]> (s_tree s))
                      (s_iters s))
            else Ok s
        end
    end.

  Fixpoint relax_all (d : dir) (target : option nat) (cur_state : St) (last_edge : option nat)
           (s : sstate) (es : list nat) : res sstate :=
    match es with
    | [] => Ok s
    | eid :: r => do s' <- relax d target cur_state last_edge s eid; relax_all d target cur_state last_edge s' r
    end.

  (* one iteration of `loop { ... }`: inl = continue with the new state, inr = the loop ended *)
  Definition step (d : dir) (source : nat) (target : option nat) (init : St) (s : sstate)
    : res (sstate + sstate) :=
    match terminate (size (s_tree s)) (s_iters s) with
    | Some why => Err ("terminated: " ++ why)
    | None =>
        match pq_pop (s_pq s) with
        | None => match target with
                  | Some _ => Err "nopath"
                  | None => Ok (inr s)
                  end
        | Some (v, _, q') =>
            let s1 := mkS q' (s_g s) (s_tree s) (s_iters s) in
            if (match target with Some t => Nat.eqb v t | None => false end) then Ok (inr s1)
            else
              do le_st <- (if Nat.eqb v source then Ok (None, init)
                           else match s_tree s !! v with
                                | Some b => Ok (Some (et_edge (b_et b)), et_state (b_et b))
                                | None => Err "internal: vertex missing from solution"
                                end);
              let '(last_edge, cur_state) := le_st in
              do s2 <- relax_all d target cur_state last_edge s1 (incident d g v);
              Ok (inl (mkS (s_pq s2) (s_g s2) (s_tree s2) (S (s_iters s2))))
        end
    end.

  Fixpoint run_loop (fuel : nat) (d : dir) (source : nat) (target : option nat) (init : St) (s : sstate)
    : res sstate :=
    match fuel with
    | 0 => OutOfFuel
    | S f =>
        do r <- step d source target init s;
        match r with
        | inl s' => run_loop f d source target init s'
        | inr s' => Ok s'
        end
    end.

  (* run_a_star: (tree, iterations) *)
  Definition run_a_star (fuel : nat) (d : dir) (source : nat) (target : option nat)
    : res (gmap nat branch * nat) :=
    (* /repo e7c3cbc: a source vertex that is not in the graph is an error, with or without a target *)
    if negb (Nat.ltb source (nverts g)) then Err "graph: unknown vertex" else
    if (match target with Some t => Nat.eqb t source | None => false end) then Ok (∅, 0)
    else
      do init <- init_state;
      do h0 <- match target with None => Ok czero | Some t => estimate source t init end;
      do s <- run_loop fuel d source target init (mkS [(source, h0)] {[source := czero]} ∅ 0);
      Ok (s_tree s, s_iters s).

  (* the full final search state, for invariants and for printing labels *)
  Definition run_a_star_state (fuel : nat) (d : dir) (source : nat) (target : option nat) : res sstate :=
    if negb (Nat.ltb source (nverts g)) then Err "graph: unknown vertex" else
    do init <- init_state;
    do h0 <- match target with None => Ok czero | Some t => estimate source t init end;
    run_loop fuel d source target init (mkS [(source, h0)] {[source := czero]} ∅ 0).

  (* backtrack::vertex_oriented_route: walk parents from target to source, then reverse *)
  Fixpoint backtrack_loop (fuel : nat) (source : nat) (tree : gmap nat branch) (this : nat)
           (visited : list nat) (acc : list etrav) : res (list etrav) :=
    if Nat.eqb this source then Ok acc      (* acc is built by consing: already reversed *)
    else match fuel with
         | 0 => OutOfFuel
         | S f =>
             match tree !! this with
             | None => Err "internal: tree missing vertex in backtrack"
             | Some b =>
                 let e := et_edge (b_et b) in
                 if existsb (Nat.eqb e) visited then Err "internal: loop in search result"
                 else backtrack_loop f source tree (b_term b) (e :: visited) (b_et b :: acc)
             end
         end.
  Definition vertex_oriented_route (source target : nat) (tree : gmap nat branch) : res (list etrav) :=
    backtrack_loop (S (size tree)) source tree target [] [].

  (* SearchAlgorithmResult *)
  Record sresult := mkR { r_trees : list (gmap nat branch); r_routes : list (list etrav); r_iters : nat }.

  (* SearchAlgorithm::{Dijkstra, AStarAlgorithm}::run_vertex_oriented (Dijkstra is A-star whose
     [estimate] is multiplied by weight factor 0; that is part of how [estimate] is instantiated) *)
  Definition run_vertex_oriented (fuel : nat) (d : dir) (source : nat) (target : option nat) : res sresult :=
    do r <- run_a_star fuel d source target;
    let '(tree, it) := r in
    match target with
    | None => Ok (mkR [tree] [] it)
    | Some t => do route <- vertex_oriented_route source t tree; Ok (mkR [tree] [route] it)
    end.

  (* search_algorithm.rs::run_edge_oriented (as of /repo 393b35c), generic in the vertex-oriented algorithm [alg].
     The vertex roles of the two query edges follow the search direction [d]:
       a = Direction::terminal_vertex_id (where the search enters the edge), b = tree_key_vertex_id. *)
  Section EdgeOriented.
    Variable d : dir.
    Variable alg : nat -> option nat -> res sresult.       (* run_vertex_oriented of the algorithm, direction d *)

    Definition run_edge_oriented (source : nat) (target : option nat) : res sresult :=
      match get_edge g source with
      | None => Err "graph: unknown edge"
      | Some e1 =>
          let a1 := term_vertex d e1 in
          let b1 := key_vertex d e1 in
          do init <- init_state;
          let src_et := mkEt source czero czero init in
          match target with
          | None =>
              do r <- alg b1 None;
              let graft (t : gmap nat branch) :=
                if Nat.eqb a1 b1 then t
                else match t !! b1, t !! a1 with
                     | None, None => <[b1 := mkBranch a1 src_et]> t
                     | _, _ => t
                     end in
              Ok (mkR (map graft (r_trees r)) (map (fun rt => src_et :: rt) (r_routes r)) (S (r_iters r)))
          | Some te =>
              match get_edge g te with
              | None => Err "graph: unknown edge"
              | Some e2 =>
                  let a2 := term_vertex d e2 in
                  let b2 := key_vertex d e2 in
                  if Nat.eqb source te then Ok (mkR [] [] 0)
                  else if Nat.eqb b1 a2 then
                    do init2 <- init_state;
                    do r1 <- traverse d source None init2;
                    let '(ac1, tc1, s1) := r1 in
                    do r2 <- traverse d te (Some source) s1;
                    let '(ac2, tc2, s2) := r2 in
                    let et1 := mkEt source ac1 tc1 s1 in
                    let et2 := mkEt te ac2 tc2 s2 in
                    let tr0 : gmap nat branch := if Nat.eqb b1 a1 then ∅ else {[b1 := mkBranch a1 et1]} in
                    let tr1 := if negb (Nat.eqb b2 a1) && negb (Nat.eqb b2 b1)
                               then <[b2 := mkBranch a2 et2]> tr0 else tr0 in
                    Ok (mkR [tr1] [[et1; et2]] 1)
                  else
                    do r <- alg b1 (Some a2);
                    if Nat.eqb (List.length (r_trees r)) 0 then Err "nopath"
                    else
                      do routes <- (fix go (rs : list (list etrav)) : res (list (list etrav)) :=
                                      match rs with
                                      | [] => Ok []
                                      | rt :: rest =>
                                          match last rt with
                                          | None => Err "internal: found empty result route"
                                          | Some fin =>
                                              do rest' <- go rest;
                                              Ok ((src_et :: rt ++ [mkEt te czero czero (et_state fin)]) :: rest')
                                          end
                                      end) (r_routes r);
                      Ok (mkR (r_trees r) routes (S (S (r_iters r))))
              end
          end
      end.
  End EdgeOriented.
End Search.

Arguments etrav : clear implicits.
Arguments branch : clear implicits.
Arguments sstate : clear implicits.
Arguments sresult : clear implicits.
End Search.
