(* Runner of the search model for the correspondence streams (C01 and the properties that import the
   search core: C02 C04 C05 C10 C13).  Counterpart of harness/src/searchkit.rs.

   A [world N] is a complete table-driven search configuration over the numeric instance N
   (FN = binary64, bit for bit what the Rust code computes; QN = exact rationals):
     graph (edge id = position), per-edge cost table (the state increment of TableTraversal), per-vertex
     heuristic table (the state increment of estimate_traversal), turn increments (TableAccess), frontier
     tables (TableFrontier), termination model, initial state.
   [traverse] transcribes EdgeTraversal::forward_traversal / reverse_traversal specialised to that
   configuration (one state feature, weight 1, VehicleCostRate::Raw, no network rates, Sum aggregation),
   keeping the ORDER of the floating-point operations of cost_ops.rs / cost_model.rs.

   Lines:  line_M  the model's outcome (or TIE when the run popped among equal priorities, where the
                   priority_queue crate's choice is unspecified),
           line_S  the verified checkers of Model/SearchSpec.v evaluated on the IMPLEMENTATION's outcome:
                   prints that outcome back when they accept, REJECT(..) otherwise.
   Definitions only. *)
From Coq Require Import ZArith QArith List Arith Bool String Ascii Floats.
From stdpp Require Import gmap.
From RC Require Import Base.Show Base.Res Base.Num Model.Search Model.SearchSpec.
Import ListNotations.
Local Open Scope string_scope.

Module SR.
Import Search SearchSpec.

Class ShowNum (N : Num) := show_num : N -> string.
Global Instance show_FN : ShowNum FN := show_float.
Global Instance show_QN : ShowNum QN := show_Q.

(* TerminationModel without the wall clock *)
Inductive term := TUnlimited | TIter (n : nat) | TSize (n : nat) | TCombined (l : list term).
Fixpoint term_fires (t : term) (size iters : nat) : bool :=
  match t with
  | TUnlimited => false
  | TIter n => Nat.ltb n (iters + 1)          (* iteration + 1 > limit *)
  | TSize n => Nat.ltb n size                 (* solution_size > limit *)
  | TCombined l => (fix any (l : list term) : bool :=
                      match l with [] => false | x :: r => orb (term_fires x size iters) (any r) end) l
  end.

Inductive orient := OVertex | OEdge.

Definition memn (x : nat) (l : list nat) : bool := existsb (Nat.eqb x) l.
Definition memp (a b : nat) (l : list (nat * nat)) : bool :=
  existsb (fun p => Nat.eqb (fst p) a && Nat.eqb (snd p) b) l.

Section Run.
  Variable N : Num.

  Inductive algo := ADijkstra | AAStar (wf : option N).

  Record world := mkW {
    w_n : nat;
    w_edges : list (nat * nat);
    w_cost : list N;
    w_h : list N;
    w_turn : list (nat * nat * N);
    w_forbid : list nat;
    w_fturn : list (nat * nat);
    w_ferr : list nat;
    w_terr : list nat;
    w_term : term;
    w_init : N
  }.
  Record query := mkQ {
    q_alg : algo; q_dir : dir; q_orient : orient; q_source : nat; q_target : option nat; q_wf : option N
  }.
  (* canonical outcome; trees as (vertex, parent, edge, access cost, traversal cost, state) sorted by vertex,
     routes as (edge, access cost, traversal cost, state) *)
  Record outcome := mkO {
    o_status : string; o_iters : nat;
    o_trees : list (list (nat * nat * nat * N * N * N));
    o_routes : list (list (nat * N * N * N))
  }.

  Definition graph_of (w : world) : graph :=
    mkGraph (w_n w) (map (fun p => mkEdge (fst p) (snd p)) (w_edges w)).

  (* HashMap built from the pairs: a later duplicate wins *)
  Definition turn_lookup (l : list (nat * nat * N)) (a b : nat) : option N :=
    fold_left (fun acc x => if Nat.eqb (fst (fst x)) a && Nat.eqb (snd (fst x)) b then Some (snd x) else acc) l None.

  (* ---- cost model (cost_ops.rs / cost_model.rs), one feature, weight 1, Raw rate, Sum ---- *)
  Definition min_cost : N := lit 1 (-10).                       (* Cost::MIN_COST = 0.0000000001 *)
  Definition pos (x : N) : N := if leb x zero then min_cost else x.      (* enforce_strictly_positive *)
  Definition nonneg (x : N) : N := if ltb x zero then zero else x.       (* enforce_non_negative *)
  (* calculate_vehicle_costs: sum over the single feature of (next - prev) * weight *)
  Definition vehicle (prev next : N) : N := add zero (mul (sub next prev) one).

  (* EdgeTraversal::{forward,reverse}_traversal -> (access cost, traversal cost, result state) *)
  Definition traverse (w : world) (d : dir) (eid : nat) (last : option nat) (st : N) : res (N * N * N) :=
    let '(ac, st1) :=
      match last with
      | None => (zero, st)
      | Some l =>
          let '(p, n) := match d with Forward => (l, eid) | Reverse => (eid, l) end in
          let st1 := match turn_lookup (w_turn w) p n with Some c => add st c | None => st end in
          (* access_cost = ZERO + enforce_strictly_positive(vehicle + network_access) *)
          (add zero (pos (add (vehicle st st1) zero)), st1)
      end in
    if memn eid (w_terr w) then Err "traversal" else
    let st2 := add st1 (nth eid (w_cost w) zero) in
    (* edge_cost = enforce_strictly_positive(vehicle + network + network_access); traversal = total - access *)
    let total := pos (add (add (vehicle st st2) zero) zero) in
    Ok (ac, sub total ac, st2).

  (* SearchInstance::estimate_traversal_cost times the weight factor *)
  Definition estimate (w : world) (wf : N) (src dst : nat) (st : N) : res N :=
    if negb (Nat.ltb src (w_n w)) || negb (Nat.ltb dst (w_n w)) then Err "graph: unknown vertex" else
    let dst_state := add st (nth src (w_h w) zero) in
    Ok (mul (nonneg (vehicle st dst_state)) wf).

  Definition frontier (w : world) (eid : nat) (st : N) (last : option nat) : res bool :=
    if memn eid (w_ferr w) then Err "frontier" else
    Ok (negb (memn eid (w_forbid w))
        && negb (match last with Some l => memp l eid (w_fturn w) | None => false end)).

  Definition terminate (w : world) (size iters : nat) : option string :=
    if term_fires (w_term w) size iters then Some "limit" else None.

  (* weight factor in force: the query's "weight_factor" overrides the algorithm's (also for Dijkstra,
     which delegates to A-star with Some 0); A-star without a factor uses 1 *)
  Definition eff_wf (q : query) : N :=
    match q_wf q with
    | Some x => x
    | None => match q_alg q with
              | ADijkstra => zero
              | AAStar None => one
              | AAStar (Some x) => x
              end
    end.

  Definition run_vertex (fuel : nat) (w : world) (q : query) (s : nat) (t : option nat) : res (sresult N N) :=
    run_vertex_oriented (C:=N) (St:=N) ltb add zero pos (graph_of w) (frontier w) (traverse w)
      (estimate w (eff_wf q)) (Ok (w_init w)) (terminate w) fuel (q_dir q) s t.

  Definition run (fuel : nat) (w : world) (q : query) : res (sresult N N) :=
    match q_orient q with
    | OVertex => run_vertex fuel w q (q_source q) (q_target q)
    | OEdge => run_edge_oriented (C:=N) (St:=N) zero (graph_of w) (traverse w) (Ok (w_init w)) (q_dir q)
                 (run_vertex fuel w q) (q_source q) (q_target q)
    end.

  (* ---- tie detection: did some pop choose among two or more entries of minimal priority? ---- *)
  Definition pq_tie (q : list (nat * N)) : bool :=
    match pq_min (C:=N) ltb q with
    | None => false
    | Some (_, c) => Nat.ltb 1 (List.length (filter (fun p => negb (ltb c (snd p))) q))
    end.
  Fixpoint loop_ties (fuel : nat) (w : world) (wf : N) (d : dir) (source : nat) (target : option nat)
           (s : sstate N N) : bool :=
    match fuel with
    | 0 => false
    | S f =>
        pq_tie (s_pq s)
        || match step (C:=N) (St:=N) ltb add zero pos (graph_of w) (frontier w) (traverse w) (estimate w wf)
                   (terminate w) d source target (w_init w) s with
           | Ok (inl s') => loop_ties f w wf d source target s'
           | _ => false
           end
    end.
  Definition vertex_ties (fuel : nat) (w : world) (q : query) (source : nat) (target : option nat) : bool :=
    if (match target with Some t => Nat.eqb t source | None => false end) then false else
    match (match target with None => Ok zero | Some t => estimate w (eff_wf q) source t (w_init w) end) with
    | Ok h0 => loop_ties fuel w (eff_wf q) (q_dir q) source target
                 (mkS [(source, h0)] {[source := zero]} ∅ 0)
    | _ => false
    end.
  Definition has_tie (fuel : nat) (w : world) (q : query) : bool :=
    match q_orient q with
    | OVertex => vertex_ties fuel w q (q_source q) (q_target q)
    | OEdge =>
        match get_edge (graph_of w) (q_source q) with
        | None => false
        | Some e1 =>
            let b1 := key_vertex (q_dir q) e1 in
            match q_target q with
            | None => vertex_ties fuel w q b1 None
            | Some te =>
                match get_edge (graph_of w) te with
                | None => false
                | Some e2 =>
                    let a2 := term_vertex (q_dir q) e2 in
                    if Nat.eqb (q_source q) te || Nat.eqb b1 a2 then false
                    else vertex_ties fuel w q b1 (Some a2)
                end
            end
        end
    end.

  (* ---- canonical outcome of a model run ---- *)
  Fixpoint ins_sorted (x : nat * branch N N) (l : list (nat * branch N N)) : list (nat * branch N N) :=
    match l with
    | [] => [x]
    | y :: r => if Nat.leb (fst x) (fst y) then x :: l else y :: ins_sorted x r
    end.
  Definition tree_list (t : gmap nat (branch N N)) : list (nat * nat * nat * N * N * N) :=
    map (fun kb => let b := snd kb in
                   (fst kb, b_term b, et_edge (b_et b), et_access (b_et b), et_trav (b_et b), et_state (b_et b)))
        (fold_right ins_sorted [] (map_to_list t)).
  Definition hop_of (e : etrav N N) : nat * N * N * N := (et_edge e, et_access e, et_trav e, et_state e).

  Fixpoint before_colon (s : string) : string :=
    match s with
    | EmptyString => EmptyString
    | String c r => if Ascii.eqb c ":"%char then EmptyString else String c (before_colon r)
    end.
  Definition status_of_err (c : string) : string :=
    let p := before_colon c in
    if String.eqb p "nopath" then "nopath" else if String.eqb p "terminated" then "terminated" else "err:" ++ p.

  Definition outcome_of (r : res (sresult N N)) : outcome :=
    match r with
    | Ok x => mkO "Ok" (r_iters x) (map tree_list (r_trees x)) (map (map hop_of) (r_routes x))
    | Err c => mkO (status_of_err c) 0 [] []
    | Panic _ => mkO "Panic" 0 [] []
    | OutOfFuel => mkO "Hang" 0 [] []
    end.

  Context `{ShowNum N}.

  Definition show_branch (detail : nat) (x : nat * nat * nat * N * N * N) : string :=
    let '(v, p, e, ac, tc, st) := x in
    match detail with
    | 0 => "(" ++ show_nat v ++ "," ++ show_nat p ++ "," ++ show_nat e ++ ")"
    | _ => "(" ++ show_nat v ++ "," ++ show_nat p ++ "," ++ show_nat e ++ "," ++ show_num ac ++ ","
           ++ show_num tc ++ "," ++ show_num st ++ ")"
    end.
  Definition show_hop (detail : nat) (x : nat * N * N * N) : string :=
    let '(e, ac, tc, st) := x in
    match detail with
    | 0 => show_nat e
    | _ => "(" ++ show_nat e ++ "," ++ show_num ac ++ "," ++ show_num tc ++ "," ++ show_num st ++ ")"
    end.
  (* identical to searchkit::show_outcome *)
  Definition show_outcome (o : outcome) (detail : nat) : string :=
    if String.eqb (o_status o) "Ok" then
      "Ok it=" ++ show_nat (o_iters o)
      ++ " trees=" ++ show_list (show_list (show_branch detail)) (o_trees o)
      ++ " routes=" ++ show_list (show_list (show_hop detail)) (o_routes o)
    else o_status o.

  Definition line_M (fuel : nat) (id : Z) (w : world) (q : query) (detail : nat) : string :=
    line "M" id (if has_tie fuel w q then "TIE" else show_outcome (outcome_of (run fuel w q)) detail).

  (* ---- the verified checkers on an outcome (the implementation's) ---- *)
  Definition triples (t : list (nat * nat * nat * N * N * N)) : list triple :=
    map (fun x => let '(v, p, e, _, _, _) := x in (v, p, e)) t.
  Definition route_edges (r : list (nat * N * N * N)) : list nat :=
    map (fun x => let '(e, _, _, _) := x in e) r.

  (* None = accepted; Some why = the outcome violates the property (or is a crash) *)
  Definition check_outcome (w : world) (q : query) (o : outcome) : option string :=
    let g := graph_of w in
    let d := q_dir q in
    if String.eqb (o_status o) "Panic" || String.eqb (o_status o) "Hang" then Some "crash" else
    if negb (String.eqb (o_status o) "Ok") then None else
    match q_orient q with
    | OVertex =>
        if negb (forallb (fun t => check_tree g d (q_source q) (triples t)) (o_trees o)) then Some "tree" else
        match q_target q with
        | None => None
        | Some t =>
            if Nat.eqb t (q_source q) then None      (* origin = destination: outside the property *)
            else match o_routes o with
                 | [] => Some "no route"
                 | rs => if forallb (fun r => check_route g d (q_source q) t (route_edges r)) rs then None
                         else Some "route"
                 end
        end
    | OEdge =>
        match q_target q with
        | None =>
            if forallb (fun t => check_etree g d (q_source q) (triples t)) (o_trees o) then None else Some "tree"
        | Some te =>
            if Nat.eqb te (q_source q) then None     (* origin = destination: outside the property *)
            else if negb (forallb (fun t => check_etree g d (q_source q) (triples t)) (o_trees o)) then Some "tree"
            else match o_routes o with
                 | [] => Some "no route"
                 | rs => if forallb (fun r => check_eroute g d (q_source q) te (route_edges r)) rs then None
                         else Some "route"
                 end
        end
    end.

  (* k-shortest-paths results (Yen): every returned route is judged by the chain clause only (non-empty, leaves the
     source, chained, arrives at the target, every edge exists) and every returned tree by the tree clause; count,
     distinctness and order of the alternatives are C13's. Forward searches only. *)
  Definition check_ksp_outcome (w : world) (s t : nat) (o : outcome) : option string :=
    let g := graph_of w in
    if negb (String.eqb (o_status o) "Ok") then None else
    if negb (forallb (fun tr => check_tree g Forward s (triples tr)) (o_trees o)) then Some "tree" else
    if forallb (fun r => check_kroute g Forward s t (route_edges r)) (o_routes o) then None else Some "route".
  Definition line_S_ksp (id : Z) (w : world) (s t : nat) (o : outcome) (detail : nat) : string :=
    line "S" id (match check_ksp_outcome w s t o with
                 | None => show_outcome o detail
                 | Some why => "REJECT(" ++ why ++ ") " ++ show_outcome o 0
                 end).

  Definition line_S (id : Z) (w : world) (q : query) (o : outcome) (detail : nat) : string :=
    line "S" id (match check_outcome w q o with
                 | None => show_outcome o detail
                 | Some why => "REJECT(" ++ why ++ ") " ++ show_outcome o 0
                 end).
End Run.

(* ---- long routes (family long_route of the walk stream) ----
   A chain 0 -> 1 -> ... -> n (optionally with one dead-end side branch per chain vertex) has exactly ONE walk between
   its two ends, so the property fixes the returned route completely: all n chain edges, in chain order for a Forward
   search (vertex 0 -> n, or first chain edge -> last chain edge) and in the opposite order for a Reverse search.  The
   verified check_route is quadratic over unary naturals (a 2,000-edge chain takes ~30 s under vm_compute), so routes
   of 65,000+ edges are judged through summary facts the harness computes on the implementation's route (length, first
   and last edge, number of joints where consecutive edges do not meet, repeated / unknown edges, rolling digest of the
   edge id sequence); this line prints the closed-form expectation. *)
Inductive lshape := LPlain | LRevIds | LBranch.
(* edge id of the i-th chain edge (i -> i+1), 0 <= i < n *)
Definition long_edge_id (sh : lshape) (n i : Z) : Z :=
  match sh with LPlain => i | LRevIds => (n - 1 - i)%Z | LBranch => (2 * i)%Z end.
Definition long_digest (sh : lshape) (n : Z) (reverse : bool) : Z :=
  snd (Z.iter n (fun st : Z * Z =>
                   let '(i, h) := st in
                   let ci := if reverse then (n - 1 - i)%Z else i in
                   ((i + 1)%Z, ((h * 1000003 + long_edge_id sh n ci) mod 9223372036854775808)%Z))
         (0%Z, 7%Z)).
Definition line_S_long (id : Z) (sh : lshape) (n : Z) (reverse : bool) : string :=
  line "S" id ("Ok len=" ++ show_Z n ++ " leaves_origin=T enters_destination=T breaks=0 repeats=0 unknown_edges=0 digest="
               ++ show_Z (long_digest sh n reverse)).
End SR.
