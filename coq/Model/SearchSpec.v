(* C01: the Prop-level specification of "routes are contiguous walks, trees are rooted trees" and the boolean
   checkers that the correspondence stream evaluates (with vm_compute) on the IMPLEMENTATION's output.
   Definitions only; soundness and completeness of the checkers are proved in Proofs/SearchCheck.v.

   Everything is stated relative to the search direction [d]: an edge "joins a to b" when its
   [term_vertex d] (the near end: src for Forward, dst for Reverse) is a and its [key_vertex d] (the far
   end) is b.  For Forward this is the ordinary reading (first edge leaves the origin, every edge starts
   where the previous one ended, the last edge arrives at the destination).  For Reverse the route is
   returned in the order it was found from the search source, i.e. it is a walk from source to target in
   the reversed network; read backwards it is an ordinary walk from the target to the source. *)
From Coq Require Import List Arith Bool.
From stdpp Require Import gmap.
From RC Require Import Model.Search.
Import ListNotations.

Module SearchSpec.
Import Search.

(* ---------------------------------------------------------------- routes *)
Definition edge_joins (g : graph) (d : dir) (e a b : nat) : Prop :=
  exists ed, get_edge g e = Some ed /\ term_vertex d ed = a /\ key_vertex d ed = b.

(* [walk g d a r c]: the edge ids r form a contiguous walk from a to c *)
Inductive walk (g : graph) (d : dir) : nat -> list nat -> nat -> Prop :=
| walk_nil a : walk g d a [] a
| walk_cons a e b r c : edge_joins g d e a b -> walk g d b r c -> walk g d a (e :: r) c.

(* vertex-oriented: non-empty, leaves s, chained, arrives at t, no edge twice *)
Definition route_ok (g : graph) (d : dir) (s t : nat) (r : list nat) : Prop :=
  r <> [] /\ walk g d s r t /\ List.NoDup r.

(* a route of a k-shortest-paths algorithm, as far as C01 judges it (count, distinctness, order and looplessness
   of the alternatives belong to C13): non-empty, leaves s, chained, arrives at t, every edge exists *)
Definition kroute_ok (g : graph) (d : dir) (s t : nat) (r : list nat) : Prop :=
  r <> [] /\ walk g d s r t.

(* edge-oriented: the first edge is the origin edge, the last one the destination edge, chained, no edge twice *)
Definition eroute_ok (g : graph) (d : dir) (e1 e2 : nat) (r : list nat) : Prop :=
  exists ed1 ed2 mid, get_edge g e1 = Some ed1 /\ get_edge g e2 = Some ed2 /\
    r = e1 :: mid ++ [e2] /\
    walk g d (term_vertex d ed1) r (key_vertex d ed2) /\ List.NoDup r.

(* ---------------------------------------------------------------- trees *)
(* a tree is given as the list of its entries (vertex, parent vertex, edge id) *)
Definition triple := (nat * nat * nat)%type.
Definition tkey (x : triple) : nat := fst (fst x).
Definition tpar (x : triple) : nat := snd (fst x).
Definition tedge (x : triple) : nat := snd x.

Definition parents (l : list triple) : gmap nat nat :=
  list_to_map (map (fun x => (tkey x, tpar x)) l).

(* [chain t s v c]: c = v, parent v, parent (parent v), ... ending in a vertex whose parent is s *)
Inductive chain (t : gmap nat nat) (s : nat) : nat -> list nat -> Prop :=
| chain_root v : t !! v = Some s -> chain t s v [v]
| chain_step v u c : t !! v = Some u -> u <> s -> chain t s u c -> chain t s v (v :: c).

Definition tree_ok (g : graph) (d : dir) (s : nat) (l : list triple) : Prop :=
  List.NoDup (map tkey l) /\
  (forall x, In x l -> edge_joins g d (tedge x) (tpar x) (tkey x)) /\
  parents l !! s = None /\
  (forall x, In x l -> exists c, chain (parents l) s (tkey x) c /\ List.NoDup c).

(* edge-oriented searches root their tree at one of the two ends of the origin edge *)
Definition etree_ok (g : graph) (d : dir) (e1 : nat) (l : list triple) : Prop :=
  exists ed1, get_edge g e1 = Some ed1 /\ (tree_ok g d (esrc ed1) l \/ tree_ok g d (edst ed1) l).

(* ---------------------------------------------------------------- boolean checkers *)
Fixpoint nodupb (l : list nat) : bool :=
  match l with
  | [] => true
  | x :: r => negb (existsb (Nat.eqb x) r) && nodupb r
  end.

Definition joins_b (g : graph) (d : dir) (e a b : nat) : bool :=
  match get_edge g e with
  | Some ed => Nat.eqb (term_vertex d ed) a && Nat.eqb (key_vertex d ed) b
  | None => false
  end.

Fixpoint walk_b (g : graph) (d : dir) (a : nat) (r : list nat) (t : nat) : bool :=
  match r with
  | [] => Nat.eqb a t
  | e :: r' =>
      match get_edge g e with
      | Some ed => Nat.eqb (term_vertex d ed) a && walk_b g d (key_vertex d ed) r' t
      | None => false
      end
  end.

Definition check_route (g : graph) (d : dir) (s t : nat) (r : list nat) : bool :=
  negb (match r with [] => true | _ => false end) && walk_b g d s r t && nodupb r.

Definition check_kroute (g : graph) (d : dir) (s t : nat) (r : list nat) : bool :=
  negb (match r with [] => true | _ => false end) && walk_b g d s r t.

Definition check_eroute (g : graph) (d : dir) (e1 e2 : nat) (r : list nat) : bool :=
  match get_edge g e1, get_edge g e2 with
  | Some ed1, Some ed2 =>
      match r with
      | f :: (_ :: _) as r' =>
          Nat.eqb f e1 && Nat.eqb (List.last r' f) e2
          && walk_b g d (term_vertex d ed1) r (key_vertex d ed2) && nodupb r
      | _ => false
      end
  | _, _ => false
  end.

Fixpoint lookup_par (l : list triple) (v : nat) : option nat :=
  match l with
  | [] => None
  | x :: r => if Nat.eqb (tkey x) v then Some (tpar x) else lookup_par r v
  end.

Fixpoint reaches (l : list triple) (s : nat) (fuel : nat) (v : nat) : bool :=
  match fuel with
  | 0 => false
  | S f =>
      match lookup_par l v with
      | None => false
      | Some p => if Nat.eqb p s then true else reaches l s f p
      end
  end.

Definition check_tree (g : graph) (d : dir) (s : nat) (l : list triple) : bool :=
  nodupb (map tkey l)
  && forallb (fun x => joins_b g d (tedge x) (tpar x) (tkey x)) l
  && negb (existsb (Nat.eqb s) (map tkey l))
  && forallb (fun x => reaches l s (List.length l) (tkey x)) l.

Definition check_etree (g : graph) (d : dir) (e1 : nat) (l : list triple) : bool :=
  match get_edge g e1 with
  | Some ed1 => check_tree g d (esrc ed1) l || check_tree g d (edst ed1) l
  | None => false
  end.

End SearchSpec.
