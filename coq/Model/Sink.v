(* C19 - model of the response file sink of routee-compass
   (rust/routee-compass/src/app/compass/response/*.rs).  Definitions only, no proofs.

   Part 1 (SK.Fmt): ResponseOutputFormat::{initial,final}_file_contents / format_response for
     Json{newline_delimited} and Csv{mapping, sorted} over Base/Json.v values, with
     CsvMapping::apply_mapping (Path / Sum / Optional), serde_json's compact and pretty
     printers, the error / csv_error update of the response, WriteMode::open_file and
     ResponseOutputPolicy::build.
   Part 2 (SK.Conc): the concurrent sink.  Every worker thread runs, per response,
       Lock; Format; Write (in any number of non-empty chunks); Bump; Flush?; Unlock
     over a shared state (file bytes, lock holder, write counter).  [lstep] lets ANY enabled
     step of ANY thread fire, so a run of [lstep] is an arbitrary schedule.  [exec]/[accepts]/
     [replay] are the relation made executable on an H1 event trace.

   Two things are parameters (Section variables) because they belong to third-party code
   that is tied per run by the correspondence stream, not modelled: the decimal text serde_json
   (ryu) prints for a finite f64 ([fj]) and Rust's `Display for f64` ([fd], used only inside
   the text of "unable to sum" error messages). *)
From Coq Require Import ZArith String Ascii List Floats SpecFloat Bool Arith.
From RC Require Import Base.Show Base.Res Base.Json.
Import ListNotations.
Open Scope string_scope.

Module SK.

(* ------------------------------------------------------------------------------------ *)
(* bytes and strings *)

Definition nl_char : ascii := "010"%char.
Definition comma_char : ascii := ","%char.
Definition nl : string := String nl_char EmptyString.
Definition bslash : string := String "\"%char EmptyString.
Definition dquote : string := String """"%char EmptyString.

Definition hex_digit (n : nat) : ascii :=
  nth n ["0";"1";"2";"3";"4";"5";"6";"7";"8";"9";"a";"b";"c";"d";"e";"f"]%char "?"%char.

(* serde_json::ser::format_escaped_str_contents: the ESCAPE table *)
Definition esc_char (c : ascii) : string :=
  let n := nat_of_ascii c in
  if (n =? 34)%nat then bslash ++ dquote
  else if (n =? 92)%nat then bslash ++ bslash
  else if (n =? 8)%nat then bslash ++ "b"
  else if (n =? 12)%nat then bslash ++ "f"
  else if (n =? 10)%nat then bslash ++ "n"
  else if (n =? 13)%nat then bslash ++ "r"
  else if (n =? 9)%nat then bslash ++ "t"
  else if (n <? 32)%nat then bslash ++ "u00" ++ String (hex_digit (n / 16)) (String (hex_digit (n mod 16)) EmptyString)
  else String c EmptyString.
Fixpoint esc_str (s : string) : string :=
  match s with
  | EmptyString => EmptyString
  | String c r => esc_char c ++ esc_str r
  end.
Definition quote (s : string) : string := dquote ++ esc_str s ++ dquote.

Fixpoint contains_char (c : ascii) (s : string) : bool :=
  match s with
  | EmptyString => false
  | String d r => Ascii.eqb d c || contains_char c r
  end.

(* str::split(sep): always at least one piece *)
Fixpoint split_on (sep : ascii) (s : string) : list string :=
  match s with
  | EmptyString => [EmptyString]
  | String c r =>
      if Ascii.eqb c sep then EmptyString :: split_on sep r
      else match split_on sep r with
           | [] => [String c EmptyString]
           | x :: t => String c x :: t
           end
  end.

(* fn csv_escape (response_output_format.rs): RFC 4180 quoting of one field *)
Definition needs_quote (s : string) : bool :=
  contains_char ","%char s || contains_char """"%char s || contains_char "010"%char s || contains_char "013"%char s.
Fixpoint double_quotes (s : string) : string :=
  match s with
  | EmptyString => EmptyString
  | String c r => if Ascii.eqb c """"%char then String c (String c (double_quotes r)) else String c (double_quotes r)
  end.
Definition csv_escape (s : string) : string :=
  if needs_quote s then dquote ++ double_quotes s ++ dquote else s.

(* A CSV reader with the field rules of RFC 4180 as the `csv` crate (csv-core, default
   settings) implements them: a field that starts with the quote character is quoted, inside
   it a doubled quote is a quote and anything else (commas, line breaks) is data, text after
   the closing quote is appended to the field, CR or LF end a record, empty lines are
   skipped.  Specification-side: used to state what "the columns follow the header" means. *)
Definition frev {A} (l : list A) : list A := rev_append l [].
Inductive rst := SR | SF | IFd | IQ | IDQ.
Definition is_term (c : ascii) : bool := Ascii.eqb c "010"%char || Ascii.eqb c "013"%char.
Fixpoint csv_read (s : string) (st : rst) (f : list ascii) (r : list string) (acc : list (list string))
  : list (list string) :=
  let endf := string_of_list_ascii (frev f) :: r in
  match s with
  | EmptyString =>
      match st with
      | SR => frev acc
      | _ => frev (frev endf :: acc)
      end
  | String c t =>
      match st with
      | SR => if is_term c then csv_read t SR [] [] acc
              else if Ascii.eqb c """"%char then csv_read t IQ [] [] acc
              else if Ascii.eqb c ","%char then csv_read t SF [] [EmptyString] acc
              else csv_read t IFd [c] [] acc
      | SF => if is_term c then csv_read t SR [] [] (frev endf :: acc)
              else if Ascii.eqb c """"%char then csv_read t IQ [] r acc
              else if Ascii.eqb c ","%char then csv_read t SF [] endf acc
              else csv_read t IFd [c] r acc
      | IFd => if is_term c then csv_read t SR [] [] (frev endf :: acc)
               else if Ascii.eqb c ","%char then csv_read t SF [] endf acc
               else csv_read t IFd (c :: f) r acc
      | IQ => if Ascii.eqb c """"%char then csv_read t IDQ f r acc
              else csv_read t IQ (c :: f) r acc
      | IDQ => if Ascii.eqb c """"%char then csv_read t IQ (c :: f) r acc
               else if is_term c then csv_read t SR [] [] (frev endf :: acc)
               else if Ascii.eqb c ","%char then csv_read t SF [] endf acc
               else csv_read t IFd (c :: f) r acc
      end
  end.
Definition csv_records (s : string) : list (list string) := csv_read s SR [] [] [].
(* an empty row (one column, empty field) is written as a quoted empty field *)
Definition nonblank (row0 : string) : string :=
  match row0 with EmptyString => dquote ++ dquote | _ => row0 end.
(* how the sink writes one CSV record from its fields *)
Definition csv_line (fields : list string) : string := join "," (map csv_escape fields) ++ nl.

Fixpoint indent (n : nat) : string :=
  match n with O => EmptyString | S k => "  " ++ indent k end.

(* u64 / i64 `as f64`: round to nearest, ties to even *)
Definition Z2float (z : Z) : float := SF2Prim (binary_normalize FloatOps.prec FloatOps.emax z 0 false).
Definition f_finite (f : float) : bool := negb (PrimFloat.is_nan f || PrimFloat.is_infinity f).
(* The binary64 operations the formatter uses (only inside CsvMapping::Sum).  The model is
   parametric in them, so that no theorem depends on the kernel's primitive float operations;
   the runner instantiates them with the IEEE primitives [prim_fops]. *)
Record fops := { f_add : float -> float -> float;      (* f64 + f64 *)
                 f_of_Z : Z -> float;                  (* u64 / i64 as f64 *)
                 f_is_finite : float -> bool;
                 f_zero : float; f_neg_zero : float }.
Definition prim_fops : fops :=
  {| f_add := PrimFloat.add; f_of_Z := Z2float; f_is_finite := f_finite;
     f_zero := PrimFloat.zero; f_neg_zero := PrimFloat.neg_zero |}.

(* ------------------------------------------------------------------------------------ *)
Section Fmt.
  Variable fj : float -> string.   (* serde_json (ryu) text of a finite f64 *)
  Variable fd : float -> string.   (* Rust `Display for f64` *)
  Variable fo : fops.              (* f64 arithmetic *)

  (* serde_json::to_string, also `Display for Value` (cell.to_string(), "{}" in messages) *)
  Fixpoint to_string (j : json) : string :=
    match j with
    | JNull => "null"
    | JBool b => if b then "true" else "false"
    | JInt z => show_Z z
    | JFloat f => fj f
    | JStr s => quote s
    | JArr l => "[" ++ join "," (map to_string l) ++ "]"
    | JObj m => "{" ++ join "," (map (fun kv => quote (fst kv) ++ ":" ++ to_string (snd kv)) m) ++ "}"
    end.

  (* serde_json::to_string_pretty (two-space indent) *)
  Fixpoint pretty (ind : nat) (j : json) : string :=
    match j with
    | JArr [] => "[]"
    | JArr l => "[" ++ nl ++ join ("," ++ nl) (map (fun x => indent (S ind) ++ pretty (S ind) x) l)
                ++ nl ++ indent ind ++ "]"
    | JObj [] => "{}"
    | JObj m => "{" ++ nl
                ++ join ("," ++ nl) (map (fun kv => indent (S ind) ++ quote (fst kv) ++ ": " ++ pretty (S ind) (snd kv)) m)
                ++ nl ++ indent ind ++ "}"
    | _ => to_string j
    end.

  (* ---------- csv/csv_mapping.rs ---------- *)
  Inductive cmap :=
  | CPath (p : string)
  | CSum (l : list cmap)
  | COpt (m : cmap).
  Inductive mres := MOk (v : json) | MErr (msg : string).

  (* fn traverse: Value::get(&str) succeeds only on an object that has the key *)
  Fixpoint traverse (cursor : json) (path : list string) (whole : string) : mres :=
    match path with
    | [] => MOk cursor
    | next :: rest =>
        match jget cursor next with
        | None => MErr ("could not find object " ++ next ++ " in path " ++ whole)
        | Some child => traverse child rest whole
        end
    end.

  Definition oks (l : list mres) : list json :=
    flat_map (fun r => match r with MOk v => [v] | MErr _ => [] end) l.
  Definition errs (l : list mres) : list string :=
    flat_map (fun r => match r with MOk _ => [] | MErr m => [m] end) l.

  (* the per-value conversion inside Sum: Null counts 0.0, a number is read `as_f64` *)
  Definition num_of (v : json) : float + string :=
    match v with
    | JNull => inl (f_zero fo)
    | JInt z => inl (f_of_Z fo z)
    | JFloat f => inl f
    | _ => inr ("expected a number, found " ++ to_string v)
    end.
  Definition lefts {A B} (l : list (A + B)) : list A :=
    flat_map (fun x => match x with inl a => [a] | inr _ => [] end) l.
  Definition rights {A B} (l : list (A + B)) : list B :=
    flat_map (fun x => match x with inl _ => [] | inr b => [b] end) l.
  (* `Iterator::sum::<f64>()` folds from -0.0;  json![f64] is Null for a non-finite value *)
  Definition f_sum (l : list float) : float := fold_left (f_add fo) l (f_neg_zero fo).
  Definition json_of_f64 (f : float) : json := if f_is_finite fo f then JFloat f else JNull.

  Definition sum_results (rs : list mres) : mres :=
    match errs rs with
    | _ :: _ =>
        let valid := match oks rs with
                     | [] => ""
                     | _ => " with these valid paths: " ++ join ", " (map to_string (oks rs))
                     end in
        MErr ("unable to sum invalid paths: " ++ join ", " (errs rs) ++ valid)
    | [] =>
        let ns := map num_of (oks rs) in
        match rights ns with
        | _ :: _ =>
            let valid := match lefts ns with
                         | [] => ""
                         | _ => " with these valid numbers: " ++ join ", " (map fd (lefts ns))
                         end in
            MErr ("unable to sum invalid numbers: " ++ join ", " (rights ns) ++ valid)
        | [] => MOk (json_of_f64 (f_sum (lefts ns)))
        end
    end.

  Fixpoint apply_mapping (m : cmap) (r : json) : mres :=
    match m with
    | CPath p => traverse r (split_on "."%char p) p
    | CSum l => sum_results (map (fun x => apply_mapping x r) l)
    | COpt x => match apply_mapping x r with MOk v => MOk v | MErr _ => MOk JNull end
    end.

  (* SPECIFICATION of the value a mapping selects (what the property text and the documentation
     of the CSV mapping say, independent of how csv_mapping.rs walks): a path is a dot-separated
     list of OBJECT KEYS taken literally - '/' and '~' are ordinary key characters, a numeric
     segment is a key and never an array index, an empty segment is the empty key; Sum adds its
     parts as f64 in order starting from -0.0, null counting 0, and fails when a part fails or is
     not a number; a non-finite sum is null; Optional turns a failure into null.  None = the cell
     fails: empty field, and the column is reported in the response's error entry. *)
  Fixpoint spec_lookup (cur : json) (path : list string) : option json :=
    match path with
    | [] => Some cur
    | k :: rest => match cur with
                   | JObj m => match oget m k with Some c => spec_lookup c rest | None => None end
                   | _ => None
                   end
    end.
  Definition spec_num (v : json) : option float :=
    match v with
    | JNull => Some (f_zero fo)
    | JInt z => Some (f_of_Z fo z)
    | JFloat f => Some f
    | _ => None
    end.
  Fixpoint all_some {A} (l : list (option A)) : option (list A) :=
    match l with
    | [] => Some []
    | Some a :: r => match all_some r with Some t => Some (a :: t) | None => None end
    | None :: _ => None
    end.
  Fixpoint spec_value (m : cmap) (r : json) : option json :=
    match m with
    | CPath p => spec_lookup r (split_on "."%char p)
    | CSum l =>
        match all_some (map (fun x => spec_value x r) l) with
        | Some vs => match all_some (map spec_num vs) with
                     | Some ns => Some (json_of_f64 (f_sum ns))
                     | None => None
                     end
        | None => None
        end
    | COpt x => Some (match spec_value x r with Some v => v | None => JNull end)
    end.
  Definition spec_cell (m : cmap) (r : json) : string :=
    match spec_value m r with Some (JStr s) => s | Some v => to_string v | None => "" end.
  Definition to_opt (x : mres) : option json := match x with MOk v => Some v | MErr _ => None end.

  (* ---------- response_output_format.rs ---------- *)
  (* the mapping is the OrderedHashMap in ITERATION order (= insertion order; a key inserted
     again moves to the end with the new value: ordered_hash_map 0.4 `insert`) *)
  Definition mapping := list (string * cmap).
  Fixpoint m_remove (m : mapping) (k : string) : mapping :=
    match m with
    | [] => []
    | (k', v) :: r => if String.eqb k' k then m_remove r k else (k', v) :: m_remove r k
    end.
  Definition m_insert (m : mapping) (kv : string * cmap) : mapping := (m_remove m (fst kv) ++ [kv])%list.
  (* serde visit_map over the entries in document order *)
  Definition mapping_of_doc (doc : list (string * cmap)) : mapping := fold_left m_insert doc [].

  Inductive ofmt :=
  | FJson (newline_delimited : bool)
  | FCsv (m : mapping) (sorted : bool).

  (* column order: `keys().sorted()` / `iter().sorted_by_key(k)` or `keys().rev()` / `iter().rev()` *)
  Definition order (sorted : bool) (m : mapping) : mapping :=
    if sorted then sort_by_key m else rev m.
  Definition header_cols (sorted : bool) (m : mapping) : list string := map fst (order sorted m).
  Definition header_line (sorted : bool) (m : mapping) : string := csv_line (header_cols sorted m).

  Definition initial_file_contents (f : ofmt) : option string :=
    match f with
    | FJson true => None
    | FJson false => Some ("[" ++ nl)
    | FCsv m sorted => Some (header_line sorted m)
    end.
  Definition final_file_contents (f : ofmt) : option string :=
    match f with
    | FJson false => Some (nl ++ "]")
    | _ => None
    end.
  Definition delimiter (f : ofmt) : option string :=
    match f with
    | FJson true => None
    | FJson false => Some ("," ++ nl)
    | FCsv _ _ => Some nl
    end.

  (* fn csv_cell: a string by its content, anything else by its JSON text; a failed mapping
     gives an empty field.  [cell_value] is the field before quoting. *)
  Definition cell_value (c : mres) : string :=
    match c with MOk (JStr s) => s | MOk v => to_string v | MErr _ => "" end.
  Definition cell_text (c : mres) : string := csv_escape (cell_value c).
  Definition row_results (sorted : bool) (m : mapping) (r : json) : list (string * mres) :=
    map (fun kv => (fst kv, apply_mapping (snd kv) r)) (order sorted m).
  Definition row_cells (sorted : bool) (m : mapping) (r : json) : list string :=
    map (fun kc => cell_value (snd kc)) (row_results sorted m r).
  Definition row_errors (cs : list (string * mres)) : list (string * json) :=
    flat_map (fun kc => match snd kc with MOk _ => [] | MErr msg => [(fst kc, JStr msg)] end) cs.

  (* `response[key] = v` (IndexMut<&str>): Null becomes an object, an object is updated in
     place or extended, anything else panics *)
  Definition set_key (r : json) (k : string) (v : json) : res json :=
    match r with
    | JNull => Ok (JObj [(k, v)])
    | JObj m => Ok (JObj (oset m k v))
    | _ => Panic "cannot access key in JSON value"
    end.

  (* returns the row and the (possibly updated) response that is handed back to the caller.
     The HashMap of errors is serialised in unspecified order: compare with show_sorted. *)
  Definition format_response (f : ofmt) (r : json) : res (string * json) :=
    match f with
    | FJson nd => Ok (if nd then to_string r else pretty 0 r, r)
    | FCsv m sorted =>
        let cs := row_results sorted m r in
        let row0 := join "," (map (fun kc => cell_text (snd kc)) cs) in
        (* an empty row (one column, empty field) is written as a quoted empty field *)
        let row := nonblank row0 in
        match row_errors cs with
        | [] => Ok (row, r)
        | es =>
            let csv_errors := JObj [("csv", JObj es)] in
            let key := match jget r "error" with Some _ => "csv_error" | None => "error" end in
            do r' <- set_key r key csv_errors; Ok (row, r')
        end
    end.

  (* ---------- write_mode.rs / response_output_policy.rs ---------- *)
  Inductive write_mode := Append | Overwrite | ErrorIfExists.
  (* a file is [None] (does not exist) or [Some contents] *)
  Definition header_of (f : ofmt) : string :=
    match initial_file_contents f with Some h => h | None => "" end.
  Definition open_file (w : write_mode) (f : ofmt) (old : option string) : res string :=
    match w, old with
    | Append, Some c => Ok c
    | Append, None => Ok (header_of f)
    | Overwrite, _ => Ok (header_of f)
    | ErrorIfExists, Some _ => Err "file exists"
    | ErrorIfExists, None => Ok (header_of f)
    end.
  (* ResponseOutputPolicy::File build: always WriteMode::Append; returns the file contents
     after opening and iterations_per_flush *)
  Definition build_file (f : ofmt) (flush_rate : option Z) (old : option string) : res (string * nat) :=
    do c <- open_file Append f old;
    match flush_rate with
    | None => Ok (c, 1%nat)
    | Some z => if (z <=? 0)%Z then Err "iterations_per_flush must be positive" else Ok (c, Z.to_nat z)
    end.
  (* the formatter as the concurrent sink of Part 2 sees it: the bytes of the row, or None when
     format_response does not return a row *)
  Definition sink_fmt (f : ofmt) (r : json) : option (list ascii) :=
    match format_response f r with
    | Ok (row, _) => Some (list_ascii_of_string row)
    | _ => None
    end.
End Fmt.

(* ------------------------------------------------------------------------------------ *)
(* Part 2: the concurrent sink, generic in the byte type B and the response type R *)
Section Conc.
  Local Open Scope list_scope.
  Context {B R : Type}.
  Variable fmt : R -> option (list B).   (* format_response: Some row | None = returned Err *)
  Variable nlb : B.                      (* the byte writeln! appends *)
  Variable rate : nat.                   (* iterations_per_flush (positive by construction) *)

  Definition record_of (row : list B) : list B := row ++ [nlb].

  Inductive pc :=
  | Idle                                   (* not inside write_response *)
  | Locked                                 (* holds the file lock (and the counter lock) *)
  | Writing (r : R) (sent rest : list B)   (* row formatted; [sent] is in the file, [rest] is not *)
  | Flushing                               (* counter bumped, flush due *)
  | Releasing.                             (* about to drop the guards *)

  Record thread := { t_pc : pc; t_todo : list R }.
  (* [rfile] is the file content, most recent byte first (so that appending a chunk costs the
     chunk, not the file); [file] is the content.  [log] and [dropped] are ghost: responses
     whose record is completely in the file (in file order), responses whose formatting failed. *)
  Record state := { rfile : list B; holder : option nat; counter : nat;
                    thr : list thread; log : list R; dropped : list R }.
  (* [rev_append l [] = rev l], linear time *)
  Definition file (s : state) : list B := rev_append (rfile s) [].

  Fixpoint upd {A} (l : list A) (i : nat) (x : A) : list A :=
    match l, i with
    | [], _ => []
    | _ :: r, O => x :: r
    | a :: r, S k => a :: upd r k x
    end.
  Definition set_thr (s : state) (t : nat) (x : thread) : state :=
    {| rfile := rfile s; holder := holder s; counter := counter s;
       thr := upd (thr s) t x; log := log s; dropped := dropped s |}.

  Inductive event := ELock | EFmt (n : nat) | EWrite (n : nat) | EFlush | ERel.

  Definition flush_due (c : nat) : bool := (c mod rate =? 0)%nat.

  (* the state transformers of the seven kinds of step *)
  Definition do_lock (s : state) (t : nat) (q : list R) : state :=
    {| rfile := rfile s; holder := Some t; counter := counter s;
       thr := upd (thr s) t {| t_pc := Locked; t_todo := q |}; log := log s; dropped := dropped s |}.
  Definition do_format (s : state) (t : nat) (r : R) (q : list R) (row : list B) : state :=
    set_thr s t {| t_pc := Writing r [] (record_of row); t_todo := q |}.
  Definition do_format_err (s : state) (t : nat) (r : R) (q : list R) : state :=
    {| rfile := rfile s; holder := holder s; counter := counter s;
       thr := upd (thr s) t {| t_pc := Releasing; t_todo := q |}; log := log s; dropped := dropped s ++ [r] |}.
  Definition do_write (s : state) (t : nat) (r : R) (sent rest : list B) (q : list R) (n : nat) : state :=
    {| rfile := rev_append (firstn n rest) (rfile s); holder := holder s; counter := counter s;
       thr := upd (thr s) t {| t_pc := Writing r (sent ++ firstn n rest) (skipn n rest); t_todo := q |};
       log := log s; dropped := dropped s |}.
  Definition do_bump (s : state) (t : nat) (r : R) (q : list R) : state :=
    {| rfile := rfile s; holder := holder s; counter := S (counter s);
       thr := upd (thr s) t {| t_pc := if flush_due (S (counter s)) then Flushing else Releasing; t_todo := q |};
       log := log s ++ [r]; dropped := dropped s |}.
  Definition do_flush (s : state) (t : nat) (q : list R) : state :=
    set_thr s t {| t_pc := Releasing; t_todo := q |}.
  Definition do_unlock (s : state) (t : nat) (q : list R) : state :=
    {| rfile := rfile s; holder := None; counter := counter s;
       thr := upd (thr s) t {| t_pc := Idle; t_todo := q |}; log := log s; dropped := dropped s |}.

  (* one step of thread [t]; the label is the H1 event the hook records for it, if any.
     A thread takes the lock only when nobody holds it and it has a response to write; the
     row is written in ANY number of non-empty chunks (writeln! issues one write_all for the
     row and one for the newline, write_all may split further); the counter is bumped when
     the whole record is out; flush happens when the counter is a multiple of the rate. *)
  Inductive lstep : state -> nat -> option event -> state -> Prop :=
  | s_lock : forall s t r q,
      nth_error (thr s) t = Some {| t_pc := Idle; t_todo := r :: q |} ->
      holder s = None ->
      lstep s t (Some ELock) (do_lock s t (r :: q))
  | s_format : forall s t r q row,
      nth_error (thr s) t = Some {| t_pc := Locked; t_todo := r :: q |} ->
      fmt r = Some row ->
      lstep s t (Some (EFmt (List.length row))) (do_format s t r q row)
  | s_format_err : forall s t r q,
      nth_error (thr s) t = Some {| t_pc := Locked; t_todo := r :: q |} ->
      fmt r = None ->
      lstep s t None (do_format_err s t r q)
  | s_write : forall s t r sent rest q n,
      nth_error (thr s) t = Some {| t_pc := Writing r sent rest; t_todo := q |} ->
      (1 <= n <= List.length rest)%nat ->
      lstep s t (Some (EWrite n)) (do_write s t r sent rest q n)
  | s_bump : forall s t r sent q,
      nth_error (thr s) t = Some {| t_pc := Writing r sent []; t_todo := q |} ->
      lstep s t None (do_bump s t r q)
  | s_flush : forall s t q,
      nth_error (thr s) t = Some {| t_pc := Flushing; t_todo := q |} ->
      lstep s t (Some EFlush) (do_flush s t q)
  | s_unlock : forall s t q,
      nth_error (thr s) t = Some {| t_pc := Releasing; t_todo := q |} ->
      lstep s t (Some ERel) (do_unlock s t q).

  (* any thread, any enabled step: every schedule *)
  Definition step (s s' : state) : Prop := exists t l, lstep s t l s'.
  Inductive reach (s : state) : state -> Prop :=
  | reach_refl : reach s s
  | reach_step : forall s1 s2, reach s s1 -> step s1 s2 -> reach s s2.

  (* a run together with its visible trace (silent steps interleaved anywhere) *)
  Inductive run : state -> list (nat * event) -> state -> Prop :=
  | run_nil : forall s, run s [] s
  | run_silent : forall s t s1 tr s2, lstep s t None s1 -> run s1 tr s2 -> run s tr s2
  | run_event : forall s t e s1 tr s2, lstep s t (Some e) s1 -> run s1 tr s2 -> run s ((t, e) :: tr) s2.

  (* the sink right after ResponseOutputPolicy::build: [base] is what the file holds (the
     header of a new file, or everything an earlier run left), thread i will write queues[i] *)
  Definition init (base : list B) (queues : list (list R)) : state :=
    {| rfile := rev_append base []; holder := None; counter := 0;
       thr := map (fun q => {| t_pc := Idle; t_todo := q |}) queues; log := []; dropped := [] |}.
  Definition quiescent (s : state) : Prop :=
    forall t th, nth_error (thr s) t = Some th -> t_pc th = Idle /\ t_todo th = [].
  Definition thread_done (th : thread) : bool :=
    match t_pc th, t_todo th with Idle, [] => true | _, _ => false end.
  Definition quiescentb (s : state) : bool := forallb thread_done (thr s).

  (* ---------- the relation made executable on an H1 trace ---------- *)
  (* the two silent steps are determined by the next visible event of the same thread:
     Flushed / Released right after the last chunk imply the bump; Released straight after
     LockAcquired is the path where format_response returned Err *)
  Definition exec1 (s : state) (te : nat * event) : option state :=
    let (t, e) := te in
    match nth_error (thr s) t with
    | None => None
    | Some th =>
        match e, t_pc th, t_todo th with
        | ELock, Idle, r :: q =>
            match holder s with None => Some (do_lock s t (r :: q)) | Some _ => None end
        | EFmt n, Locked, r :: q =>
            match fmt r with
            | Some row => if (n =? List.length row)%nat then Some (do_format s t r q row) else None
            | None => None
            end
        | EWrite n, Writing r sent rest, q =>
            if ((1 <=? n) && (n <=? List.length rest))%nat then Some (do_write s t r sent rest q n) else None
        | EFlush, Writing r sent [], q =>
            if flush_due (S (counter s)) then Some (do_flush (do_bump s t r q) t q) else None
        | EFlush, Flushing, q => Some (do_flush s t q)
        | ERel, Writing r sent [], q =>
            if flush_due (S (counter s)) then None else Some (do_unlock (do_bump s t r q) t q)
        | ERel, Releasing, q => Some (do_unlock s t q)
        | ERel, Locked, r :: q =>
            match fmt r with None => Some (do_unlock (do_format_err s t r q) t q) | Some _ => None end
        | _, _, _ => None
        end
    end.
  Fixpoint exec (s : state) (tr : list (nat * event)) : option state :=
    match tr with
    | [] => Some s
    | te :: r => match exec1 s te with Some s1 => exec s1 r | None => None end
    end.
  (* index of the first event the relation cannot take (for diagnostics) *)
  Fixpoint first_reject (s : state) (tr : list (nat * event)) (i : nat) : option nat :=
    match tr with
    | [] => None
    | te :: r => match exec1 s te with Some s1 => first_reject s1 r (S i) | None => Some i end
    end.
  Definition accepts (base : list B) (queues : list (list R)) (tr : list (nat * event)) : bool :=
    match exec (init base queues) tr with Some s => quiescentb s | None => false end.
  Definition replay (base : list B) (queues : list (list R)) (tr : list (nat * event)) : option (list B) :=
    match exec (init base queues) tr with Some s => Some (file s) | None => None end.
End Conc.
End SK.
