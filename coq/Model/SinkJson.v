(* C19 - a reader for the compact JSON text the sink writes (specification side): numbers are
   kept as their text.  Definitions only; the round-trip theorem is in Proofs/SinkJson.v. *)
From Coq Require Import ZArith String Ascii List Floats Bool Arith.
From RC Require Import Base.Show Base.Json Model.Sink.
Import ListNotations.
Open Scope string_scope.

Module SJ.
(* parsed JSON: numbers are kept as their text *)
Inductive pj :=
| PNull | PBool (b : bool) | PNum (s : string) | PStr (s : string)
| PArr (l : list pj) | PObj (m : list (string * pj)).

Definition is_num_char (c : ascii) : bool :=
  let n := nat_of_ascii c in
  (((48 <=? n) && (n <=? 57)) || (n =? 43) || (n =? 45) || (n =? 46) || (n =? 101) || (n =? 69))%nat.

(* what the printer of numbers must produce: a non-empty text of number characters *)
Fixpoint all_num (s : string) : bool :=
  match s with EmptyString => true | String c r => is_num_char c && all_num r end.
Definition num_text (s : string) : Prop := s <> EmptyString /\ all_num s = true.

Fixpoint take_num (s : string) : string * string :=
  match s with
  | EmptyString => (EmptyString, EmptyString)
  | String c r => if is_num_char c then let (a, b) := take_num r in (String c a, b) else (EmptyString, s)
  end.

Definition unhexl (c : ascii) : option nat :=
  let n := nat_of_ascii c in
  if ((48 <=? n) && (n <=? 57))%nat then Some (n - 48)%nat
  else if ((97 <=? n) && (n <=? 102))%nat then Some (n - 87)%nat
  else None.

(* the characters of a string literal after the opening quote, up to the closing quote *)
Fixpoint parse_str (s : string) (acc : list ascii) : option (string * string) :=
  match s with
  | EmptyString => None
  | String c r =>
      if Ascii.eqb c """" then Some (string_of_list_ascii (rev acc), r)
      else if Ascii.eqb c "\" then
        match r with
        | String e r' =>
            if Ascii.eqb e """" then parse_str r' (e :: acc)
            else if Ascii.eqb e "\" then parse_str r' (e :: acc)
            else if Ascii.eqb e "b" then parse_str r' ("008"%char :: acc)
            else if Ascii.eqb e "f" then parse_str r' ("012"%char :: acc)
            else if Ascii.eqb e "n" then parse_str r' ("010"%char :: acc)
            else if Ascii.eqb e "r" then parse_str r' ("013"%char :: acc)
            else if Ascii.eqb e "t" then parse_str r' ("009"%char :: acc)
            else if Ascii.eqb e "u" then
              match r' with
              | String a (String b (String h (String l r''))) =>
                  if Ascii.eqb a "0" && Ascii.eqb b "0" then
                    match unhexl h, unhexl l with
                    | Some x, Some y => parse_str r'' (ascii_of_nat (16 * x + y) :: acc)
                    | _, _ => None
                    end
                  else None
              | _ => None
              end
            else None
        | EmptyString => None
        end
      else if (nat_of_ascii c <? 32)%nat then None
      else parse_str r (c :: acc)
  end.

(* ---------- values ---------- *)
Fixpoint drop (w s : string) : option string :=
  match w, s with
  | EmptyString, _ => Some s
  | String a w', String b s' => if Ascii.eqb a b then drop w' s' else None
  | _, _ => None
  end.

Fixpoint parse_value (fuel : nat) (s : string) : option (pj * string) :=
  match fuel with
  | O => None
  | S k =>
      match s with
      | EmptyString => None
      | String c r =>
          if Ascii.eqb c "n" then match drop "ull" r with Some r' => Some (PNull, r') | None => None end
          else if Ascii.eqb c "t" then match drop "rue" r with Some r' => Some (PBool true, r') | None => None end
          else if Ascii.eqb c "f" then match drop "alse" r with Some r' => Some (PBool false, r') | None => None end
          else if Ascii.eqb c """" then match parse_str r [] with Some (x, r') => Some (PStr x, r') | None => None end
          else if Ascii.eqb c "[" then
            match r with
            | String d r' => if Ascii.eqb d "]" then Some (PArr [], r') else parse_elems k r []
            | EmptyString => None
            end
          else if Ascii.eqb c "{" then
            match r with
            | String d r' => if Ascii.eqb d "}" then Some (PObj [], r') else parse_members k r []
            | EmptyString => None
            end
          else if is_num_char c then let (a, b) := take_num s in Some (PNum a, b)
          else None
      end
  end
with parse_elems (fuel : nat) (s : string) (acc : list pj) : option (pj * string) :=
  match fuel with
  | O => None
  | S k =>
      match parse_value k s with
      | Some (v, String d r) =>
          if Ascii.eqb d "," then parse_elems k r (v :: acc)
          else if Ascii.eqb d "]" then Some (PArr (rev (v :: acc)), r)
          else None
      | _ => None
      end
  end
with parse_members (fuel : nat) (s : string) (acc : list (string * pj)) : option (pj * string) :=
  match fuel with
  | O => None
  | S k =>
      match s with
      | String q r =>
          if Ascii.eqb q """" then
            match parse_str r [] with
            | Some (key, String col r1) =>
                if Ascii.eqb col ":" then
                  match parse_value k r1 with
                  | Some (v, String d r2) =>
                      if Ascii.eqb d "," then parse_members k r2 ((key, v) :: acc)
                      else if Ascii.eqb d "}" then Some (PObj (rev ((key, v) :: acc)), r2)
                      else None
                  | _ => None
                  end
                else None
            | _ => None
            end
          else None
      | EmptyString => None
      end
  end.


(* what the reader must return for a value: the same structure, numbers as the text the printer
   chose for them *)
Section Erase.
  Variable fj : float -> string.
  Fixpoint erase (j : json) : pj :=
    match j with
    | JNull => PNull
    | JBool b => PBool b
    | JInt z => PNum (show_Z z)
    | JFloat f => PNum (fj f)
    | JStr s => PStr s
    | JArr l => PArr (map erase l)
    | JObj m => PObj (map (fun kv => (fst kv, erase (snd kv))) m)
    end.
  (* fuel that is enough to read the text of [j] *)
  Fixpoint vsize (j : json) : nat :=
    match j with
    | JArr l => S (fold_right (fun x a => S (vsize x + a)) 0 l)
    | JObj m => S (fold_right (fun kv a => S (vsize (snd kv) + a)) 0 m)
    | _ => 1
    end.
End Erase.

Fixpoint pj_eqb (a b : pj) : bool :=
  match a, b with
  | PNull, PNull => true
  | PBool x, PBool y => Bool.eqb x y
  | PNum x, PNum y => String.eqb x y
  | PStr x, PStr y => String.eqb x y
  | PArr x, PArr y =>
      (fix go (x y : list pj) : bool :=
         match x, y with
         | [], [] => true
         | p :: x', q :: y' => pj_eqb p q && go x' y'
         | _, _ => false
         end) x y
  | PObj x, PObj y =>
      (fix go (x y : list (string * pj)) : bool :=
         match x, y with
         | [], [] => true
         | (k, p) :: x', (k', q) :: y' => String.eqb k k' && pj_eqb p q && go x' y'
         | _, _ => false
         end) x y
  | _, _ => false
  end.
(* the record [row] is read back as the value [r] *)
Definition reads_back (fj : float -> string) (row : string) (r : json) : bool :=
  match parse_value (vsize r) row with
  | Some (p, EmptyString) => pj_eqb p (erase fj r)
  | _ => false
  end.
End SJ.
