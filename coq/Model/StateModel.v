(* Executable model of the state model of routee-compass, ON TOP of the container model CM (CompactMap.v):

     routee-compass-core/src/model/state/state_model.rs            StateModel
     routee-compass-core/src/model/state/state_feature.rs          StateFeature (+ its hand-written PartialEq)
     routee-compass-core/src/model/state/custom_feature_format.rs  CustomFeatureFormat encode / decode
     routee-compass-core/src/model/state/update_operation.rs       UpdateOperation::Replace
     routee-compass/src/app/search/search_app_ops.rs               collect_features
     routee-compass/src/app/search/search_app.rs                   build_search_instance (the state-model part)

   Definitions only; proofs are in Proofs/StateModel*.v, the specification in Model/StateModelSpec.v.

   StateModel(CompactOrderedHashMap<String, StateFeature>) is a [CM.cmap string (feature A)]: every operation
   below goes through the container model exactly as the Rust code goes through the container (new, insert,
   get, get_index, iter), so a change of the container's behaviour changes this model's behaviour.

   Rust failure modes are values (Base/Res.v); error classes are the variant names of StateModelError.
   Numbers are generic in [N : Num]; the float -> integer casts of the custom codecs (`as i64`, `as u64`) need a
   truncation N -> Z, which is a parameter [trunc] instantiated below for Q and for binary64.

   The integer -> float casts of the custom codecs (`*value as f64`, round to nearest even) are the parameter
   [of_int]: for Q it is [inject_Z (round53 z)] (the integer rounded to 53 significant bits, computed on Z), for
   binary64 it is [Z2F] (the same value as a float), so the top of the i64 / u64 range is modelled as coded:
   u64::MAX as f64 = 2^64, 2^64 as u64 = u64::MAX (saturating cast), i64::MAX as f64 = 2^63, NaN as i64 = 0.

   Not modelled: the text of error messages; serde parsing of a feature from JSON (a feature arrives parsed;
   a `state_features` value that does not parse is the constructor [UBad]) - the correspondence run sends every
   configured feature and every query override through the real deserialisation. *)
From Coq Require Import ZArith QArith List String Bool Floats Uint63.
From RC Require Import Base.Num Base.Res Model.Units Model.CompactMap.
Import ListNotations.

Module SM.
Import Units.
Local Open Scope string_scope.

(* ---- custom_feature_format.rs: CustomFeatureFormat ---- *)
Inductive fmt (A : Type) : Type :=
| FFloat (init : A)        (* FloatingPoint { initial: OrderedFloat<f64> } *)
| FSigned (init : Z)       (* SignedInteger { initial: i64 } *)
| FUnsigned (init : Z)     (* UnsignedInteger { initial: u64 } *)
| FBool (init : bool).     (* Boolean { initial: bool } *)
Arguments FFloat {A} init. Arguments FSigned {A} init. Arguments FUnsigned {A} init. Arguments FBool {A} init.

(* ---- state_feature.rs: StateFeature ---- *)
Inductive feature (A : Type) : Type :=
| FDistance (u : dist_unit) (init : A)
| FTime (u : time_unit) (init : A)
| FEnergy (u : energy_unit) (init : A)
| FCustom (ty unit : string) (format : fmt A).
Arguments FDistance {A} u init. Arguments FTime {A} u init. Arguments FEnergy {A} u init.
Arguments FCustom {A} ty unit format.

Definition err_encode : string := "EncodeError".
Definition err_decode : string := "DecodeError".
Definition err_value : string := "ValueError".
Definition err_unknown : string := "UnknownStateVariableName".
Definition err_index : string := "InvalidStateVariableIndex".
Definition err_type : string := "UnexpectedFeatureType".
Definition err_unit : string := "UnexpectedFeatureUnit".
Definition err_build : string := "BuildError".
Definition err_runtime : string := "RuntimeError".

(* StateFeature::get_feature_type *)
Definition feature_type {A} (f : feature A) : string :=
  match f with
  | FDistance _ _ => "distance" | FTime _ _ => "time" | FEnergy _ _ => "energy"
  | FCustom ty _ _ => ty
  end.

(* impl PartialEq for StateFeature: same variant; custom features also compare type and unit; the unit and
   initial value of distance/time/energy and the format of a custom feature are ignored *)
Definition feature_eqb {A} (a b : feature A) : bool :=
  match a, b with
  | FDistance _ _, FDistance _ _ => true
  | FTime _ _, FTime _ _ => true
  | FEnergy _ _, FEnergy _ _ => true
  | FCustom ta ua _, FCustom tb ub _ => String.eqb ta tb && String.eqb ua ub
  | _, _ => false
  end.

Definition map_fmt {A B} (g : A -> B) (f : fmt A) : fmt B :=
  match f with FFloat i => FFloat (g i) | FSigned i => FSigned i | FUnsigned i => FUnsigned i | FBool b => FBool b end.
Definition map_feature {A B} (g : A -> B) (f : feature A) : feature B :=
  match f with
  | FDistance u i => FDistance u (g i) | FTime u i => FTime u (g i) | FEnergy u i => FEnergy u (g i)
  | FCustom t u f => FCustom t u (map_fmt g f)
  end.

(* ---- the state model: a compact ordered map from feature name to feature ---- *)
Definition smodel (A : Type) : Type := CM.cmap string (feature A).
Definition entries (A : Type) : Type := list (string * feature A).

(* StateModel::new / empty / len / contains_key / iter / indexed_iter / get_names *)
Definition new {A} (l : entries A) : smodel A := CM.new String.eqb l.
Definition empty {A} : smodel A := CM.empty.
Definition len {A} (sm : smodel A) : nat := CM.len sm.
Definition contains_key {A} (sm : smodel A) (k : string) : bool := CM.contains_key String.eqb sm k.
Definition iter {A} (sm : smodel A) : entries A := CM.iter sm.
Definition indexed_iter {A} (sm : smodel A) : list (nat * (string * feature A)) := CM.enumerate_from 0 (CM.iter sm).
Definition get_names {A} (sm : smodel A) : list string := map fst (CM.iter sm).
Definition get_index {A} (sm : smodel A) (name : string) : option nat := CM.get_index String.eqb sm name.

(* StateModel::extend:
     let mut map = self.0.iter().map(clone).collect::<CompactOrderedHashMap<_, _>>();      -- from_iter (iter self)
     let overwrites = entries.into_iter().flat_map(|(name, new)| match map.insert(name, new) {
         Some(old) if old != new => Some(..), _ => None }).collect();                       -- every entry is inserted
     if overwrites.is_empty() { Ok(StateModel(map)) } else { Err(BuildError) }                                   *)
Definition extend_step {A} (acc : smodel A * bool) (e : string * feature A) : smodel A * bool :=
  let '(m', old) := CM.insert String.eqb (fst acc) (fst e) (snd e) in
  (m', snd acc || match old with Some o => negb (feature_eqb o (snd e)) | None => false end).
Definition extend {A} (sm : smodel A) (es : entries A) : res (smodel A) :=
  let map0 := CM.from_iter String.eqb (CM.iter sm) in
  let '(m, overwrites) := fold_left extend_step es (map0, false) in
  if overwrites then Err err_build else Ok m.

(* `iter.collect::<Result<Vec<_>, _>>()`: the first error wins *)
Fixpoint collect_res {A} (l : list (res A)) : res (list A) :=
  match l with
  | [] => Ok []
  | r :: t => do a <- r; do b <- collect_res t; Ok (a :: b)
  end.

(* `state[index] = value` *)
Fixpoint set_nth {A} (l : list A) (i : nat) (v : A) : list A :=
  match l, i with
  | [], _ => []
  | _ :: r, O => v :: r
  | x :: r, S j => x :: set_nth r j v
  end.

Definition i64_min : Z := - 2 ^ 63.
Definition i64_max : Z := 2 ^ 63 - 1.
Definition u64_max : Z := 2 ^ 64 - 1.
(* Rust's saturating float -> integer cast, after truncation toward zero *)
Definition clamp (lo hi z : Z) : Z := if Z.ltb z lo then lo else if Z.ltb hi z then hi else z.

Section Ops.
  Variable N : Num.
  Variable trunc : N -> Z.       (* truncation toward zero; NaN |-> 0 *)
  Variable of_int : Z -> N.      (* `as f64` on an integer: nearest binary64, ties to even *)
  Notation sm_t := (smodel N).
  Notation state := (list N).

  (* ---- CustomFeatureFormat::encode_* / decode_* / initial ---- *)
  Definition encode_f64 (f : fmt N) (v : N) : res N :=
    match f with FFloat _ => Ok v | _ => Err err_encode end.
  Definition encode_i64 (f : fmt N) (z : Z) : res N :=
    match f with FSigned _ => Ok (of_int z) | _ => Err err_encode end.        (* *value as f64 *)
  Definition encode_u64 (f : fmt N) (z : Z) : res N :=
    match f with FUnsigned _ => Ok (of_int z) | _ => Err err_encode end.
  Definition encode_bool (f : fmt N) (b : bool) : res N :=
    match f with FBool _ => Ok (if b then one else zero) | _ => Err err_encode end.
  Definition fmt_initial (f : fmt N) : res N :=
    match f with
    | FFloat i => encode_f64 f i | FSigned i => encode_i64 f i
    | FUnsigned i => encode_u64 f i | FBool b => encode_bool f b
    end.
  Definition decode_f64 (f : fmt N) (v : N) : res N :=
    match f with FFloat _ => Ok v | _ => Err err_decode end.
  Definition decode_i64 (f : fmt N) (v : N) : res Z :=
    match f with FSigned _ => Ok (clamp i64_min i64_max (trunc v)) | _ => Err err_decode end.   (* value.0 as i64 *)
  Definition decode_u64 (f : fmt N) (v : N) : res Z :=
    match f with
    | FUnsigned _ => if ltb v zero then Err err_value else Ok (clamp 0 u64_max (trunc v))
    | _ => Err err_decode
    end.
  Definition decode_bool (f : fmt N) (v : N) : res bool :=
    match f with FBool _ => Ok (negb (eqb v zero)) | _ => Err err_decode end.   (* value.0 == 0.0 -> false *)

  (* ---- StateFeature::get_initial / get_*_unit / get_custom_feature_format ---- *)
  Definition get_initial (f : feature N) : res N :=
    match f with
    | FDistance _ i | FTime _ i | FEnergy _ i => Ok i
    | FCustom _ _ fm => fmt_initial fm
    end.
  Definition get_distance_unit (f : feature N) : res dist_unit :=
    match f with FDistance u _ => Ok u | _ => Err err_unit end.
  Definition get_time_unit (f : feature N) : res time_unit :=
    match f with FTime u _ => Ok u | _ => Err err_unit end.
  Definition get_energy_unit (f : feature N) : res energy_unit :=
    match f with FEnergy u _ => Ok u | _ => Err err_unit end.
  Definition get_custom_feature_format (f : feature N) : res (fmt N) :=
    match f with FCustom _ _ fm => Ok fm | _ => Err err_unit end.

  (* StateModel::initial_state: iter().map(get_initial).collect::<Result<Vec<_>, _>>() *)
  Definition initial_state (sm : sm_t) : res state :=
    collect_res (map (fun nf => get_initial (snd nf)) (CM.iter sm)).

  (* StateModel::get_feature / get_state_variable / update_state(Replace) *)
  Definition get_feature (sm : sm_t) (name : string) : res (feature N) :=
    match CM.get String.eqb sm name with Some f => Ok f | None => Err err_unknown end.
  Definition get_state_variable (sm : sm_t) (st : state) (name : string) : res N :=
    match CM.get_index String.eqb sm name with
    | None => Err err_unknown
    | Some i => match nth_error st i with Some v => Ok v | None => Err err_runtime end
    end.
  Definition update_state (sm : sm_t) (st : state) (name : string) (v : N) : res state :=
    match CM.get_index String.eqb sm name with
    | None => Err err_unknown
    | Some i => match nth_error st i with Some _ => Ok (set_nth st i v) | None => Err err_index end
    end.

  (* get_distance / get_time / get_energy are the same text up to the unit family:
       let value = self.get_state_variable(state, name)?;
       let feature = self.get_feature(name)?;
       Ok(feature.get_X_unit()?.convert(&value.into(), unit))                                       *)
  Definition get_with {U} (unit_of : feature N -> res U) (conv : U -> U -> N -> N)
             (sm : sm_t) (st : state) (name : string) (unit : U) : res N :=
    do value <- get_state_variable sm st name;
    do f <- get_feature sm name;
    do fu <- unit_of f;
    Ok (conv fu unit value).
  (* set_X:  let to_unit = self.get_feature(name)?.get_X_unit()?;
             self.update_state(state, name, &from_unit.convert(x, &to_unit).into(), Replace)         *)
  Definition set_with {U} (unit_of : feature N -> res U) (conv : U -> U -> N -> N)
             (sm : sm_t) (st : state) (name : string) (x : N) (from_unit : U) : res state :=
    do f <- get_feature sm name;
    do to_unit <- unit_of f;
    update_state sm st name (conv from_unit to_unit x).
  (* add_X (after fix e80a615):
       let feature_unit = self.get_feature(name)?.get_X_unit()?;
       let prev = self.get_X(state, name, &feature_unit)?;
       let next = prev + from_unit.convert(x, &feature_unit);
       self.set_X(state, name, &next, &feature_unit)                                                 *)
  Definition add_with {U} (unit_of : feature N -> res U) (conv : U -> U -> N -> N)
             (sm : sm_t) (st : state) (name : string) (x : N) (from_unit : U) : res state :=
    do f <- get_feature sm name;
    do fu <- unit_of f;
    do prev <- get_with unit_of conv sm st name fu;
    set_with unit_of conv sm st name (add prev (conv from_unit fu x)) fu.

  Definition get_distance := get_with get_distance_unit (convert_distance N).
  Definition get_time := get_with get_time_unit (convert_time N).
  Definition get_energy := get_with get_energy_unit (convert_energy N).
  Definition set_distance := set_with get_distance_unit (convert_distance N).
  Definition set_time := set_with get_time_unit (convert_time N).
  Definition set_energy := set_with get_energy_unit (convert_energy N).
  Definition add_distance := add_with get_distance_unit (convert_distance N).
  Definition add_time := add_with get_time_unit (convert_time N).
  Definition add_energy := add_with get_energy_unit (convert_energy N).

  (* get_custom_state_variable, get_custom_{f64,i64,u64,bool} *)
  Definition get_custom_state_variable (sm : sm_t) (st : state) (name : string) : res (N * fmt N) :=
    do value <- get_state_variable sm st name;
    do f <- get_feature sm name;
    do fm <- get_custom_feature_format f;
    Ok (value, fm).
  Definition get_custom_f64 (sm : sm_t) (st : state) (name : string) : res N :=
    do vf <- get_custom_state_variable sm st name; decode_f64 (snd vf) (fst vf).
  Definition get_custom_i64 (sm : sm_t) (st : state) (name : string) : res Z :=
    do vf <- get_custom_state_variable sm st name; decode_i64 (snd vf) (fst vf).
  Definition get_custom_u64 (sm : sm_t) (st : state) (name : string) : res Z :=
    do vf <- get_custom_state_variable sm st name; decode_u64 (snd vf) (fst vf).
  Definition get_custom_bool (sm : sm_t) (st : state) (name : string) : res bool :=
    do vf <- get_custom_state_variable sm st name; decode_bool (snd vf) (fst vf).

  (* set_custom_*: get_feature, get_custom_feature_format, encode, update_state(Replace) *)
  Definition set_custom_with {X} (enc : fmt N -> X -> res N)
             (sm : sm_t) (st : state) (name : string) (x : X) : res state :=
    do f <- get_feature sm name;
    do fm <- get_custom_feature_format f;
    do v <- enc fm x;
    update_state sm st name v.
  Definition set_custom_f64 := set_custom_with encode_f64.
  Definition set_custom_i64 := set_custom_with encode_i64.
  Definition set_custom_u64 := set_custom_with encode_u64.
  Definition set_custom_bool := set_custom_with encode_bool.

  (* StateModel::get_delta *)
  Definition get_delta (sm : sm_t) (prev next : state) (name : string) : res N :=
    do p <- get_state_variable sm prev name;
    do n <- get_state_variable sm next name;
    Ok (sub n p).

  (* StateModel::serialize_state: names zipped with the state vector (a JSON object: key order unspecified) *)
  Definition serialize_state (sm : sm_t) (st : state) : list (string * N) := combine (map fst (CM.iter sm)) st.
End Ops.

(* ---- search_app_ops::collect_features ---- *)
(* std HashMap<String, StateFeature>: an association list with unique keys (as in CompactMap.v); nothing
   below depends on its order except the order in which the user's entries are validated (see [collect_features]) *)
Definition hm (A : Type) : Type := list (string * feature A).
Definition hm_get {A} (m : hm A) (k : string) : option (feature A) := CM.s_get String.eqb m k.
Definition hm_ins {A} (m : hm A) (k : string) (f : feature A) : hm A := CM.s_ins String.eqb m k f.
(* iter.collect::<HashMap<_, _>>(): a later duplicate replaces the value *)
Definition hm_collect {A} (l : entries A) : hm A := fold_left (fun m kv => hm_ins m (fst kv) (snd kv)) l [].

(* the query's `state_features`: absent | present but not a map of features | a JSON object of features
   (its entries have distinct names; the HashMap they are read into hands them out in an unspecified order) *)
Inductive user_q (A : Type) : Type := UNone | UBad | USome (l : entries A).
Arguments UNone {A}. Arguments UBad {A}. Arguments USome {A} l.
Definition user_entries {A} (u : user_q A) : entries A := match u with USome l => l | _ => [] end.

(* .map(|(name, feature)| match model_features.get(&name) {
       None => Err(UnknownStateVariableName),
       Some(existing) if existing.get_feature_type() != feature.get_feature_type() => Err(UnexpectedFeatureType),
       Some(_) => Ok((name, feature)) })                                                                       *)
Definition validate_user {A} (model_features : hm A) (e : string * feature A) : res (string * feature A) :=
  match hm_get model_features (fst e) with
  | None => Err err_unknown
  | Some existing =>
      if negb (String.eqb (feature_type existing) (feature_type (snd e))) then Err err_type else Ok e
  end.

(* for (name, _) in declared_features.iter() {
     if added_features.iter().all(|(n, _)| n != name) {
       if let Some(feature) = model_features.get(name) { added_features.push((name.clone(), feature.clone())); } } } *)
Definition added_step {A} (model_features : hm A) (added : entries A) (kv : string * feature A) : entries A :=
  if forallb (fun nf => negb (String.eqb (fst nf) (fst kv))) added then
    match hm_get model_features (fst kv) with
    | Some f => (added ++ [(fst kv, f)])%list
    | None => added
    end
  else added.

Definition collect_features {A} (tm am : entries A) (user : user_q A) : res (entries A) :=
  let declared_features := (tm ++ am)%list in
  let model_features := hm_collect declared_features in
  do user_features_option <- match user with
                             | UBad => Err err_build
                             | UNone => Ok None
                             | USome l => Ok (Some l)
                             end;
  (* validated in the HashMap's iteration order: with invalid entries of two different kinds the class of
     the reported error depends on that order *)
  do user_features <- collect_res (map (validate_user model_features)
                                       (match user_features_option with Some l => l | None => [] end));
  let added_features := fold_left (added_step model_features) declared_features [] in
  Ok (added_features ++ user_features)%list.

(* SearchApp::build_search_instance, the state-model part:
     let state_features = collect_features(query, traversal_model, access_model)?;
     let state_model_instance = self.state_model.extend(state_features)?;                  *)
Definition build_search_instance {A} (configured : smodel A) (tm am : entries A) (user : user_q A)
    : res (smodel A) :=
  do state_features <- collect_features tm am user;
  extend configured state_features.

(* ---- truncation toward zero for the two numeric instances ---- *)
Definition trunc_Q (q : Q) : Z := Z.quot (Qnum q) (Zpos (Qden q)).
Definition trunc_F (f : float) : Z :=
  match Prim2SF f with
  | S754_zero _ => 0%Z
  | S754_nan => 0%Z
  | S754_infinity s => if s then (- 2 ^ 70)%Z else (2 ^ 70)%Z
  | S754_finite s m e =>
      let a := match e with
               | Z0 => Zpos m
               | Zpos p => (Zpos m * 2 ^ Zpos p)%Z
               | Zneg p => Z.shiftr (Zpos m) (Zpos p)
               end in
      if s then (- a)%Z else a
  end.

(* ---- `as f64` on an integer ---- *)
(* z rounded to 53 significant bits, ties to even: the integer value of `z as f64` *)
Definition round53 (z : Z) : Z :=
  let a := Z.abs z in
  if Z.ltb a (2 ^ 53) then z
  else
    let sh := (Z.log2 a - 52)%Z in
    let q := Z.shiftr a sh in
    let r := (a mod 2 ^ sh)%Z in
    let half := (2 ^ (sh - 1))%Z in
    let q' := if Z.ltb half r || (Z.eqb r half && Z.odd q) then (q + 1)%Z else q in
    (Z.sgn z * (q' * 2 ^ sh))%Z.
Definition of_int_Q (z : Z) : Q := inject_Z (round53 z).
(* binary64: the 63-bit primitive conversion rounds to nearest even; a 64-bit magnitude is halved with a sticky
   bit first (round to odd), which leaves the rounding of the 53-bit result unchanged, and doubled exactly *)
Definition Z2F_pos (a : Z) : float :=
  if Z.ltb a (2 ^ 63) then PrimFloat.of_uint63 (Uint63.of_Z a)
  else PrimFloat.mul (PrimFloat.of_uint63 (Uint63.of_Z (Z.lor (Z.shiftr a 1) (Z.land a 1)))) (PrimFloat.of_uint63 2%uint63).
Definition Z2F (z : Z) : float :=
  match z with
  | Z0 => PrimFloat.zero
  | Zpos _ => Z2F_pos z
  | Zneg p => PrimFloat.opp (Z2F_pos (Zpos p))
  end.

End SM.
