(* Runner of the C11 stream `state`: one case = configured features + the features of a traversal and an access
   model + a query override + a sequence of get / set / add operations on the resulting state vector.

     line_state_m   M line: the model (Model/StateModel.v over the container model CM) executed in binary64;
                    compared bit for bit with the implementation's line
     line_state_s   S line: the SPECIFICATION (Model/StateModelSpec.v: association lists over the declaration
                    lists, no container) - names, slots, initial state and error class computed directly; every
                    operation of the sequence judged in exact rational arithmetic on the implementation's own
                    output (embedded in the term): touched slot only, value within the C09 round-trip bound.
                    An accepted observation is echoed in the implementation's format, a rejected one is replaced
                    by REJECT(reason), so  I = S  iff the specification accepts the implementation. *)
From Coq Require Import ZArith QArith Qabs List String Bool Floats.
From RC Require Import Base.Show Base.Num Base.Res Model.Units Model.UnitsRun Model.CompactMap Model.StateModel
     Model.StateModelSpec.
Import ListNotations.

Module SMRun.
Import Units SM.
Local Open Scope string_scope.

(* a unit of one of the three families *)
Inductive uq := UD (u : dist_unit) | UT (u : time_unit) | UE (u : energy_unit).

Inductive op :=
| OGet (name : string) (u : uq)
| OSet (name : string) (u : uq) (x : float)
| OAdd (name : string) (u : uq) (x : float)
| ORt (name : string) (u : uq) (x : float)       (* set_X(u, x); get_X(u) *)
| OAg (name : string) (u : uq) (x : float)       (* get_X(u); add_X(u, x); get_X(u) *)
| OAddN (name : string) (u : uq) (x : float) (n : nat)   (* add_X(u, x) n times, as a route of n edges does *)
| OGetF (name : string) | OGetI (name : string) | OGetU (name : string) | OGetB (name : string)
| OSetF (name : string) (x : float) | OSetI (name : string) (z : Z) | OSetU (name : string) (z : Z)
| OSetB (name : string) (b : bool)
| OPoke (i : nat) (x : float).                   (* state[i] = x: the state vector is a plain Vec the models write to *)

(* what an operation returns *)
Inductive oval := VNone | VF (y : float) | VFF (y0 y1 : float) | VZ (z : Z) | VB (b : bool).
(* an observation: result and the state vector afterwards *)
Inductive obs := Obs (r : res oval) (st : list float).

Definition show_oval (v : oval) : string :=
  match v with
  | VNone => "-" | VF y => show_float y | VFF a b => show_float a ++ " " ++ show_float b
  | VZ z => show_Z z | VB b => show_bool b
  end.
Definition show_state (st : list float) : string := show_list show_float st.
Definition show_obs (o : obs) : string :=
  let 'Obs r st := o in show_res show_oval r ++ " st=" ++ show_state st.

(* kind, unit (Rust variant identifier) / custom type, label and codec of a feature *)
Definition show_kind {A} (f : feature A) : string :=
  match f with
  | FDistance u _ => "distance:" ++ dist_name u
  | FTime u _ => "time:" ++ time_name u
  | FEnergy u _ => "energy:" ++ energy_name u
  | FCustom ty un fm => "custom:" ++ ty ++ "/" ++ un ++ "/"
                        ++ match fm with FFloat _ => "f" | FSigned _ => "i" | FUnsigned _ => "u" | FBool _ => "b" end
  end.
Definition show_struct {A} (len : nat) (feats : list (string * feature A)) (idx : list (option nat))
           (init : res (list float)) : string :=
  "R=Ok len=" ++ show_nat len ++ " names=" ++ show_list (fun s => s) (map fst feats)
  ++ " kinds=" ++ show_list (fun nf => show_kind (snd nf)) feats
  ++ " idx=" ++ show_list (show_option show_nat) idx ++ " init=" ++ show_res show_state init.

(* ------------------------------------------------------------------ M: the model in binary64 *)
Definition fsm := smodel FN.
Definition fstate := list float.

Definition rget (sm : fsm) (st : fstate) (name : string) (u : uq) : res float :=
  match u with
  | UD u => get_distance FN sm st name u | UT u => get_time FN sm st name u | UE u => get_energy FN sm st name u
  end.
Definition rset (sm : fsm) (st : fstate) (name : string) (u : uq) (x : float) : res fstate :=
  match u with
  | UD u => set_distance FN sm st name x u | UT u => set_time FN sm st name x u | UE u => set_energy FN sm st name x u
  end.
Definition radd (sm : fsm) (st : fstate) (name : string) (u : uq) (x : float) : res fstate :=
  match u with
  | UD u => add_distance FN sm st name x u | UT u => add_time FN sm st name x u | UE u => add_energy FN sm st name x u
  end.

(* a failing update leaves the state vector as it was *)
Definition upd (st : fstate) (r : res fstate) : obs :=
  match r with
  | Ok st' => Obs (Ok VNone) st'
  | Err c => Obs (Err c) st | Panic w => Obs (Panic w) st | OutOfFuel => Obs OutOfFuel st
  end.
Definition obs_of {X} (wrap : X -> oval) (st : fstate) (r : res X) : obs := Obs (rmap wrap r) st.

Definition run_op (sm : fsm) (st : fstate) (o : op) : obs :=
  match o with
  | OGet n u => obs_of VF st (rget sm st n u)
  | OSet n u x => upd st (rset sm st n u x)
  | OAdd n u x => upd st (radd sm st n u x)
  | ORt n u x =>
      match rset sm st n u x with
      | Ok st' => obs_of VF st' (rget sm st' n u)
      | r => upd st r
      end
  | OAg n u x =>
      match rget sm st n u with
      | Ok y0 => match radd sm st n u x with
                 | Ok st' => obs_of (VFF y0) st' (rget sm st' n u)
                 | r => upd st r
                 end
      | r => obs_of VF st r
      end
  | OAddN n u x k =>
      (fix go (k : nat) (cur : fstate) : obs :=
         match k with
         | O => Obs (Ok VNone) cur
         | S k' => match radd sm cur n u x with
                   | Ok cur' => go k' cur'
                   | r => upd cur r
                   end
         end) k st
  | OGetF n => obs_of VF st (get_custom_f64 FN sm st n)
  | OGetI n => obs_of VZ st (get_custom_i64 FN trunc_F sm st n)
  | OGetU n => obs_of VZ st (get_custom_u64 FN trunc_F sm st n)
  | OGetB n => obs_of VB st (get_custom_bool FN sm st n)
  | OSetF n x => upd st (set_custom_f64 FN sm st n x)
  | OSetI n z => upd st (set_custom_i64 FN Z2F sm st n z)
  | OSetU n z => upd st (set_custom_u64 FN Z2F sm st n z)
  | OSetB n b => upd st (set_custom_bool FN sm st n b)
  | OPoke i x => Obs (Ok VNone) (set_nth st i x)
  end.
Fixpoint run_ops (sm : fsm) (st : fstate) (ops : list op) : list string :=
  match ops with
  | [] => []
  | o :: r => let ob := run_op sm st o in
              let 'Obs _ st' := ob in show_obs ob :: run_ops sm st' r
  end.

(* one query: the features its traversal and access model contribute, its state_features, its operations *)
Definition step : Type := entries float * entries float * user_q float * list op.

Definition payload_m (cfg : entries float) (probes : list string) (q : step) : string :=
  let '(tm, am, user, ops) := q in
  match build_search_instance (new cfg) tm am user with
  | Ok sm =>
      let init := initial_state FN Z2F sm in
      join " | " (show_struct (len sm) (iter sm) (map (get_index sm) probes) init
                  :: match init with Ok st => run_ops sm st ops | _ => [] end)
  | r => "R=" ++ show_res (fun _ => "") r
  end.
(* a sequence of queries on one application: every query is answered from the configuration and its own
   declarations alone *)
Definition line_state_m (id : Z) (cfg : entries float) (probes : list string) (steps : list step) : string :=
  line "M" id (join " || " (map (payload_m cfg probes) steps)).

(* ------------------------------------------------------------------ S: the specification *)
Local Open Scope Q_scope.
Definition eps : Q := 1 # (2 ^ 40)%positive.       (* binary64 rounding of a handful of operations, with a wide margin *)
Definition feq (a b : float) : bool := String.eqb (show_float a) (show_float b).     (* same bits *)
Fixpoint feq_list (a b : list float) : bool :=
  match a, b with
  | [], [] => true
  | x :: r, y :: s => feq x y && feq_list r s
  | _, _ => false
  end.
(* |a - b| <= rel * scale *)
Definition close (rel scale a b : Q) : bool := Qle_bool (Qabs (a - b)) (rel * scale).

(* the exact factor of the C09 table between two units of one family; None: different families *)
Definition uq_factor (a b : uq) : option Q :=
  match a, b with
  | UD u, UD v => Some (k_dist u v) | UT u, UT v => Some (k_time u v) | UE u, UE v => Some (k_energy u v)
  | _, _ => None
  end.
Definition uq_same (a b : uq) : bool :=
  match a, b with
  | UD u, UD v => dist_eqb u v | UT u, UT v => time_eqb u v | UE u, UE v => energy_eqb u v
  | _, _ => false
  end.
Definition feature_uq (f : feature float) : option uq :=
  match f with
  | FDistance u _ => Some (UD u) | FTime u _ => Some (UT u) | FEnergy u _ => Some (UE u) | FCustom _ _ _ => None
  end.
Definition feature_fmt (f : feature float) : option (fmt float) :=
  match f with FCustom _ _ fm => Some fm | _ => None end.

Definition frame_ok (i : nat) (pre post : list float) : bool :=
  Nat.eqb (List.length pre) (List.length post)
  && forallb (fun j => Nat.eqb j i || match nth_error pre j, nth_error post j with
                                      | Some a, Some b => feq a b | _, _ => false end)
             (seq 0 (List.length pre)).

Definition reject (why : string) (o : obs) : string := "REJECT(" ++ why ++ ") " ++ show_obs o.
Definition expect_err (c : string) (pre : list float) : string := show_obs (Obs (Err c) pre).
Definition verdict (o : obs) (checks : list (string * bool)) : string :=
  match List.filter (fun c => negb (snd c)) checks with
  | [] => show_obs o
  | bad => reject (join "," (map fst bad)) o
  end.
(* PHYSICAL factor between two units, from the exact SI definitions (UnitsRun.si_distance: metres per unit,
   UnitsRun.si_time: seconds per unit) - NOT from the generated table.  Energy has no SI table here (the fuel
   equivalents are conventions of the code base): None, judged by the table factor only. *)
Definition si_factor (a b : uq) : option Q :=
  match a, b with
  | UD u, UD v => Some (UnitsRun.si_distance u / UnitsRun.si_distance v)
  | UT u, UT v => Some (UnitsRun.si_time u / UnitsRun.si_time v)
  | _, _ => None
  end.
(* y is base + x converted from a to b, within 0.2 % of the converted amount (the code's decimal factors are within
   0.1 % of the SI ones, property C09) *)
Definition si_close (a b : uq) (x y base : Q) : bool :=
  match si_factor a b with
  | None => true
  | Some k => Qle_bool (Qabs (y - (base + x * k))) ((2 # 1000) * Qabs (x * k) + eps * (Qabs base + Qabs (x * k)))
  end.
Definition qf (x : float) : Q := match UnitsRun.Q_of_float x with Some q => q | None => 0 end.
Definition finite (x : float) : bool := match UnitsRun.Q_of_float x with Some _ => true | None => false end.

Definition is_nan (x : float) : bool := String.eqb (show_float x) "nan".
(* w is the same infinity as x, or both are NaN *)
Definition nonfinite_same (x w : float) : bool := if is_nan x then is_nan w else feq w x.

(* judge one operation: [s] the specified feature list (name -> feature, position = slot), [pre] the state
   vector before the operation as the implementation printed it, [o] what the implementation returned *)
Definition judge (s : entries float) (pre : list float) (p : op) (o : obs) : string :=
  let 'Obs r post := o in
  let unitful (n : string) (u : uq) (k : nat -> uq -> float -> Q -> Q -> string) : string :=
    match SMS.lookup s n, SMS.position (map fst s) n with
    | Some f, Some i =>
        match feature_uq f, nth_error pre i with
        | Some fu, Some v =>
            match uq_factor u fu, uq_factor fu u with
            | Some kin, Some kout => k i fu v kin kout
            | _, _ => expect_err err_unit pre
            end
        | None, _ => expect_err err_unit pre
        | _, None => reject "state vector shorter than the model" o
        end
    | _, _ => expect_err err_unknown pre
    end in
  let custom_get (n : string) (dec : fmt float -> float -> res oval) : string :=
    match SMS.lookup s n, SMS.position (map fst s) n with
    | Some f, Some i =>
        match feature_fmt f, nth_error pre i with
        | Some fm, Some v => show_obs (Obs (dec fm v) pre)
        | None, _ => expect_err err_unit pre
        | _, None => reject "state vector shorter than the model" o
        end
    | _, _ => expect_err err_unknown pre
    end in
  let custom_set (n : string) (enc : fmt float -> res float) : string :=
    match SMS.lookup s n, SMS.position (map fst s) n with
    | Some f, Some i =>
        match feature_fmt f with
        | Some fm => match enc fm with
                     | Ok v => show_obs (Obs (Ok VNone) (set_nth pre i v))
                     | _ => expect_err err_encode pre
                     end
        | None => expect_err err_unit pre
        end
    | _, _ => expect_err err_unknown pre
    end in
  match p with
  | OGet n u =>
      unitful n u (fun i fu v kin kout =>
        match r with
        | Ok (VF y) =>
            verdict o [("state untouched", feq_list pre post); ("finite", finite y && finite v);
                       ("same unit: the slot itself", negb (uq_same u fu) || feq y v);
                       ("slot value converted by the table factor", close eps (Qabs (qf v * kout)) (qf y) (qf v * kout));
                       ("physically the same quantity (SI factor)", si_close fu u (qf v) (qf y) 0)]
        | _ => reject "expected Ok value" o
        end)
  | OSet n u x =>
      unitful n u (fun i fu v kin kout =>
        match r, nth_error post i with
        | Ok VNone, Some w =>
            if negb (finite x) then
              (* a write is a write: an infinity is stored as that infinity (every factor is positive), NaN as NaN *)
              verdict o [("only its own slot", frame_ok i pre post); ("a non-finite value is stored, not dropped", nonfinite_same x w)]
            else
            verdict o [("only its own slot", frame_ok i pre post); ("finite", finite w);
                       ("same unit: stored as given", negb (uq_same u fu) || feq w x);
                       ("stored converted by the table factor", close eps (Qabs (qf x * kin)) (qf w) (qf x * kin));
                       ("physically the same quantity (SI factor)", si_close u fu (qf x) (qf w) 0)]
        | _, _ => reject "expected Ok" o
        end)
  | OAdd n u x =>
      unitful n u (fun i fu v kin kout =>
        match r, nth_error post i with
        | Ok VNone, Some w =>
            if negb (finite x) && finite v then
              (* finite + infinity = that infinity, anything + NaN = NaN *)
              verdict o [("only its own slot", frame_ok i pre post); ("a non-finite sum is stored, not dropped", nonfinite_same x w)]
            else
            verdict o [("only its own slot", frame_ok i pre post); ("finite", finite w);
                       ("a zero increment leaves the value as it is", negb (Qeq_bool (qf x) 0) || Qeq_bool (qf w) (qf v));
                       ("slot + converted increment", close eps (Qabs (qf v) + Qabs (qf x * kin)) (qf w) (qf v + qf x * kin));
                       ("physically old + increment (SI factor)", si_close u fu (qf x) (qf w) (qf v))]
        | _, _ => reject "expected Ok" o
        end)
  | OAddN n u x k =>
      unitful n u (fun i fu v kin kout =>
        let total := inject_Z (Z.of_nat k) * (qf x * kin) in
        match r, nth_error post i with
        | Ok VNone, Some w =>
            verdict o [("only its own slot", frame_ok i pre post); ("finite", finite w);
                       ("zero increments leave the value as it is", negb (Qeq_bool (qf x) 0) || Qeq_bool (qf w) (qf v));
                       ("slot + n converted increments (no drift)",
                        close eps (Qabs (qf v) + Qabs total) (qf w) (qf v + total));
                       ("physically old + n increments (SI factor)",
                        si_close u fu (inject_Z (Z.of_nat k) * qf x) (qf w) (qf v))]
        | _, _ => reject "expected Ok" o
        end)
  | ORt n u x =>
      unitful n u (fun i fu v kin kout =>
        match r with
        | Ok (VF y) =>
            verdict o [("only its own slot", frame_ok i pre post); ("finite", finite y);
                       ("same unit: exact round trip", negb (uq_same u fu) || feq y x);
                       ("round trip within the C09 bound", close (UnitsRun.tol + eps) (Qabs (qf x)) (qf y) (qf x))]
        | _ => reject "expected Ok value" o
        end)
  | OAg n u x =>
      unitful n u (fun i fu v kin kout =>
        match r with
        | Ok (VFF y0 y1) =>
            verdict o [("only its own slot", frame_ok i pre post); ("finite", finite y0 && finite y1);
                       ("reading before", close eps (Qabs (qf v * kout)) (qf y0) (qf v * kout));
                       ("slot + converted increment",
                        match nth_error post i with
                        | Some w => finite w && close eps (Qabs (qf v) + Qabs (qf x * kin)) (qf w) (qf v + qf x * kin)
                        | None => false
                        end);
                       ("reading after = before + increment within the C09 bound",
                        Qle_bool (Qabs (qf y1 - (qf y0 + qf x))) (UnitsRun.tol * Qabs (qf x) + eps * (Qabs (qf y0) + Qabs (qf x))))]
        | _ => reject "expected Ok values" o
        end)
  | OGetF n => custom_get n (fun fm v => rmap VF (decode_f64 FN fm v))
  | OGetI n => custom_get n (fun fm v => rmap VZ (decode_i64 FN trunc_F fm v))
  | OGetU n => custom_get n (fun fm v => rmap VZ (decode_u64 FN trunc_F fm v))
  | OGetB n => custom_get n (fun fm v => rmap VB (decode_bool FN fm v))
  | OSetF n x => custom_set n (fun fm => encode_f64 FN fm x)
  | OSetI n z => custom_set n (fun fm => encode_i64 FN Z2F fm z)
  | OSetU n z => custom_set n (fun fm => encode_u64 FN Z2F fm z)
  | OSetB n b => custom_set n (fun fm => encode_bool FN fm b)
  | OPoke i x => show_obs (Obs (Ok VNone) (set_nth pre i x))
  end.

(* the state the next operation starts from is the one the implementation printed *)
Fixpoint judge_ops (s : entries float) (pre : list float) (ops : list op) (os : list obs) : list string :=
  match ops, os with
  | [], _ => []
  | p :: r, o :: os' => let 'Obs _ post := o in judge s pre p o :: judge_ops s post r os'
  | _ :: _, [] => ["REJECT(no observation)"]
  end.

Definition payload_s (cfg : entries float) (probes : list string) (q : step) (os : list obs) : string :=
  let '(tm, am, user, ops) := q in
  match SMS.build cfg tm am user with
  | Ok s =>
      let init := SMS.initial_state FN Z2F s in
      join " | " (show_struct (List.length s) s (map (SMS.position (map fst s)) probes) (Ok init)
                  :: judge_ops s init ops os)
  | r => "R=" ++ show_res (fun _ => "") r
  end.
Fixpoint payloads_s (cfg : entries float) (probes : list string) (steps : list step) (oss : list (list obs)) : list string :=
  match steps with
  | [] => []
  | q :: r => payload_s cfg probes q (match oss with o :: _ => o | [] => [] end)
              :: payloads_s cfg probes r (match oss with _ :: t => t | [] => [] end)
  end.
(* the specification is history-free: each query of the sequence is judged on its own *)
Definition line_state_s (id : Z) (cfg : entries float) (probes : list string) (steps : list step)
           (oss : list (list obs)) : string :=
  line "S" id (join " || " (payloads_s cfg probes steps oss)).

End SMRun.
