(* SPECIFICATION of the per-query state model (property C11), written directly over the declaration lists
   with association-list semantics.  Nothing here mentions the container CM or the HashMaps of the code.

   Inputs of one query:
     cfg   the features declared in configuration, in declaration order (distinct names)
     tm    the features contributed by the traversal model, in the order it declares them
     am    the features contributed by the access model
     user  the query's `state_features` overrides

   What the property fixes:
     names   every name declared by cfg, tm or am, once, in order of first declaration (cfg, then tm, then am)
     slot    of a name = its position in that list: 0..n-1, none shared, none skipped
     feature of a name = its LAST definition in the order  cfg < tm < am < user
     errors  an override of a name that no model declares, or with another feature type, is refused; a definition
             may only replace a definition of the same kind (StateFeature's equality: same variant, custom
             features also same type and unit); a `state_features` value that is not a map of features is refused
     initial state  = the initial value of each name's feature, encoded by its format, at the name's slot. *)
From Coq Require Import ZArith List String Bool.
From RC Require Import Base.Num Base.Res Model.Units Model.StateModel.
Import ListNotations.

Module SMS.
Import SM.
Local Open Scope string_scope.

Section Spec.
  Context {A : Type}.
  Notation entries := (list (string * feature A)).

  (* first definition of a name *)
  Fixpoint lookup (l : entries) (k : string) : option (feature A) :=
    match l with
    | [] => None
    | (k', f) :: r => if String.eqb k' k then Some f else lookup r k
    end.
  (* last definition of a name *)
  Fixpoint last_def (l : entries) (k : string) : option (feature A) :=
    match l with
    | [] => None
    | (k', f) :: r =>
        match last_def r k with
        | Some g => Some g
        | None => if String.eqb k' k then Some f else None
        end
    end.

  (* walk through the declarations, appending every name not seen before *)
  Definition add_name (l : list string) (k : string) : list string :=
    if existsb (String.eqb k) l then l else (l ++ [k])%list.
  Definition final_names (cfg tm am : entries) : list string :=
    fold_left add_name (map fst (tm ++ am)%list) (map fst cfg).
  (* the names the models declare, in order of first declaration, each with its last definition *)
  Definition model_names (tm am : entries) : list string := fold_left add_name (map fst (tm ++ am)%list) [].
  Definition model_defs (tm am : entries) : entries :=
    flat_map (fun k => match last_def (tm ++ am)%list k with Some f => [(k, f)] | None => [] end) (model_names tm am).

  (* precedence: query override, else the last model definition, else the configured one *)
  Definition final_feature (cfg tm am user : entries) (k : string) : option (feature A) :=
    match lookup user k with
    | Some f => Some f
    | None => match last_def (tm ++ am)%list k with
              | Some f => Some f
              | None => lookup cfg k
              end
    end.

  Definition unknown_override (tm am : entries) (e : string * feature A) : bool :=
    match last_def (tm ++ am)%list (fst e) with None => true | Some _ => false end.
  Definition mistyped_override (tm am : entries) (e : string * feature A) : bool :=
    match last_def (tm ++ am)%list (fst e) with
    | Some m => negb (String.eqb (feature_type m) (feature_type (snd e)))
    | None => false
    end.
  (* a definition replacing a definition of another kind *)
  Definition replaces_other_kind (older : entries -> string -> option (feature A)) (old : entries)
             (e : string * feature A) : bool :=
    match older old (fst e) with Some o => negb (feature_eqb o (snd e)) | None => false end.

  Definition build (cfg tm am : entries) (user : user_q A) : res entries :=
    match user with
    | UBad => Err err_build
    | _ =>
        let u := user_entries user in
        if existsb (unknown_override tm am) u then Err err_unknown
        else if existsb (mistyped_override tm am) u then Err err_type
        else if existsb (replaces_other_kind lookup cfg) (model_defs tm am)
                || existsb (replaces_other_kind last_def (tm ++ am)%list) u then Err err_build
        else Ok (flat_map (fun k => match final_feature cfg tm am u k with Some f => [(k, f)] | None => [] end)
                          (final_names cfg tm am))
    end.

  (* slot of a name: its position *)
  Fixpoint position (l : list string) (k : string) : option nat :=
    match l with
    | [] => None
    | k' :: r => if String.eqb k' k then Some 0%nat else option_map S (position r k)
    end.
End Spec.

(* the initial value of a feature as a state variable (encoded by its format) *)
Definition initial_value (N : Num) (of_int : Z -> N) (f : feature N) : N :=
  match f with
  | FDistance _ i | FTime _ i | FEnergy _ i => i
  | FCustom _ _ (FFloat i) => i
  | FCustom _ _ (FSigned z) => of_int z          (* `as f64` *)
  | FCustom _ _ (FUnsigned z) => of_int z
  | FCustom _ _ (FBool b) => if b then one else zero
  end.
Definition initial_state (N : Num) (of_int : Z -> N) (s : list (string * feature N)) : list N :=
  map (fun nf => initial_value N of_int (snd nf)) s.

End SMS.
