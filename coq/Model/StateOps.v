(* StateModel of routee-compass-core (model/state/state_model.rs, state_feature.rs, update_operation.rs):
   the unit-aware accessors used by the traversal and access models.  Faithful transcription, definitions only.

     StateModel::new / extend                 -> (a list) / extend
     StateModel::initial_state                -> initial_state
     StateModel::get_{distance,time,energy}   -> get_distance, get_time, get_energy
     StateModel::set_{distance,time,energy}   -> set_distance, set_time, set_energy
     StateModel::add_{distance,time,energy}   -> add_distance, add_time, add_energy
     StateModel::get_delta                    -> get_delta
     StateModel::serialize_state              -> serialize_state  (the `traversal_summary` of a route)

   The state model is a CompactOrderedHashMap<String, StateFeature>: by C11 an insertion-ordered map, so it is
   an association list with unique names whose positions are the state-vector slots.  A state is a list of
   numbers.  Rust failure modes are values: Err "UnknownStateVariableName" | "UnexpectedFeatureUnit" |
   "RuntimeError" (slot beyond the state vector, on read) | "InvalidStateVariableIndex" (same, on write) |
   "BuildError" (extend overwriting a feature with one of another kind).

   add_distance (current code, after fix e80a615): the running value is read in the FEATURE's unit (identity
   arm of convert), only the increment is converted from the caller's unit, the sum is written back in the
   feature's unit (identity arm again).  The identity arms are kept in the model: they go through the
   regenerated unit table like every other conversion.

   Everything numeric is generic in [N : Num] (explicit first argument). *)
From Coq Require Import ZArith List String Bool.
From RC Require Import Base.Num Base.Res Model.Units.
Import ListNotations.

Module StateOps.
Import Units.
Local Open Scope string_scope.

Inductive feature (A : Type) : Type :=
| FDistance (u : dist_unit) (init : A)
| FTime (u : time_unit) (init : A)
| FEnergy (u : energy_unit) (init : A)
| FCustom (tag : string) (init : A).   (* custom feature: type+unit tag and its encoded initial value *)
Arguments FDistance {A} u init. Arguments FTime {A} u init. Arguments FEnergy {A} u init.
Arguments FCustom {A} tag init.

Definition smodel (A : Type) : Type := list (string * feature A).

Definition err_unknown : string := "UnknownStateVariableName".
Definition err_unit : string := "UnexpectedFeatureUnit".
Definition err_runtime : string := "RuntimeError".
Definition err_index : string := "InvalidStateVariableIndex".
Definition err_build : string := "BuildError".

(* slot of a name: position in insertion order *)
Fixpoint get_index {A} (sm : smodel A) (name : string) : option nat :=
  match sm with
  | [] => None
  | (n, _) :: r => if String.eqb n name then Some 0%nat
                   else match get_index r name with Some i => Some (S i) | None => None end
  end.
Fixpoint lookup_feature {A} (sm : smodel A) (name : string) : option (feature A) :=
  match sm with
  | [] => None
  | (n, f) :: r => if String.eqb n name then Some f else lookup_feature r name
  end.

(* `state[index] = value` *)
Fixpoint set_nth {A} (l : list A) (i : nat) (v : A) : list A :=
  match l, i with
  | [], _ => []
  | _ :: r, O => v :: r
  | x :: r, S j => x :: set_nth r j v
  end.

(* StateFeature::eq -- same variant; custom features also compare type and unit (the tag) *)
Definition kind_eqb {A} (a b : feature A) : bool :=
  match a, b with
  | FDistance _ _, FDistance _ _ => true
  | FTime _ _, FTime _ _ => true
  | FEnergy _ _, FEnergy _ _ => true
  | FCustom s _, FCustom t _ => String.eqb s t
  | _, _ => false
  end.

(* CompactOrderedHashMap::insert: replace in place (slot kept) or append; returns the old value *)
Fixpoint insert {A} (sm : smodel A) (name : string) (f : feature A) : smodel A * option (feature A) :=
  match sm with
  | [] => ([(name, f)], None)
  | (n, g) :: r =>
      if String.eqb n name then ((n, f) :: r, Some g)
      else let (r', o) := insert r name f in ((n, g) :: r', o)
  end.

(* StateModel::extend: every entry is inserted; an entry replacing a feature of another kind is an error
   (reported after all entries were inserted) *)
Definition extend {A} (sm : smodel A) (entries : list (string * feature A)) : res (smodel A) :=
  let step (acc : smodel A * bool) (e : string * feature A) :=
    let (m, bad) := acc in
    let (m', old) := insert m (fst e) (snd e) in
    (m', bad || match old with Some o => negb (kind_eqb o (snd e)) | None => false end) in
  let (m, bad) := fold_left step entries (sm, false) in
  if bad then Err err_build else Ok m.

Definition feature_initial {A} (f : feature A) : A :=
  match f with FDistance _ i | FTime _ i | FEnergy _ i | FCustom _ i => i end.
(* StateModel::initial_state *)
Definition initial_state {A} (sm : smodel A) : list A := map (fun nf => feature_initial (snd nf)) sm.

(* StateModel::serialize_state: names zipped with the state vector (a JSON object; key order is not specified) *)
Definition serialize_state {A} (sm : smodel A) (st : list A) : list (string * A) := combine (map fst sm) st.

Section Ops.
  Variable N : Num.
  Notation sm_t := (smodel N).
  Notation state := (list N).

  Definition get_feature (sm : sm_t) (name : string) : res (feature N) :=
    match lookup_feature sm name with Some f => Ok f | None => Err err_unknown end.
  Definition get_distance_unit (f : feature N) : res dist_unit :=
    match f with FDistance u _ => Ok u | _ => Err err_unit end.
  Definition get_time_unit (f : feature N) : res time_unit :=
    match f with FTime u _ => Ok u | _ => Err err_unit end.
  Definition get_energy_unit (f : feature N) : res energy_unit :=
    match f with FEnergy u _ => Ok u | _ => Err err_unit end.

  (* StateModel::get_state_variable *)
  Definition get_state_variable (sm : sm_t) (st : state) (name : string) : res N :=
    match get_index sm name with
    | None => Err err_unknown
    | Some i => match nth_error st i with Some v => Ok v | None => Err err_runtime end
    end.

  (* StateModel::update_state with UpdateOperation::Replace *)
  Definition update_state (sm : sm_t) (st : state) (name : string) (v : N) : res state :=
    match get_index sm name with
    | None => Err err_unknown
    | Some i => match nth_error st i with Some _ => Ok (set_nth st i v) | None => Err err_index end
    end.

  Definition get_distance (sm : sm_t) (st : state) (name : string) (unit : dist_unit) : res N :=
    do value <- get_state_variable sm st name;
    do f <- get_feature sm name;
    do fu <- get_distance_unit f;
    Ok (convert_distance N fu unit value).
  Definition get_time (sm : sm_t) (st : state) (name : string) (unit : time_unit) : res N :=
    do value <- get_state_variable sm st name;
    do f <- get_feature sm name;
    do fu <- get_time_unit f;
    Ok (convert_time N fu unit value).
  Definition get_energy (sm : sm_t) (st : state) (name : string) (unit : energy_unit) : res N :=
    do value <- get_state_variable sm st name;
    do f <- get_feature sm name;
    do fu <- get_energy_unit f;
    Ok (convert_energy N fu unit value).

  Definition set_distance (sm : sm_t) (st : state) (name : string) (d : N) (from_unit : dist_unit) : res state :=
    do f <- get_feature sm name;
    do to_unit <- get_distance_unit f;
    update_state sm st name (convert_distance N from_unit to_unit d).
  Definition set_time (sm : sm_t) (st : state) (name : string) (t : N) (from_unit : time_unit) : res state :=
    do f <- get_feature sm name;
    do to_unit <- get_time_unit f;
    update_state sm st name (convert_time N from_unit to_unit t).
  Definition set_energy (sm : sm_t) (st : state) (name : string) (e : N) (from_unit : energy_unit) : res state :=
    do f <- get_feature sm name;
    do to_unit <- get_energy_unit f;
    update_state sm st name (convert_energy N from_unit to_unit e).

  (* let feature_unit = self.get_feature(name)?.get_distance_unit()?;
     let prev = self.get_distance(state, name, &feature_unit)?;
     let next = prev + from_unit.convert(distance, &feature_unit);
     self.set_distance(state, name, &next, &feature_unit) *)
  Definition add_distance (sm : sm_t) (st : state) (name : string) (d : N) (from_unit : dist_unit) : res state :=
    do f <- get_feature sm name;
    do fu <- get_distance_unit f;
    do prev <- get_distance sm st name fu;
    set_distance sm st name (add prev (convert_distance N from_unit fu d)) fu.
  Definition add_time (sm : sm_t) (st : state) (name : string) (t : N) (from_unit : time_unit) : res state :=
    do f <- get_feature sm name;
    do fu <- get_time_unit f;
    do prev <- get_time sm st name fu;
    set_time sm st name (add prev (convert_time N from_unit fu t)) fu.
  Definition add_energy (sm : sm_t) (st : state) (name : string) (e : N) (from_unit : energy_unit) : res state :=
    do f <- get_feature sm name;
    do fu <- get_energy_unit f;
    do prev <- get_energy sm st name fu;
    set_energy sm st name (add prev (convert_energy N from_unit fu e)) fu.

  (* StateModel::get_delta *)
  Definition get_delta (sm : sm_t) (prev next : state) (name : string) : res N :=
    do p <- get_state_variable sm prev name;
    do n <- get_state_variable sm next name;
    Ok (sub n p).
End Ops.

End StateOps.
