(* Executable model of
     routee-compass-core/src/model/termination/termination_model.rs
         TerminationModel::{terminate_search, explain_termination, test}
     routee-compass-core/src/util/duration_extension.rs          Duration::hhmmss
     routee-compass/src/app/compass/config/termination_model_builder.rs   TerminationModelBuilder::build
     routee-compass-core/src/util/conversion/duration_extension.rs        serde_json::Value::as_duration
   and its wiring into the search loop of Model/Search.v (the loop calls
   `si.termination_model.test(&start_time, solution.len(), iterations)?` at the top of every turn).
   Definitions only (lemmas: Proofs/Termination*.v).

   Numbers.  limit / frequency / counters are u64 (usize = u64 on the 64-bit targets the crate is built for);
   they are binary naturals N here.  Durations are N nanoseconds (Duration orders lexicographically by
   (secs, nanos) = by total nanoseconds).  The only arithmetic on counters is `iteration + 1`, which the model
   does not let overflow: a search would need 2^64 - 1 loop turns to get there.
   The wall clock is a function of the iteration count: [ck i] is the elapsed time
   `Instant::now().duration_since(start_time)` read by a test that runs at iteration i (hook H2 plays exactly
   such a script to the real code).
   `iteration % frequency` with frequency = 0 panics in Rust: Panic here.  The frequency comes from the
   application's configuration file, never from a query. *)
From Coq Require Import NArith ZArith List Arith Bool String Ascii.
From stdpp Require Import gmap.
From RC Require Import Base.Show Base.Res Base.Json Model.Search.
Import ListNotations.
Local Open Scope string_scope.

Module TM.

Inductive term :=
| Runtime (limit frequency : N)      (* QueryRuntimeLimit { limit (ns), frequency } *)
| Size (limit : N)                   (* SolutionSizeLimit { limit } *)
| Iter (limit : N)                   (* IterationsLimit { limit } *)
| Combined (models : list term).     (* Combined { models } *)

Definition clock := nat -> N.

(* ---- Duration::hhmmss ---- *)
Definition pad_zero (n : N) : string := if N.ltb n 10 then "0" ++ show_N n else show_N n.
Definition pad_millis (n : N) : string :=
  if N.ltb n 10 then "00" ++ show_N n else if N.ltb n 100 then "0" ++ show_N n else show_N n.
Definition hhmmss (ns : N) : string :=
  let secs := (ns / 1000000000)%N in
  let d := (secs / 86400)%N in
  let h := ((secs mod 86400) / 3600)%N in
  let m := ((secs mod 3600) / 60)%N in
  let s := (secs mod 60)%N in
  let ml := ((ns / 1000000) mod 1000)%N in            (* as_millis() % 1000 *)
  (if N.eqb d 0 then "" else "+" ++ show_N d ++ ".")
  ++ show_N h ++ ":" ++ pad_zero m ++ ":" ++ pad_zero s ++ "." ++ pad_millis ml.

(* ---- terminate_search ---- *)
(* Combined: `models.iter().try_fold(false, |acc, m| m.terminate_search(..).map(|r| acc || r))` evaluates EVERY
   inner model (no short circuit on true; only an Err/panic stops the fold) *)
Fixpoint terminate_search (t : term) (ck : clock) (size it : nat) : res bool :=
  match t with
  | Runtime lim f =>
      if N.eqb f 0 then Panic "attempt to calculate the remainder with a divisor of zero"
      else if N.eqb (N.modulo (N.of_nat it) f) 0 then Ok (N.ltb lim (ck it))      (* dur > limit *)
      else Ok false
  | Size lim => Ok (N.ltb lim (N.of_nat size))                                      (* solution_size > limit *)
  | Iter lim => Ok (N.ltb lim (N.of_nat it + 1))                                    (* iteration + 1 > limit *)
  | Combined l =>
      (fix go (l : list term) (acc : bool) : res bool :=
         match l with
         | [] => Ok acc
         | m :: r => do b <- terminate_search m ck size it; go r (acc || b)
         end) l false
  end.

(* `.unwrap_or(false)` on the Result; a panic is not a Result *)
Definition unwrap_or_false (r : res bool) : res bool :=
  match r with Ok b => Ok b | Err _ => Ok false | Panic w => Panic w | OutOfFuel => OutOfFuel end.

(* the text of one leaf's explanation *)
Definition leaf_msg (t : term) : string :=
  match t with
  | Runtime lim _ => "exceeded runtime limit of " ++ hhmmss lim
  | Size lim => "exceeded solution size limit of " ++ show_N lim
  | Iter lim => "exceeded iteration limit of " ++ show_N lim
  | Combined _ => ""
  end.

Definition is_empty (s : string) : bool := match s with EmptyString => true | _ => false end.

(* ---- explain_termination ---- *)
Fixpoint explain (t : term) (ck : clock) (size it : nat) : res (option string) :=
  do caused <- unwrap_or_false (terminate_search t ck size it);
  match t with
  | Combined l =>
      do parts <- (fix go (l : list term) : res (list string) :=
                     match l with
                     | [] => Ok []
                     | m :: r =>
                         do e <- explain m ck size it;
                         do rest <- go r;
                         Ok (match e with Some s => s :: rest | None => rest end)
                     end) l;
      let s := join ", " parts in
      if is_empty s then Ok None else Ok (Some s)
  | _ => if caused then Ok (Some (leaf_msg t)) else Ok None
  end.

(* ---- test ---- *)
Definition test (t : term) (ck : clock) (size it : nat) : res unit :=
  do b <- terminate_search t ck size it;
  if b then
    do e <- explain t ck size it;
    match e with
    | None => Err "termination: unable to explain termination"          (* TerminationModelError::RuntimeError *)
    | Some msg => Err ("terminated: " ++ msg)                          (* TerminationModelError::QueryTerminated *)
    end
  else Ok tt.

(* ---- the same, as pure functions, for models without a zero frequency ---- *)
Fixpoint wf (t : term) : bool :=
  match t with
  | Runtime _ f => negb (N.eqb f 0)
  | Combined l => forallb wf l
  | _ => true
  end.

Fixpoint fires (t : term) (ck : clock) (size it : nat) : bool :=
  match t with
  | Runtime lim f => N.eqb (N.modulo (N.of_nat it) f) 0 && N.ltb lim (ck it)
  | Size lim => N.ltb lim (N.of_nat size)
  | Iter lim => N.ltb lim (N.of_nat it + 1)
  | Combined l => existsb (fun m => fires m ck size it) l
  end.

Fixpoint leaves (t : term) : list term :=
  match t with
  | Combined l => flat_map leaves l
  | _ => [t]
  end.

(* the leaves that fire, in configuration order *)
Definition fired (t : term) (ck : clock) (size it : nat) : list term :=
  List.filter (fun x => fires x ck size it) (leaves t).

(* ---- what Model/Search.v's loop is instantiated with: Some explanation = the test fails with
        QueryTerminated(explanation) ---- *)
Definition to_search (t : term) (ck : clock) (size it : nat) : option string :=
  match terminate_search t ck size it with
  | Ok true => match explain t ck size it with Ok (Some msg) => Some msg | _ => None end
  | _ => None
  end.

Definition unlimited : nat -> nat -> option string := fun _ _ => None.

(* elapsed time at iteration i = script[min(i, len-1)] (0 for the empty script): hook H2's scripted clock *)
Definition clock_of_script (l : list N) : clock := fun i => nth i l (List.last l 0%N).

(* the first scheduled check at or after iteration i0 (frequency f > 0): the least multiple of f that is >= i0 *)
Definition next_check (f i0 : nat) : nat := f * ((i0 + f - 1) / f).

(* ---- the states of one search run, as the loop visits them: the state at the top of every loop turn, up to and
        including the turn in which the loop ends (limit test fails, queue empty, target popped, model error) ---- *)
Section Trace.
  Context {C St : Type}.
  Variable clt : C -> C -> bool.
  Variable cadd : C -> C -> C.
  Variable czero : C.
  Variable cfloor : C -> C.
  Variable g : Search.graph.
  Variable frontier : nat -> St -> option nat -> res bool.
  Variable traverse : Search.dir -> nat -> option nat -> St -> res (C * C * St).
  Variable estimate : nat -> nat -> St -> res C.
  Variable terminate : nat -> nat -> option string.

  Fixpoint run_states (fuel : nat) (d : Search.dir) (source : nat) (target : option nat) (init : St)
           (s : Search.sstate C St) : list (Search.sstate C St) :=
    match fuel with
    | 0 => []
    | S f =>
        s :: match Search.step clt cadd czero cfloor g frontier traverse estimate terminate d source target init s with
             | Ok (inl s') => run_states f d source target init s'
             | _ => []
             end
    end.

  (* the counters handed to the limit test at every loop turn *)
  Definition counters (s : Search.sstate C St) : nat * nat := (size (Search.s_tree s), Search.s_iters s).
End Trace.

(* out-degree bound in the search direction: every vertex with an incident edge is the start of one *)
Definition deg_bound (d : Search.dir) (g : Search.graph) : nat :=
  list_max (map (fun e => List.length (Search.incident d g (Search.term_vertex d e))) (Search.gedges g)).

(* ---- TerminationModelBuilder::build ---- *)
Definition lower_ascii (c : ascii) : ascii :=
  let n := nat_of_ascii c in
  if Nat.leb 65 n && Nat.leb n 90 then ascii_of_nat (n + 32) else c.
Fixpoint to_lowercase (s : string) : string :=
  match s with EmptyString => EmptyString | String c r => String (lower_ascii c) (to_lowercase r) end.

Definition two64 : Z := 18446744073709551616%Z.
Definition i64_max : Z := 9223372036854775807%Z.
Definition i64_min : Z := (-9223372036854775808)%Z.
(* Value::as_i64: integers that fit i64 (floats and larger unsigned numbers give None) *)
Definition as_i64 (j : json) : option Z :=
  match j with
  | JInt z => if Z.leb i64_min z && Z.leb z i64_max then Some z else None
  | _ => None
  end.
(* `as u64` / `as usize` of an i64: two's complement *)
Definition cast_u64 (z : Z) : N := Z.to_N (if Z.ltb z 0 then z + two64 else z)%Z.

Definition get_config_i64 (j : json) (k : string) : res Z :=
  match jget j k with
  | None => Err "config: expected field"
  | Some v => match as_i64 v with None => Err "config: expected type" | Some z => Ok z end
  end.

Definition is_digit (c : ascii) : bool := let n := nat_of_ascii c in Nat.leb 48 n && Nat.leb n 57.
Fixpoint digits_val (s : string) (acc : N) : option N :=
  match s with
  | EmptyString => Some acc
  | String c r => if is_digit c then digits_val r (acc * 10 + N.of_nat (nat_of_ascii c - 48))%N else None
  end.
Fixpoint split_colon (s : string) : list string :=
  match s with
  | EmptyString => [EmptyString]
  | String c r =>
      if Ascii.eqb c ":"%char then EmptyString :: split_colon r
      else match split_colon r with
           | [] => [String c EmptyString]
           | x :: xs => String c x :: xs
           end
  end.
(* as_duration: ^(\d+):(\d{2}):(\d{2})$ (ASCII digits; the harness generates no other digits), seconds -> ns;
   values that do not fit u64 are outside the model *)
Definition as_duration (j : json) : res N :=
  match j with
  | JStr s =>
      match split_colon s with
      | [h; m; sec] =>
          if negb (Nat.eqb (String.length h) 0) && Nat.eqb (String.length m) 2 && Nat.eqb (String.length sec) 2 then
            match digits_val h 0, digits_val m 0, digits_val sec 0 with
            | Some hv, Some mv, Some sv => Ok ((hv * 3600 + mv * 60 + sv) * 1000000000)%N
            | _, _, _ => Err "config: duration"
            end
          else Err "config: duration"
      | _ => Err "config: duration"
      end
  | _ => Err "config: duration"
  end.

Fixpoint build (fuel : nat) (j : json) : res term :=
  match fuel with
  | 0 => OutOfFuel
  | S fu =>
      match jget j "type" with
      | None => Err "config: expected field"
      | Some tv =>
          match as_str tv with
          | None => Err "config: expected type"
          | Some ty =>
              let ty := to_lowercase ty in
              if String.eqb ty "query_runtime" then
                match jget j "limit" with
                | None => Err "config: expected field"
                | Some dv =>
                    do dur <- as_duration dv;
                    do f <- get_config_i64 j "frequency";
                    (* /repo dcfc7c1: a non-positive frequency is a configuration error *)
                    if Z.ltb f 1 then Err "config: user configuration"
                    else Ok (Runtime dur (cast_u64 f))
                end
              else if String.eqb ty "iterations" then
                do l <- get_config_i64 j "limit"; Ok (Iter (cast_u64 l))
              else if String.eqb ty "solution_size" then
                do l <- get_config_i64 j "limit"; Ok (Size (cast_u64 l))
              else if String.eqb ty "combined" then
                match jget j "models" with
                | None => Err "config: expected field"
                | Some mv =>
                    match as_array mv with
                    | None => Err "config: expected type"
                    | Some ms =>
                        do l <- (fix go (ms : list json) : res (list term) :=
                                   match ms with
                                   | [] => Ok []
                                   | x :: r => do t <- build fu x; do rest <- go r; Ok (t :: rest)
                                   end) ms;
                        Ok (Combined l)
                    end
                end
              else Err "config: unknown model name"
          end
      end
  end.

(* ---- drivers on top of the search (the k-shortest-path algorithms): a driver calls the underlying search any
        number of times, each call followed by `?` (single_via_paths_algorithm.rs: forward then reverse search;
        yens_algorithm.rs: the shortest path, then one spur search per spur vertex with an edge-cut frontier), and
        computes purely in between.  [Q] = what one call is made with, [R] = SearchAlgorithmResult. ---- *)
Section Driver.
  Variables Q R A : Type.
  Inductive prog :=
  | Ret (a : res A)
  | Call (q : Q) (k : R -> prog).
  Fixpoint exec (oracle : Q -> res R) (p : prog) : res A :=
    match p with
    | Ret a => a
    | Call q k => do r <- oracle q; exec oracle (k r)
    end.
  (* single_via_paths_algorithm::run: the two sub-searches, then [post] *)
  Definition single_via (fwd rev : Q) (post : R -> R -> res A) : prog :=
    Call fwd (fun f => Call rev (fun r => Ret (post f r))).
End Driver.
Arguments Ret {Q R A} a.
Arguments Call {Q R A} q k.
Arguments exec {Q R A} oracle p.
Arguments single_via {Q R A} fwd rev post.

End TM.
