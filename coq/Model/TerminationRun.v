(* Runner of the C10 correspondence streams (counterpart of harness/src/bin/c10.rs).

   A case is one world + one query (Model/SearchRun.v: table-driven search configuration) together with a whole
   SWEEP of termination models (each with the clock script hook H2 plays to it).  What is observed of one search,
   on the implementation and on the model alike, is an [obs]: status, the explanation of a 'terminated' error,
   iterations, trees, routes, and the TRACE = the (solution size, iterations) counters handed to
   TerminationModel::test at the top of every loop turn (hook H2 records them; the model reads them off
   TM.run_states).

     line_M   the model's sweep (Search.v's loop instantiated with TM.to_search), or TIE when the unlimited run
              popped among equal priorities;
     line_S   the property, decided in Coq from the IMPLEMENTATION's observations of the sweep: prints them back
              (same text as the harness' I line) when every clause holds, REJECT(..) otherwise.
   Definitions only. *)
From Coq Require Import ZArith NArith QArith List Arith Bool String Ascii Floats.
From stdpp Require Import gmap.
From RC Require Import Base.Show Base.Res Base.Num Base.Json Model.Search Model.SearchSpec Model.SearchRun Model.Termination.
Import ListNotations.
Local Open Scope string_scope.

Module TR.
Import Search.

Record obs := mkObs {
  ob_status : string;                       (* Ok | terminated | nopath | err:<class> | Panic | Hang *)
  ob_msg : string;                          (* explanation carried by a 'terminated' error *)
  ob_iters : nat;
  ob_trees : list (list (nat * nat * nat)); (* (vertex, parent, edge) sorted by vertex *)
  ob_routes : list (list nat);
  ob_digest : Z;                            (* implementation side: hash of the full-detail outcome (costs, states) *)
  ob_trace : list (nat * nat)
}.

(* the same result with another trace (the harness writes entries whose result repeats the unlimited one this way,
   to keep the case terms small; the comparison itself is made by [same_result] in Coq) *)
Definition with_trace (o : obs) (tr : list (nat * nat)) : obs :=
  mkObs (ob_status o) (ob_msg o) (ob_iters o) (ob_trees o) (ob_routes o) (ob_digest o) tr.

(* one sweep entry: the termination model and the clock script played to it *)
Definition entry := (TM.term * list N)%type.

(* ---------------------------------------------------------------- printing (identical to c10.rs) *)
Fixpoint show_term (t : TM.term) : string :=
  match t with
  | TM.Runtime lim f => "rt" ++ show_N lim ++ "/" ++ show_N f
  | TM.Size n => "sz" ++ show_N n
  | TM.Iter n => "it" ++ show_N n
  | TM.Combined l => "cb" ++ show_list show_term l
  end.
Definition show_pair_nn (p : nat * nat) : string := "(" ++ show_nat (fst p) ++ "," ++ show_nat (snd p) ++ ")".
Definition show_triple (x : nat * nat * nat) : string :=
  let '(v, p, e) := x in "(" ++ show_nat v ++ "," ++ show_nat p ++ "," ++ show_nat e ++ ")".
Definition show_obs_full (o : obs) : string :=
  if String.eqb (ob_status o) "Ok" then
    "Ok it=" ++ show_nat (ob_iters o)
    ++ " trees=" ++ show_list (show_list show_triple) (ob_trees o)
    ++ " routes=" ++ show_list (show_list show_nat) (ob_routes o)
  else if String.eqb (ob_status o) "terminated" then "T[" ++ ob_msg o ++ "]"
  else ob_status o.

Definition list_eqb {A} (f : A -> A -> bool) : list A -> list A -> bool :=
  fix go (a b : list A) : bool :=
    match a, b with
    | [], [] => true
    | x :: r, y :: s => f x y && go r s
    | _, _ => false
    end.
Definition triple_eqb (a b : nat * nat * nat) : bool :=
  let '(a1, a2, a3) := a in let '(b1, b2, b3) := b in Nat.eqb a1 b1 && Nat.eqb a2 b2 && Nat.eqb a3 b3.
(* same result: everything but the trace *)
Definition same_result (a b : obs) : bool :=
  String.eqb (ob_status a) (ob_status b) && String.eqb (ob_msg a) (ob_msg b)
  && Nat.eqb (ob_iters a) (ob_iters b)
  && list_eqb (list_eqb triple_eqb) (ob_trees a) (ob_trees b)
  && list_eqb (list_eqb Nat.eqb) (ob_routes a) (ob_routes b)
  && Z.eqb (ob_digest a) (ob_digest b).

Definition show_trace_end (tr : list (nat * nat)) : string :=
  "@" ++ show_nat (List.length tr)
  ++ match List.last (map Some tr) None with Some p => show_pair_nn p | None => "-" end.
Definition show_entry (unl : obs) (e : entry) (o : obs) : string :=
  show_term (fst e) ++ "/" ++ show_list show_N (snd e) ++ ":"
  ++ (if same_result o unl then "=" else show_obs_full o) ++ show_trace_end (ob_trace o).
(* [full] = print the unlimited result too (plain searches); the KSP stream prints only its trace *)
Definition show_case (full : bool) (unl : obs) (es : list (entry * obs)) : string :=
  "U{" ++ (if full then show_obs_full unl ++ " " else "") ++ "tr=" ++ show_list show_pair_nn (ob_trace unl) ++ "} "
  ++ join " " (map (fun eo => show_entry unl (fst eo) (snd eo)) es).

(* ---------------------------------------------------------------- the model's observations *)
Definition prefixb (p s : string) : bool := String.eqb p (substring 0 (String.length p) s).
Definition term_prefix : string := "terminated: ".
Definition strip_term (c : string) : string := substring 12 (String.length c - 12) c.

(* ---- one pass over the loop that yields both the search result and the counters of every limit test.
        Proofs/TerminationRunSpec.v: the first component IS Search.run_vertex_oriented, the second IS
        map TM.counters (TM.run_states ..) of the same run. ---- *)
Section Traced.
  Context {C St : Type}.
  Variable clt : C -> C -> bool.
  Variable cadd : C -> C -> C.
  Variable czero : C.
  Variable cfloor : C -> C.
  Variable g : graph.
  Variable frontier : nat -> St -> option nat -> res bool.
  Variable traverse : dir -> nat -> option nat -> St -> res (C * C * St).
  Variable estimate : nat -> nat -> St -> res C.
  Variable init_state : res St.
  Variable terminate : nat -> nat -> option string.

  Fixpoint loop_traced (fuel : nat) (d : dir) (source : nat) (target : option nat) (init : St)
           (s : sstate C St) (acc : list (nat * nat)) : res (sstate C St) * list (nat * nat) :=
    match fuel with
    | 0 => (OutOfFuel, rev acc)
    | S f =>
        let acc' := TM.counters s :: acc in
        match step clt cadd czero cfloor g frontier traverse estimate terminate d source target init s with
        | Ok (inl s') => loop_traced f d source target init s' acc'
        | Ok (inr s') => (Ok s', rev acc')
        | Err e => (Err e, rev acc')
        | Panic w => (Panic w, rev acc')
        | OutOfFuel => (OutOfFuel, rev acc')
        end
    end.

  Definition vertex_traced (fuel : nat) (d : dir) (source : nat) (target : option nat)
    : res (sresult C St) * list (nat * nat) :=
    let direct := run_vertex_oriented clt cadd czero cfloor g frontier traverse estimate init_state terminate
                    fuel d source target in
    if negb (Nat.ltb source (nverts g)) then (direct, [])
    else if (match target with Some t => Nat.eqb t source | None => false end) then (direct, [])
    else match init_state with
         | Ok init =>
             match (match target with None => Ok czero | Some t => estimate source t init end) with
             | Ok h0 =>
                 let rt := loop_traced fuel d source target init (mkS [(source, h0)] {[source := czero]} ∅ 0) [] in
                 (do s <- fst rt;
                  match target with
                  | None => Ok (mkR [s_tree s] [] (s_iters s))
                  | Some t => do route <- vertex_oriented_route source t (s_tree s);
                              Ok (mkR [s_tree s] [route] (s_iters s))
                  end, snd rt)
             | _ => (direct, [])
             end
         | _ => (direct, [])
         end.
End Traced.

Section Run.
  Variable N : Num.
  Notation world := (SR.world N).
  Notation query := (SR.query N).

  (* run_vertex_oriented under termination model t and clock ck, with the counters handed to the limit test.
     A model with a zero frequency panics in the first limit test, i.e. as soon as run_a_star enters its loop *)
  Definition vertex_both (fuel : nat) (w : world) (q : query) (t : TM.term) (ck : TM.clock)
             (d : dir) (s : nat) (tg : option nat) : res (sresult N N) * list (nat * nat) :=
    if TM.wf t then
      vertex_traced (C:=N) (St:=N) ltb add zero (SR.pos N) (SR.graph_of N w) (SR.frontier N w) (SR.traverse N w)
        (SR.estimate N w (SR.eff_wf N q)) (Ok (SR.w_init N w)) (TM.to_search t ck) fuel d s tg
    else
      let r := run_vertex_oriented (C:=N) (St:=N) ltb add zero (SR.pos N) (SR.graph_of N w) (SR.frontier N w)
                 (SR.traverse N w) (SR.estimate N w (SR.eff_wf N q)) (Ok (SR.w_init N w)) TM.unlimited fuel d s tg in
      if negb (Nat.ltb s (SR.w_n N w)) || (match tg with Some x => Nat.eqb x s | None => false end) then (r, [])
      else match (match tg with None => Ok zero | Some x => SR.estimate N w (SR.eff_wf N q) s x (SR.w_init N w) end) with
           | Ok _ => (Panic "attempt to calculate the remainder with a divisor of zero", [(0, 0)])
           | Err e => (Err e, [])
           | Panic p => (Panic p, [])
           | OutOfFuel => (OutOfFuel, [])
           end.
  Definition run_vertex fuel w q t ck d s tg : res (sresult N N) := fst (vertex_both fuel w q t ck d s tg).
  Definition trace_vertex fuel w q t ck d s tg : list (nat * nat) := snd (vertex_both fuel w q t ck d s tg).

  (* a query: the edge-oriented wrapper (search_algorithm.rs::run_edge_oriented) runs at most one vertex-oriented
     search, from the far end of the origin edge to the near end of the destination edge *)
  Definition query_both (fuel : nat) (w : world) (q : query) (t : TM.term) (ck : TM.clock)
    : res (sresult N N) * list (nat * nat) :=
    let d := SR.q_dir N q in
    match SR.q_orient N q with
    | SR.OVertex => vertex_both fuel w q t ck d (SR.q_source N q) (SR.q_target N q)
    | SR.OEdge =>
        (run_edge_oriented (C:=N) (St:=N) zero (SR.graph_of N w) (SR.traverse N w) (Ok (SR.w_init N w))
           d (run_vertex fuel w q t ck d) (SR.q_source N q) (SR.q_target N q),
         match get_edge (SR.graph_of N w) (SR.q_source N q) with
         | None => []
         | Some e1 =>
             let b1 := key_vertex d e1 in
             match SR.q_target N q with
             | None => trace_vertex fuel w q t ck d b1 None
             | Some te =>
                 match get_edge (SR.graph_of N w) te with
                 | None => []
                 | Some e2 =>
                     let a2 := term_vertex d e2 in
                     if Nat.eqb (SR.q_source N q) te || Nat.eqb b1 a2 then []
                     else trace_vertex fuel w q t ck d b1 (Some a2)
                 end
             end
         end)
    end.

  Definition obs_of (r : res (sresult N N)) (tr : list (nat * nat)) : obs :=
    match r with
    | Ok x =>
        let o := SR.outcome_of N r in
        mkObs "Ok" "" (r_iters x) (map (SR.triples N) (SR.o_trees N o)) (map (SR.route_edges N) (SR.o_routes N o)) 0 tr
    | Err c =>
        if prefixb term_prefix c then mkObs "terminated" (strip_term c) 0 [] [] 0 tr
        else mkObs (SR.status_of_err c) "" 0 [] [] 0 tr
    | Panic _ => mkObs "Panic" "" 0 [] [] 0 tr
    | OutOfFuel => mkObs "Hang" "" 0 [] [] 0 tr
    end.

  Definition model_obs (fuel : nat) (w : world) (q : query) (e : entry) : obs :=
    let ck := TM.clock_of_script (snd e) in
    let rt := query_both fuel w q (fst e) ck in
    obs_of (fst rt) (snd rt).

  Definition unlimited_term : TM.term := TM.Combined [].

  Definition line_M (fuel : nat) (id : Z) (w : world) (q : query) (es : list entry) : string :=
    line "M" id
      (if SR.has_tie N fuel w q then "TIE"
       else show_case true (model_obs fuel w q (unlimited_term, []))
                      (map (fun e => (e, model_obs fuel w q e)) es)).

  (* ---- the k-shortest-path drivers: single_via_paths_algorithm::run = forward search, reverse search (each
          followed by `?`), then pure post-processing.  The model predicts, for every entry, whether and where a
          sub-search is stopped; when none is, the result is the unlimited driver's (Proofs: exec_limited_ok). ---- *)
  Definition ksp_obs (fuel : nat) (w : world) (q : query) (s tg : nat) (e : entry) : obs :=
    let ck := TM.clock_of_script (snd e) in
    let t := fst e in
    let fb := vertex_both fuel w q t ck Forward s (Some tg) in
    let f := fst fb in
    let ftr := snd fb in
    match f with
    | Ok _ =>
        let rb := vertex_both fuel w q t ck Reverse tg (Some s) in
        let r := fst rb in
        let rtr := snd rb in
        match r with
        | Ok _ => mkObs "pass" "" 0 [] [] 0 (ftr ++ rtr)
        | _ => obs_of r (ftr ++ rtr)
        end
    | _ => obs_of f ftr
    end.
  Definition ksp_tie (fuel : nat) (w : world) (q : query) (s tg : nat) : bool :=
    SR.vertex_ties N fuel w (SR.mkQ N (SR.q_alg N q) Forward SR.OVertex s (Some tg) (SR.q_wf N q)) s (Some tg)
    || SR.vertex_ties N fuel w (SR.mkQ N (SR.q_alg N q) Reverse SR.OVertex tg (Some s) (SR.q_wf N q)) tg (Some s).
  Definition line_M_ksp (fuel : nat) (id : Z) (w : world) (q : query) (s tg : nat) (es : list entry) : string :=
    line "M" id
      (if ksp_tie fuel w q s tg then "TIE"
       else show_case false (ksp_obs fuel w q s tg (unlimited_term, []))
                      (map (fun e => (e, ksp_obs fuel w q s tg e)) es)).
End Run.

(* ---------------------------------------------------------------- the property, on implementation observations *)

(* the first iteration from which the scripted clock stays above lim for good (None: it never does) *)
Fixpoint exhausted_from_go (lim : N) (l : list N) (i : nat) : option nat :=
  match l with
  | [] => None
  | [x] => if N.ltb lim x then Some i else None
  | x :: r => match exhausted_from_go lim r (S i) with
              | Some j => if Nat.eqb j (S i) && N.ltb lim x then Some i else Some j
              | None => None
              end
  end.
Definition exhausted_from (lim : N) (script : list N) : option nat := exhausted_from_go lim script 0.

Fixpoint split_subs (tr : list (nat * nat)) (cur : list (nat * nat)) : list (list (nat * nat)) :=
  match tr with
  | [] => match cur with [] => [] | _ => [rev cur] end
  | p :: r => if Nat.eqb (snd p) 0 then
                match cur with [] => split_subs r [p] | _ => rev cur :: split_subs r [p] end
              else split_subs r (p :: cur)
  end.

(* the limit tests made by searches: the segments whose first test is (solution size 0, iteration 0) *)
Definition search_tests (tr : list (nat * nat)) : list (nat * nat) :=
  flat_map (fun seg => match seg with (0, 0) :: _ => seg | _ => [] end) (split_subs tr []).

Fixpoint consecutive_from (i : nat) (tr : list (nat * nat)) : bool :=
  match tr with [] => true | p :: r => Nat.eqb (snd p) i && consecutive_from (S i) r end.

Definition pair_eqb (a b : nat * nat) : bool := Nat.eqb (fst a) (fst b) && Nat.eqb (snd a) (snd b).
Fixpoint is_prefix (a b : list (nat * nat)) : bool :=
  match a, b with
  | [], _ => true
  | x :: r, y :: s => pair_eqb x y && is_prefix r s
  | _, _ => false
  end.

(* TM.next_check over binary numbers (frequencies from a configuration file can be huge) *)
Definition next_check_N (f i0 : N) : N := (f * ((i0 + f - 1) / f))%N.

Definition init_part {A} (l : list A) : list A := removelast l.

(* clause (a) on one sub-search's counters [seg]; [lastseg] = the search was stopped in this sub-search (or it is
   the final one): every test but the last one passed *)
Definition check_bounds (t : TM.term) (script : list N) (maxdeg : nat) (seg : list (nat * nat)) : option string :=
  let passed := init_part seg in
  let lastp := List.last seg (0, 0) in
  (fix go (ls : list TM.term) : option string :=
     match ls with
     | [] => None
     | TM.Iter n :: r =>
         if forallb (fun p => N.leb (N.of_nat (snd p)) n) seg then go r else Some "iterations>limit"
     | TM.Size n :: r =>
         if forallb (fun p => N.leb (N.of_nat (fst p)) n) passed
            && N.leb (N.of_nat (fst lastp)) (n + N.of_nat maxdeg) then go r else Some "size>limit+outdeg"
     | TM.Runtime lim f :: r =>
         match exhausted_from lim script with
         | Some i0 =>
             if forallb (fun p => N.leb (N.of_nat (snd p)) (next_check_N f (N.of_nat i0))) seg then go r
             else Some "ran past the scheduled check"
         | None => go r
         end
     | TM.Combined _ :: r => go r
     end) (TM.leaves t).

(* clause (b): the implementation's result is the unlimited result verbatim, or the explicit error naming exactly
   the limits exceeded by the counters of the last test; no test before the last one fired *)
Definition check_entry (vertex_result : bool) (maxdeg : nat) (unl : obs) (e : entry) (o : obs) : option string :=
  let '(t, script) := e in
  let ck := TM.clock_of_script script in
  if negb (TM.wf t) then None                        (* zero frequency: configuration error, outside the property *)
  else
    let subs := split_subs (ob_trace o) [] in
    let lastseg := List.last subs [] in
    let lastp := List.last (ob_trace o) (0, 0) in
    let fires_at p := TM.fires t ck (fst p) (snd p) in
    (* a search (or a driver on top of sub-searches) that returns must return the unlimited result: every tree, every
       route edge by edge, iterations, all costs and states *)
    if String.eqb (ob_status o) "Ok" && negb (same_result o unl) then Some "returned a result that differs from the unlimited result"
    else
    match (fix all (l : list (list (nat * nat))) : option string :=
             match l with
             | [] => None
             | s :: r => match check_bounds t script maxdeg s with Some w => Some w | None => all r end
             end) subs with
    | Some why => Some why
    | None =>
    if existsb fires_at (init_part (ob_trace o)) then Some "limit exceeded but the search went on"
    else if negb (is_prefix (ob_trace o) (ob_trace unl)) then Some "not a prefix of the unlimited run"
    else if negb (forallb (consecutive_from 0) subs) then Some "limit not consulted at every iteration"
    else
    if String.eqb (ob_status o) "terminated" then
      match ob_trace o with
      | [] => Some "terminated without a test"
      | _ =>
          if negb (fires_at lastp) then Some "terminated although no limit is exceeded"
          (* limits stop SEARCHES: a query all of whose searches stay within the limits is answered.  A search's
             first limit test sees an empty tree at iteration 0, so the tests of the unlimited run that belong to
             searches are the segments that start with (0, 0) *)
          else if negb (existsb fires_at (search_tests (ob_trace unl)))
          then Some "terminated although every search of the unlimited run stays within the limits"
          else if String.eqb (ob_msg o) (join ", " (map TM.leaf_msg (TM.fired t ck (fst lastp) (snd lastp)))) then None
          else Some "explanation does not name the limits that fired"
      end
    else if (match ob_trace o with [] => false | _ => fires_at lastp end) then Some "limit exceeded but no terminated error"
    else if negb (same_result o unl) then Some "result differs from the unlimited result"
    else if vertex_result && String.eqb (ob_status o) "Ok" then
      (* what a returned result may look like under the limits *)
      if forallb (fun x => match x with
                           | TM.Iter n => N.ltb (N.of_nat (ob_iters o)) n || (Nat.eqb (ob_iters o) 0 && match ob_trace o with [] => true | _ => false end)
                           | TM.Size n => forallb (fun tr => N.leb (N.of_nat (List.length tr)) n) (ob_trees o)
                           | _ => true
                           end) (TM.leaves t) then None
      else Some "returned result exceeds a limit"
    else None
    end.

(* clause (c): success is monotone.  [stricter_b a b]: syntactically, a fires whenever b does *)
Fixpoint stricter_b (a b : TM.term) : bool :=
  match a, b with
  | TM.Iter n, TM.Iter n' => N.leb n n'
  | TM.Size n, TM.Size n' => N.leb n n'
  | TM.Runtime n f, TM.Runtime n' f' => N.leb n n' && N.eqb f f'
  | TM.Combined l, TM.Combined l' => list_eqb stricter_b l l'
  | _, _ => false
  end.
Definition script_eqb (a b : list N) : bool := list_eqb N.eqb a b.
Definition succeeded (unl o : obs) : bool := negb (String.eqb (ob_status o) "terminated").
Definition check_monotone (unl : obs) (es : list (entry * obs)) : option string :=
  if forallb (fun a => forallb (fun b =>
        negb (stricter_b (fst (fst a)) (fst (fst b)) && script_eqb (snd (fst a)) (snd (fst b))
              && succeeded unl (snd a))
        || succeeded unl (snd b)) es) es
  then None else Some "success not monotone in the limit".

Definition check_case (vertex_result : bool) (maxdeg : nat) (unl : obs) (es : list (entry * obs)) : option string :=
  match (fix all (l : list (entry * obs)) (k : nat) : option string :=
           match l with
           | [] => None
           | eo :: r => match check_entry vertex_result maxdeg unl (fst eo) (snd eo) with
                        | Some why => Some (why ++ " @entry " ++ show_nat k ++ " " ++ show_term (fst (fst eo)))
                        | None => all r (S k)
                        end
           end) es 0 with
  | Some why => Some why
  | None => check_monotone unl es
  end.

Definition max_degree (g : graph) : nat := Nat.max (TM.deg_bound Forward g) (TM.deg_bound Reverse g).

Section Spec.
  Variable N : Num.
  (* plain searches; [full] result-shape checks apply to vertex-oriented queries (the edge-oriented wrapper adds
     its own iterations and a grafted branch) *)
  Definition line_S (id : Z) (w : SR.world N) (q : SR.query N) (unl : obs) (es : list (entry * obs)) : string :=
    let vertex := match SR.q_orient N q with SR.OVertex => true | SR.OEdge => false end in
    let maxdeg := TM.deg_bound (SR.q_dir N q) (SR.graph_of N w) in
    line "S" id (match check_case vertex maxdeg unl es with
                 | None => show_case true unl es
                 | Some why => "REJECT(" ++ why ++ ")"
                 end).
  (* KSP drivers: sub-searches run in both directions *)
  Definition line_S_ksp (id : Z) (w : SR.world N) (unl : obs) (es : list (entry * obs)) : string :=
    line "S" id (match check_case false (max_degree (SR.graph_of N w)) unl es with
                 | None => show_case false unl es
                 | Some why => "REJECT(" ++ why ++ ")"
                 end).
End Spec.

(* ---------------------------------------------------------------- the predicate and the builder, called directly *)
Definition show_res_bool (r : res bool) : string := show_res show_bool r.
Definition show_res_optstr (r : res (option string)) : string := show_res (show_option (fun s => s)) r.
Definition show_res_unit (r : res unit) : string := show_res (fun _ => "()") r.
Definition line_pred (id : Z) (t : TM.term) (script : list N) (z i : nat) : string :=
  let ck := TM.clock_of_script script in
  line "M" id ("ts=" ++ show_res_bool (TM.terminate_search t ck z i)
               ++ " ex=" ++ show_res_optstr (TM.explain t ck z i)
               ++ " test=" ++ show_res_unit (TM.test t ck z i)).

Definition show_built (r : res TM.term) : string := show_res show_term r.
Definition line_build (id : Z) (js : list json) : string :=
  line "M" id (join " | " (map (fun j => show_built (TM.build 50 j)) js)).

(* ---- configured models at work: JSON -> TerminationModelBuilder::build -> a real search under the built model.
        [configured j] reads the limits the way the PROPERTY reads a configuration: an `iterations` / `solution_size`
        limit of L >= 0 means L, a `query_runtime` limit "h:mm:ss" means that many seconds checked every
        `frequency` >= 1 iterations, `combined` means all of its members.  None = not such a configuration (negative
        numbers, missing or mistyped fields ...): outside the property, whatever the builder does with it. ---- *)
(* the notation of a time budget, read as the documentation reads it: `h:mm:ss` = one or more decimal digits of hours,
   exactly two digits of minutes, exactly two digits of seconds, nothing else (no sign, no blanks, no fraction); the
   budget is h hours + mm minutes + ss seconds (mm, ss above 59 simply count).  Written independently of the model's
   TM.as_duration: one left-to-right pass that keeps the value and digit count of the current field. *)
Fixpoint hms_fields (s : string) (cur : BinNums.N) (ndig : nat) (acc : list (BinNums.N * nat))
  : option (list (BinNums.N * nat)) :=
  match s with
  | EmptyString => Some (rev ((cur, ndig) :: acc))
  | String c r =>
      let n := nat_of_ascii c in
      if Nat.eqb n 58 then hms_fields r 0%N 0 ((cur, ndig) :: acc)
      else if Nat.leb 48 n && Nat.leb n 57 then hms_fields r (cur * 10 + N.of_nat (n - 48))%N (S ndig) acc
      else None
  end.
Definition spec_hms_seconds (s : string) : option BinNums.N :=
  match hms_fields s 0%N 0 [] with
  | Some [(h, nh); (m, 2); (sec, 2)] => if Nat.eqb nh 0 then None else Some (h * 3600 + m * 60 + sec)%N
  | _ => None
  end.

(* [every_check] = read a query_runtime member whose `frequency` is not a positive integer (0, negative, missing, not an
   integer) as "checked at every iteration" instead of giving up: used only to say what the time budget of a
   configuration that should have been refused would have demanded *)
Fixpoint configured_f (every_check : bool) (fuel : nat) (j : json) : option TM.term :=
  match fuel with
  | 0 => None
  | S fu =>
      match jget j "type" with
      | Some (JStr ty) =>
          let ty := TM.to_lowercase ty in
          let nonneg (k : string) : option N :=
            match TM.get_config_i64 j k with
            | Ok z => if Z.leb 0 z then Some (Z.to_N z) else None
            | _ => None
            end in
          if String.eqb ty "iterations" then option_map TM.Iter (nonneg "limit")
          else if String.eqb ty "solution_size" then option_map TM.Size (nonneg "limit")
          else if String.eqb ty "query_runtime" then
            match jget j "limit" with
            | Some (JStr txt) =>
                match spec_hms_seconds txt with
                | Some secs =>
                    match nonneg "frequency" with
                    | Some f => if N.eqb f 0 then (if every_check then Some (TM.Runtime (secs * 1000000000)%N 1) else None)
                                else Some (TM.Runtime (secs * 1000000000)%N f)
                    | None => if every_check then Some (TM.Runtime (secs * 1000000000)%N 1) else None
                    end
                | None => None
                end
            | _ => None
            end
          else if String.eqb ty "combined" then
            match jget j "models" with
            | Some (JArr ms) =>
                option_map TM.Combined
                  ((fix go (ms : list json) : option (list TM.term) :=
                      match ms with
                      | [] => Some []
                      | x :: r => match configured_f every_check fu x, go r with
                                  | Some t, Some l => Some (t :: l)
                                  | _, _ => None
                                  end
                      end) ms)
            | _ => None
            end
          else None
      | _ => None
      end
  end.
Definition configured (fuel : nat) (j : json) : option TM.term := configured_f false fuel j.

(* a configuration the builder MUST refuse, read from the text: some query_runtime member (top level, or at any depth
   of `combined` members) whose `frequency` is not an integer >= 1.  The time budget is tested when
   iteration % frequency == 0: there is no such schedule for 0 (or a negative / fractional / missing number), and a
   builder that lets it through yields a search that panics or never looks at the clock *)
Fixpoint bad_frequency (fuel : nat) (j : json) : bool :=
  match fuel with
  | 0 => false
  | S fu =>
      match jget j "type" with
      | Some (JStr ty) =>
          let ty := TM.to_lowercase ty in
          if String.eqb ty "query_runtime" then
            match jget j "frequency" with
            | Some (JInt z) => Z.ltb z 1
            | _ => true
            end
          else if String.eqb ty "combined" then
            match jget j "models" with
            | Some (JArr ms) => existsb (bad_frequency fu) ms
            | _ => false
            end
          else false
      | _ => false
      end
  end.

(* one configuration of a case: the clock script played to it, what the builder returned and, when it built a model,
   the search observed under it *)
Definition show_config_entry (unl : obs) (script : list N) (b : res TM.term) (o : option obs) : string :=
  show_built b ++ match b, o with
                  | Ok t, Some ob => " => " ++ show_entry unl (t, script) ob
                  | _, _ => ""
                  end.
Definition show_config_case (unl : obs) (cs : list (list N * res TM.term * option obs)) : string :=
  "U{" ++ show_obs_full unl ++ " tr=" ++ show_list show_pair_nn (ob_trace unl) ++ "} "
  ++ join " | " (map (fun c => show_config_entry unl (fst (fst c)) (snd (fst c)) (snd c)) cs).

Section ConfigRun.
  Variable N : Num.
  Definition line_M_config (fuel : nat) (id : Z) (w : SR.world N) (q : SR.query N) (js : list (json * list BinNums.N))
    : string :=
    line "M" id
      (if SR.has_tie N fuel w q then "TIE"
       else show_config_case (model_obs N fuel w q (unlimited_term, []))
              (map (fun js => let b := TM.build 50 (fst js) in
                              (snd js, b, match b with Ok t => Some (model_obs N fuel w q (t, snd js)) | _ => None end)) js)).

  (* the property, from the JSON configuration TEXT and the implementation's observations: the sweep of configured
     models must behave as the configured numbers say (check_case: bounds, explicit error naming the configured
     limit, unlimited result otherwise -- in particular under every limit larger than what the search needs --,
     monotone); a well-formed configuration must be accepted by the builder; and whatever else the builder accepts
     (negative numbers ...), a search under it ends with the unlimited result or an explicit 'terminated' error,
     never with a crash *)
  Definition line_S_config (id : Z) (w : SR.world N) (q : SR.query N) (unl : obs)
             (cs : list (json * list BinNums.N * res TM.term * option obs)) : string :=
    let vertex := match SR.q_orient N q with SR.OVertex => true | SR.OEdge => false end in
    let maxdeg := TM.deg_bound (SR.q_dir N q) (SR.graph_of N w) in
    let cfg c := configured 50 (fst (fst (fst c))) in
    let scr c := snd (fst (fst c)) in
    let built c := snd (fst c) in
    let rejected := existsb (fun c => match cfg c, built c with
                                      | Some _, Ok _ => false
                                      | Some _, _ => true
                                      | None, _ => false
                                      end) cs in
    let crashed := existsb (fun c => match cfg c, snd c with
                                     | None, Some o => negb (String.eqb (ob_status o) "terminated" || same_result o unl)
                                     | _, _ => false
                                     end) cs in
    let es := flat_map (fun c => match cfg c, snd c with
                                 | Some t, Some o => [((t, scr c), o)]
                                 | _, _ => []
                                 end) cs in
    (* a query_runtime frequency below 1 (or not an integer) must be refused; if it was accepted, say also whether the
       run at least kept to the time budget (read as "checked at every iteration") *)
    let accepted_bad := flat_map (fun c => match built c with
                                           | Ok _ => if bad_frequency 50 (fst (fst (fst c))) then [c] else []
                                           | _ => []
                                           end) cs in
    let budget_broken := flat_map (fun c => match configured_f true 50 (fst (fst (fst c))), snd c with
                                            | Some t, Some o =>
                                                match check_entry vertex maxdeg unl (t, scr c) o with
                                                | Some why => [why ++ " @ " ++ show_term t]
                                                | None => []
                                                end
                                            | _, _ => []
                                            end) accepted_bad in
    line "S" id
      (match accepted_bad with
       | _ :: _ => "REJECT(a query_runtime frequency that is not an integer >= 1 was accepted by the builder"
                   ++ match budget_broken with
                      | why :: _ => "; the search under it does not keep to the configured time budget: " ++ why
                      | [] => ""
                      end ++ ")"
       | [] =>
       if rejected then "REJECT(a well-formed configuration was rejected by the builder)"
       else if crashed then "REJECT(a search under an accepted configuration ended neither with the unlimited result nor with a terminated error)"
       else match check_case vertex maxdeg unl es with
            | None => show_config_case unl (map (fun c => (scr c, built c, snd c)) cs)
            | Some why => "REJECT(" ++ why ++ " -- the term shown is the CONFIGURED one)"
            end
       end).
End ConfigRun.

End TR.
