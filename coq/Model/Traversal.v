(* Edge traversal of routee-compass-core (property C03).  Faithful transcription, definitions only.

     model/network/graph.rs                     Graph::{get_edge, get_vertex, edge_triplet}     -> get_edge, get_vertex, edge_triplet
     model/traversal/default/
       distance_traversal_model.rs              DistanceTraversalModel::traverse_edge   (estimate_traversal: haversine, not modelled)
       speed_traversal_engine.rs                SpeedTraversalEngine::new, get_max_speed        -> engine_new, get_max_speed
       speed_traversal_model.rs                 SpeedTraversalModel::{traverse_edge, state_features}, get_speed
                                                                                                -> traverse_edge, tm_state_features
     model/access/default/turn_delays/
       edge_heading.rs                          EdgeHeading::{start_heading, end_heading, bearing_to_destination}
       turn.rs                                  Turn, Turn::from_angle   (rows from Gen/TurnTable.v, regenerated from the source)
       turn_delay_access_model_engine.rs        get_headings, TurnDelayAccessModelEngine::get_delay
       turn_delay_access_model.rs               TurnDelayAccessModel::access_edge
     model/access/default/no_access_model.rs                                                    -> AMNone   (combined_model.rs is not modelled)
     algorithm/search/edge_traversal.rs         EdgeTraversal::{forward_traversal, reverse_traversal, total_cost}
     algorithm/search/a_star/bidirectional_ops.rs   reorient_reverse_route
     algorithm/search/search_algorithm.rs       run_edge_oriented: the composition with the zero-cost end edges -> compose_edge_oriented
     routee-compass/src/plugin/output/default/traversal/plugin.rs   construct_route_output: traversal_summary = serialize_state(last state)

   The cost model is a parameter (record [cost_fns]: CostModel::access_cost and CostModel::edge_cost); Model/TraversalRun.v
   instantiates it with Model/Cost.v (property C07).  Order of the floating-point operations = order of the Rust code:
     distance model   d  = BASE.convert(edge.distance, du);  add_distance("distance", d, du)
     speed model      d  = BASE.convert(edge.distance, du);  s = table[edge_id];  t = Time::create(s, su, d, du, tu);
                      add_time("time", t, tu);  add_distance("distance", d, du)
     turn delay       angle = dst.start - src.end (i16; wrapped once by +-360);  turn = from_angle(angle)?;
                      delay = table[turn];  add_time(time_feature, delay, delay_unit)
     forward          state' = prev;  [access(prev_edge, next) on state';  ac = ZERO + access_cost(prev, next, prev_state, state')]
                      traverse(next) on state';  total = edge_cost(pair?, next, prev_state, state');  tc = total - ac
   Failure modes are values: Err "EdgeNotFound" | "VertexNotFound" | "TraversalModelFailure" (speed table index) |
   "TimeFromSpeedAndDistanceError" | "AccessRuntimeError" (missing heading, angle outside every arm, missing table entry) |
   the StateOps errors | whatever the cost functions return;  Panic for an i16 overflow in the heading subtraction
   (the harness is built with overflow checks).
   Edge and vertex ids are positions (nat).  Numbers generic in [N : Num]. *)
From Coq Require Import ZArith List String Bool.
From RC Require Import Base.Num Base.Res Model.Units Model.StateOps Gen.TurnTable.
Import ListNotations.

Module Traversal.
Import Units StateOps TurnTable.
Local Open Scope string_scope.

(* ---- graph ---- *)
Record edge (A : Type) : Type := { e_src : nat; e_dst : nat; e_dist : A }.
Arguments e_src {A} e. Arguments e_dst {A} e. Arguments e_dist {A} e. Arguments Build_edge {A} e_src e_dst e_dist.
Record graph (A : Type) : Type := { g_nv : nat; g_edges : list (edge A) }.
Arguments g_nv {A} g. Arguments g_edges {A} g. Arguments Build_graph {A} g_nv g_edges.

Definition err_edge : string := "EdgeNotFound".
Definition err_vertex : string := "VertexNotFound".
Definition err_speed_index : string := "TraversalModelFailure".
Definition err_access : string := "AccessRuntimeError".
Definition err_engine : string := "BuildError".

Definition get_edge {A} (g : graph A) (e : nat) : res (edge A) :=
  match nth_error (g_edges g) e with Some x => Ok x | None => Err err_edge end.
Definition get_vertex {A} (g : graph A) (v : nat) : res unit :=
  if Nat.ltb v (g_nv g) then Ok tt else Err err_vertex.
Definition edge_triplet {A} (g : graph A) (e : nat) : res (edge A) :=
  do x <- get_edge g e;
  do _ <- get_vertex g (e_src x);
  do _ <- get_vertex g (e_dst x);
  Ok x.

(* ---- turns ---- *)
Inductive turn : Set := NoTurn | SlightRight | SlightLeft | Right | Left | SharpRight | SharpLeft | UTurn.
Definition all_turns : list turn := [NoTurn; SlightRight; SlightLeft; Right; Left; SharpRight; SharpLeft; UTurn].
Definition turn_name (t : turn) : string :=
  match t with
  | NoTurn => "NoTurn" | SlightRight => "SlightRight" | SlightLeft => "SlightLeft" | Right => "Right"
  | Left => "Left" | SharpRight => "SharpRight" | SharpLeft => "SharpLeft" | UTurn => "UTurn"
  end.
(* serde(rename_all = "snake_case") *)
Definition show_turn (t : turn) : string :=
  match t with
  | NoTurn => "no_turn" | SlightRight => "slight_right" | SlightLeft => "slight_left" | Right => "right"
  | Left => "left" | SharpRight => "sharp_right" | SharpLeft => "sharp_left" | UTurn => "u_turn"
  end.
Definition turn_eqb (a b : turn) : bool := String.eqb (turn_name a) (turn_name b).
Definition turn_of_name (s : string) : option turn := find (fun t => String.eqb (turn_name t) s) all_turns.

(* Turn::from_angle: first arm (source order) whose inclusive range contains the angle *)
Fixpoint first_row (rows : list ((Z * Z) * string)) (a : Z) : option string :=
  match rows with
  | [] => None
  | ((lo, hi), nm) :: r => if (lo <=? a)%Z && (a <=? hi)%Z then Some nm else first_row r a
  end.
Definition from_angle (a : Z) : res turn :=
  match first_row turn_ranges a with
  | Some nm => match turn_of_name nm with Some t => Ok t | None => Err err_access end
  | None => Err err_access
  end.

(* ---- edge headings ---- *)
Record heading : Set := { h_arrival : Z; h_departure : option Z }.
Definition start_heading (h : heading) : Z := h_arrival h.
Definition end_heading (h : heading) : Z := match h_departure h with Some d => d | None => h_arrival h end.

Definition i16 (z : Z) : res Z :=
  if (-32768 <=? z)%Z && (z <=? 32767)%Z then Ok z else Panic "i16 overflow".
Definition wcmp_holds (c : wcmp) (a b : Z) : bool :=
  match c with WGt => (b <? a)%Z | WGe => (b <=? a)%Z | WLt => (a <? b)%Z | WLe => (a <=? b)%Z end.
(* EdgeHeading::bearing_to_destination *)
Definition bearing_to_destination (src dst : heading) : res Z :=
  do angle <- i16 (start_heading dst - end_heading src);
  if wcmp_holds wrap_hi_cmp angle wrap_hi then i16 (angle - wrap_sub)
  else if wcmp_holds wrap_lo_cmp angle wrap_lo then i16 (angle + wrap_add)
  else Ok angle.

(* ---- traversal models ---- *)
Record engine (A : Type) : Type :=
  { sp_table : list A; sp_su : speed_unit; sp_tu : time_unit; sp_du : dist_unit; sp_max : A }.
Arguments sp_table {A} e. Arguments sp_su {A} e. Arguments sp_tu {A} e. Arguments sp_du {A} e. Arguments sp_max {A} e.
Arguments Build_engine {A} sp_table sp_su sp_tu sp_du sp_max.

Inductive tmodel (A : Type) : Type :=
| TMDistance (du : dist_unit)
| TMSpeed (e : engine A).
Arguments TMDistance {A} du. Arguments TMSpeed {A} e.

(* ---- access models ---- *)
Record turn_delay (A : Type) : Type :=
  { td_headings : list heading; td_table : list (turn * A); td_unit : time_unit; td_feature : string }.
Arguments td_headings {A} t. Arguments td_table {A} t. Arguments td_unit {A} t. Arguments td_feature {A} t.
Arguments Build_turn_delay {A} td_headings td_table td_unit td_feature.

Inductive amodel (A : Type) : Type :=
| AMNone
| AMTurnDelay (t : turn_delay A).
Arguments AMNone {A}. Arguments AMTurnDelay {A} t.

(* ---- EdgeTraversal ---- *)
Record etrav (A : Type) : Type := { et_edge : nat; et_access : A; et_trav : A; et_state : list A }.
Arguments et_edge {A} e. Arguments et_access {A} e. Arguments et_trav {A} e. Arguments et_state {A} e.
Arguments Build_etrav {A} et_edge et_access et_trav et_state.

(* CostModel::access_cost(prev_edge, next_edge, prev_state, next_state),
   CostModel::edge_cost(access pair, edge, prev_state, next_state) and Cost::enforce_strictly_positive *)
Record cost_fns (A : Type) : Type :=
  { cf_access : nat -> nat -> list A -> list A -> res A;
    cf_edge : option (nat * nat) -> nat -> list A -> list A -> res A;
    cf_floor : A -> A }.
Arguments cf_access {A} c. Arguments cf_edge {A} c. Arguments cf_floor {A} c.
Arguments Build_cost_fns {A} cf_access cf_edge cf_floor.

Record instance (A : Type) : Type :=
  { i_graph : graph A; i_sm : smodel A; i_tm : tmodel A; i_am : amodel A; i_cost : cost_fns A }.
Arguments i_graph {A} i. Arguments i_sm {A} i. Arguments i_tm {A} i. Arguments i_am {A} i. Arguments i_cost {A} i.
Arguments Build_instance {A} i_graph i_sm i_tm i_am i_cost.

Definition distance_name : string := "distance".
Definition time_name : string := "time".

Section Model.
  Variable N : Num.
  Notation state := (list N).

  (* get_max_speed: fold((ZERO, 0), |(acc_max, n), row| (if acc_max > row { acc_max } else { row }, n + 1)) *)
  Definition get_max_speed (table : list N) : res N :=
    let m := fold_left (fun acc row => if ltb row acc then acc else row) table zero in
    match table with
    | [] => Err err_engine
    | _ :: _ => if eqb m zero then Err err_engine else Ok m
    end.
  (* SpeedTraversalEngine::new (after the file was read) *)
  Definition engine_new (table : list N) (su : speed_unit) (du : option dist_unit) (tu : option time_unit)
    : res (engine N) :=
    do m <- get_max_speed table;
    Ok (Build_engine table su (match tu with Some u => u | None => base_time_unit end)
                     (match du with Some u => u | None => base_distance_unit end) m).

  Definition get_speed (table : list N) (e : nat) : res N :=
    match nth_error table e with Some s => Ok s | None => Err err_speed_index end.

  (* TraversalModel::state_features *)
  Definition tm_state_features (tm : tmodel N) : list (string * feature N) :=
    match tm with
    | TMDistance _ => []
    | TMSpeed en => [(time_name, FTime (sp_tu en) zero); (distance_name, FDistance (sp_du en) zero)]
    end.

  (* TraversalModel::traverse_edge *)
  Definition traverse_edge (tm : tmodel N) (sm : smodel N) (eid : nat) (e : edge N) (st : state) : res state :=
    match tm with
    | TMDistance du =>
        let distance := convert_distance N base_distance_unit du (e_dist e) in
        add_distance N sm st distance_name distance du
    | TMSpeed en =>
        let distance := convert_distance N base_distance_unit (sp_du en) (e_dist e) in
        do speed <- get_speed (sp_table en) eid;
        do edge_time <- create_time N speed (sp_su en) distance (sp_du en) (sp_tu en);
        do st1 <- add_time N sm st time_name edge_time (sp_tu en);
        add_distance N sm st1 distance_name distance (sp_du en)
    end.

  (* get_headings *)
  Definition get_heading (hs : list heading) (e : nat) : res heading :=
    match nth_error hs e with Some h => Ok h | None => Err err_access end.
  Fixpoint table_get (t : list (turn * N)) (k : turn) : option N :=
    match t with
    | [] => None
    | (k', v) :: r => if turn_eqb k' k then Some v else table_get r k
    end.
  (* TurnDelayAccessModelEngine::get_delay for (v1)-[src]->(v2)-[dst]->(v3) *)
  Definition get_delay (td : turn_delay N) (src dst : nat) : res N :=
    do hs <- get_heading (td_headings td) src;
    do hd <- get_heading (td_headings td) dst;
    do angle <- bearing_to_destination hs hd;
    do t <- from_angle angle;
    match table_get (td_table td) t with Some d => Ok d | None => Err err_access end.

  (* AccessModel::access_edge for the edge pair (src, dst) *)
  Definition access_edge (am : amodel N) (sm : smodel N) (src dst : nat) (st : state) : res state :=
    match am with
    | AMNone => Ok st
    | AMTurnDelay td =>
        do delay <- get_delay td src dst;
        add_time N sm st (td_feature td) delay (td_unit td)
    end.

  (* the common body of forward_traversal / reverse_traversal: [this] is traversed, [pair] is the
     (prev, next) edge pair of the access when the edge is reached from / leads to another edge *)
  Definition traversal_body (inst : instance N) (this : nat) (pair : option (nat * nat)) (other_ok : res unit)
             (prev_state : state) : res (etrav N) :=
    do edge <- edge_triplet (i_graph inst) this;
    do acc <- match pair with
              | None => Ok (prev_state, zero)
              | Some (e1, e2) =>
                  do _ <- other_ok;
                  do st1 <- access_edge (i_am inst) (i_sm inst) e1 e2 prev_state;
                  do ac <- cf_access (i_cost inst) e1 e2 prev_state st1;
                  Ok (st1, add zero ac)
              end;
    let '(st1, access_cost) := acc in
    do st2 <- traverse_edge (i_tm inst) (i_sm inst) this edge st1;
    do total <- cf_edge (i_cost inst) pair this prev_state st2;
    Ok (Build_etrav this access_cost (sub total access_cost) st2).

  (* EdgeTraversal::forward_traversal(next, prev_opt, prev_state, si):
     the previous edge is looked up (get_edge, then its source vertex) after the triplet of [next] *)
  Definition forward_traversal (inst : instance N) (next : nat) (prev : option nat) (prev_state : state)
    : res (etrav N) :=
    traversal_body inst next
      (match prev with Some p => Some (p, next) | None => None end)
      (match prev with
       | Some p => do e1 <- get_edge (i_graph inst) p; get_vertex (i_graph inst) (e_src e1)
       | None => Ok tt
       end)
      prev_state.

  (* EdgeTraversal::reverse_traversal(prev, next_opt, prev_state, si): traverses [prev]; the access is that of
     the pair (prev, next); the next edge is looked up (get_edge, then its destination vertex) *)
  Definition reverse_traversal (inst : instance N) (prev : nat) (next : option nat) (prev_state : state)
    : res (etrav N) :=
    traversal_body inst prev
      (match next with Some n => Some (prev, n) | None => None end)
      (match next with
       | Some n => do e2 <- get_edge (i_graph inst) n; get_vertex (i_graph inst) (e_dst e2)
       | None => Ok tt
       end)
      prev_state.

  (* EdgeTraversal::total_cost: Cost::enforce_strictly_positive(self.access_cost + self.traversal_cost) *)
  Definition total_cost (c : cost_fns N) (et : etrav N) : N := cf_floor c (add (et_access et) (et_trav et)).

  (* a route built edge after edge: each edge is traversed from the state its predecessor left, with the
     predecessor as the access edge (the loop of reorient_reverse_route; also how a search tree grows a branch) *)
  Fixpoint walk (step : nat -> option nat -> state -> res (etrav N)) (other : option nat) (st : state)
           (es : list nat) : res (list (etrav N)) :=
    match es with
    | [] => Ok []
    | e :: r =>
        do et <- step e other st;
        do rest <- walk step (Some e) (et_state et) r;
        Ok (et :: rest)
    end.
  Definition run_forward (inst : instance N) (other : option nat) (st : state) (es : list nat) :=
    walk (forward_traversal inst) other st es.
  (* a reverse-oriented branch: [es] lists the edges from the destination backwards *)
  Definition run_reverse (inst : instance N) (other : option nat) (st : state) (es : list nat) :=
    walk (reverse_traversal inst) other st es.

  (* bidirectional_ops::reorient_reverse_route *)
  Definition reorient_reverse_route (inst : instance N) (fwd rev_route : list (etrav N))
    : res (list (etrav N)) :=
    let '(final_edge, acc_state) :=
      match last (map Some fwd) None with
      | None => (None, initial_state (i_sm inst))
      | Some l => (Some (et_edge l), et_state l)
      end in
    run_forward inst final_edge acc_state (rev (map et_edge rev_route)).

  (* search_algorithm::run_edge_oriented, general case (source and target edge neither equal nor adjacent): the
     vertex-oriented route found between them is framed by the source edge (zero cost, the declared initial state) and
     the target edge (zero cost, the state THAT route arrived in); an empty route is an InternalError *)
  Definition compose_edge_oriented (inst : instance N) (source target : nat) (inner : list (etrav N))
    : res (list (etrav N)) :=
    match last (map Some inner) None with
    | None => Err "InternalError"
    | Some l =>
        Ok (Build_etrav source zero zero (initial_state (i_sm inst))
            :: inner ++ [Build_etrav target zero zero (et_state l)])
    end.

  (* construct_route_output: traversal_summary = state_model.serialize_state(last_edge.result_state) *)
  Definition traversal_summary (inst : instance N) (route : list (etrav N)) : res (list (string * N)) :=
    match last (map Some route) None with
    | None => Err "EmptyRoute"
    | Some l => Ok (serialize_state (i_sm inst) (et_state l))
    end.
End Model.

End Traversal.
